"""Translator for C13: source-level rules of `dimod/cyvariables.pyx`, `dimod/variables.py` and
`dimod/utilities.py` -> lean/Generated/VarsRules.lean (written only when the content changes).

Extracted with regex (method blocks of the .pyx file) + `ast` (the blocks are plain Python once the
Cython signature is rewritten):

* the auto-label rule of `cyVariables._append(v=None)`: first candidate, guard, start of the search,
  loop test, increment;
* the exception class each operation raises (`_append` duplicate, `_pop` on empty, `at` out of range,
  `index` of an unknown label, `__getitem__` with a non-index, `iter_safe_relabels` conflicts).

Anything that does not have the expected shape makes the translator exit non-zero: the check then reports
the Lean obligations as broken (the property is no longer shown) and the harness searches for a failing input.
"""
import ast
import os
import re
import sys
import textwrap

import dimod

VERIF = os.path.dirname(os.path.dirname(os.path.dirname(os.path.abspath(__file__))))
OUT = os.path.join(VERIF, 'lean', 'Generated', 'VarsRules.lean')
SRC = os.path.dirname(os.path.abspath(dimod.__file__))

ERR = {'ValueError': 'value', 'IndexError': 'index', 'TypeError': 'type', 'KeyError': 'key', 'RuntimeError': 'runtime'}


def method_block(text, name):
    """source lines of method/function `name` (header rewritten to plain `def name(*a, **k):`), dedented"""
    m = re.search(r'^([ \t]*)(?:cpdef|cdef|def)\b[^\n(=.]*?\b' + re.escape(name) + r'\s*\(', text, flags=re.M)
    if not m:
        raise SystemExit(f'vars_rules: method {name} not found')
    indent = m.group(1)
    # the header may span several lines: up to the first line ending with ':'
    pos = m.start()
    hdr_end = re.compile(r'\)\s*(?:->[^\n:]*|except[^\n:]*)?:\s*(?:#[^\n]*)?\n').search(text, pos)
    body_start = hdr_end.end()
    out = []
    for ln in text[body_start:].splitlines():
        if ln.strip() and not ln.startswith(indent + ' ') and not ln.startswith(indent + '\t'):
            break
        out.append(ln)
    body = '\n'.join(out)
    # Cython-only statements inside bodies
    body = re.sub(r'^([ \t]*)cdef\s+[^\n=]*?(\w+)\s*=', r'\1\2 =', body, flags=re.M)      # cdef T x = e  -> x = e
    body = re.sub(r'^[ \t]*cdef\s+[^\n=]*$', '', body, flags=re.M)                          # cdef T x      -> (dropped)
    body = re.sub(r'<\s*\w+\s*\*?\s*>', '', body)                                           # casts
    return ast.parse('def f(*a, **k):\n' + textwrap.indent(textwrap.dedent(body), '    ')).body[0]


def is_self_attr(e, name):
    return isinstance(e, ast.Attribute) and isinstance(e.value, ast.Name) and e.value.id == 'self' and e.attr == name


def test_kind(e):
    """'count' for self.count(v); 'l2i' for PyDict_Contains(self._label_to_index, v) / v in self._label_to_index"""
    if isinstance(e, ast.Call) and is_self_attr(e.func, 'count') and len(e.args) == 1 and isinstance(e.args[0], ast.Name) and e.args[0].id == 'v':
        return 'count'
    if (isinstance(e, ast.Call) and isinstance(e.func, ast.Name) and e.func.id == 'PyDict_Contains' and len(e.args) == 2
            and is_self_attr(e.args[0], '_label_to_index') and isinstance(e.args[1], ast.Name) and e.args[1].id == 'v'):
        return 'l2i'
    if (isinstance(e, ast.Compare) and len(e.ops) == 1 and isinstance(e.ops[0], ast.In) and isinstance(e.left, ast.Name) and e.left.id == 'v'
            and is_self_attr(e.comparators[0], '_label_to_index')):
        return 'l2i'
    raise SystemExit('vars_rules: unrecognised containment test ' + ast.dump(e))


def auto_rule(fn):
    top = next((s for s in fn.body if isinstance(s, ast.If) and isinstance(s.test, ast.Compare) and isinstance(s.test.left, ast.Name)
                and s.test.left.id == 'v' and isinstance(s.test.ops[0], ast.Is) and isinstance(s.test.comparators[0], ast.Constant)
                and s.test.comparators[0].value is None), None)
    if top is None or len(top.body) != 2:
        raise SystemExit('vars_rules: `if v is None:` block of _append not of the shape [v = ..., if ...]')
    first, guard = top.body
    if not (isinstance(first, ast.Assign) and isinstance(first.targets[0], ast.Name) and first.targets[0].id == 'v'):
        raise SystemExit('vars_rules: first statement of the auto-label block is not `v = ...`')
    if is_self_attr(first.value, '_stop'):
        first_is_stop = True
    elif isinstance(first.value, ast.Constant) and first.value.value == 0:
        first_is_stop = False
    else:
        raise SystemExit('vars_rules: first candidate is neither self._stop nor 0')
    if not isinstance(guard, ast.If) or guard.orelse or len(guard.body) != 2:
        raise SystemExit('vars_rules: search block of _append not of the shape if g: [v = c; while t: v += d]')
    g = guard.test
    not_range = False
    if isinstance(g, ast.BoolOp) and isinstance(g.op, ast.And) and len(g.values) == 2:
        a, b = g.values
        if not (isinstance(a, ast.UnaryOp) and isinstance(a.op, ast.Not) and isinstance(a.operand, ast.Call) and is_self_attr(a.operand.func, '_is_range')):
            raise SystemExit('vars_rules: first conjunct of the guard is not `not self._is_range()`')
        not_range, g = True, b
    guard_kind = test_kind(g)
    start, loop = guard.body
    if not (isinstance(start, ast.Assign) and isinstance(start.value, ast.Constant) and isinstance(start.value.value, int) and start.value.value >= 0):
        raise SystemExit('vars_rules: search does not start from a non-negative integer constant')
    if not (isinstance(loop, ast.While) and len(loop.body) == 1 and isinstance(loop.body[0], ast.AugAssign) and isinstance(loop.body[0].op, ast.Add)
            and isinstance(loop.body[0].value, ast.Constant) and isinstance(loop.body[0].value.value, int) and loop.body[0].value.value >= 0):
        raise SystemExit('vars_rules: search loop is not `while t: v += <const>`')
    return dict(first_is_stop=first_is_stop, not_range=not_range, guard_kind=guard_kind, start=start.value.value,
                loop_kind=test_kind(loop.test), step=loop.body[0].value.value)


def raised(fn):
    """exception class names raised directly in the block, in source order (duplicates removed)"""
    out = []
    for n in ast.walk(fn):
        if isinstance(n, ast.Raise) and n.exc is not None:
            e = n.exc.func if isinstance(n.exc, ast.Call) else n.exc
            if isinstance(e, ast.Name) and e.id not in out:
                out.append(e.id)
    return out


def one(fn_name, names):
    if len(names) != 1 or names[0] not in ERR:
        raise SystemExit(f'vars_rules: {fn_name} raises {names}, expected exactly one known class')
    return ERR[names[0]]


def main():
    pyx = open(os.path.join(SRC, 'cyvariables.pyx')).read()
    util = open(os.path.join(SRC, 'utilities.py')).read()
    a = auto_rule(method_block(pyx, '_append'))
    b = lambda x: 'true' if x else 'false'  # noqa: E731
    errs = [
        ('errAppendDuplicate', one('_append', raised(method_block(pyx, '_append'))), '`_append` of a present label, not permissive'),
        ('errPopEmpty', one('_pop', raised(method_block(pyx, '_pop'))), '`_pop` on the empty object'),
        ('errAtRange', one('at', raised(method_block(pyx, 'at'))), '`at(idx)` out of range (`v[i]`)'),
        ('errIndexUnknown', one('index', raised(method_block(pyx, 'index'))), '`index(v)` / `_remove(v)` of an unknown label'),
        ('errGetitemType', one('__getitem__', raised(method_block(pyx, '__getitem__'))), '`v[x]`, x neither an index nor a slice'),
    ]
    rel = [x for x in raised(method_block(util, 'iter_safe_relabels')) if x != 'RuntimeError']  # `raise RuntimeError  # should never get here`
    errs.append(('errRelabelConflict', one('iter_safe_relabels', rel), '`_relabel` with a rejected mapping'))
    lines = ['/-! GENERATED by harness/translators/vars_rules.py from dimod/cyvariables.pyx and dimod/utilities.py — do not edit. -/',
             '', 'namespace Generated.VarsRules', '',
             '/-- exception classes -/', 'inductive Err where', '  | value | index | type | key | runtime', 'deriving DecidableEq, Repr', '',
             '/-! `_append(v=None)`: `v = <first>; if <guard>: v = <start>; while <test>(v): v += <step>` -/', '',
             f'/-- the first candidate is `self._stop` (else the constant 0) -/\ndef autoFirstIsStop : Bool := {b(a["first_is_stop"])}', '',
             f'/-- the guard starts with `not self._is_range() and` -/\ndef autoGuardNotRange : Bool := {b(a["not_range"])}', '',
             f'/-- the guard tests the candidate with `self.count(v)` (else: `v in self._label_to_index`) -/\ndef autoGuardUsesCount : Bool := {b(a["guard_kind"] == "count")}', '',
             f'/-- the search starts from this integer -/\ndef autoSearchStart : Nat := {a["start"]}', '',
             f'/-- the loop tests the candidate with `self.count(v)` (else: `v in self._label_to_index`) -/\ndef autoLoopUsesCount : Bool := {b(a["loop_kind"] == "count")}', '',
             f'/-- the loop increment -/\ndef autoSearchStep : Nat := {a["step"]}', '']
    for name, val, doc in errs:
        lines += [f'/-- {doc} -/', f'def {name} : Err := .{val}', '']
    lines += ['end Generated.VarsRules', '']
    text = '\n'.join(lines)
    old = open(OUT).read() if os.path.exists(OUT) else None
    if old != text:
        with open(OUT, 'w') as f:
            f.write(text)
        print('rewrote', OUT)
    else:
        print('unchanged', OUT)


if __name__ == '__main__':
    main()
