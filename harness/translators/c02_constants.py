"""Translator for C02: extract the conversion constants from the dimod source of the scratch build and
write lean/Generated/Vartype.lean (only when the content changes).

Sources (all under the build directory that is first on sys.path):
  * dimod/include/dimod/binary_quadratic_model.h   change_vartype: substitute_variables(a, c) pairs   (regex)
  * dimod/include/dimod/quadratic_model.h           change_vartype: substitute_variable(v, a, c) pairs (regex)
  * dimod/include/dimod/constrained_quadratic_model.h  same for objective and constraints             (regex)
  * dimod/binary/pybqm.py                           the ten multipliers of pyBQM.change_vartype        (ast)
  * dimod/binary/vartypeview.py                     read/write factors of VartypeView: the methods of the
    *imported* class are run on a recording stand-in for `self.data` with unit inputs, which yields the
    coefficients of the (linear) forms the code computes; linearity is verified on a second, random input.

Every extracted table is printed, so that a failure of a Lean proof can be related to the constant.
"""
import ast
import os
import random
import re
import sys
from fractions import Fraction

HERE = os.path.dirname(os.path.abspath(__file__))
VERIF = os.path.dirname(os.path.dirname(HERE))
OUT = os.path.join(VERIF, 'lean', 'Generated', 'Vartype.lean')


def src_root():
    import dimod
    return os.path.dirname(os.path.abspath(dimod.__file__))


def frac(x):
    return Fraction(x) if not isinstance(x, Fraction) else x


def num(tok):
    tok = tok.strip()
    if tok.startswith('+'):
        tok = tok[1:]
    return Fraction(tok if not tok.startswith('.') and not tok.startswith('-.') else tok.replace('.', '0.', 1))


def lean_rat(f):
    f = Fraction(f)
    if f.denominator == 1:
        return f'({f.numerator} : Rat)' if f.numerator >= 0 else f'(-{-f.numerator} : Rat)'
    s = f'({abs(f.numerator)} / {f.denominator} : Rat)'
    return s if f >= 0 else f'(-{s})'


# ------------------------------------------------------------------ C++ headers

def cpp_body(text, signature_re):
    """text of the function body that follows the first match of signature_re (brace matching)"""
    m = re.search(signature_re, text)
    if not m:
        raise SystemExit(f'translator: signature {signature_re!r} not found')
    i = text.index('{', m.end())
    depth, j = 0, i
    while True:
        if text[j] == '{':
            depth += 1
        elif text[j] == '}':
            depth -= 1
            if depth == 0:
                return text[i:j + 1]
        j += 1


def branch_after(body, cond_re):
    """the block `{ ... }` following the first `if`/`else if` whose condition matches cond_re"""
    m = re.search(cond_re, body)
    if not m:
        raise SystemExit(f'translator: branch {cond_re!r} not found')
    i = body.index('{', m.end())
    depth, j = 0, i
    while True:
        if body[j] == '{':
            depth += 1
        elif body[j] == '}':
            depth -= 1
            if depth == 0:
                return body[i:j + 1]
        j += 1


NUM = r'([-+]?(?:\d+\.?\d*|\.\d+))'


def cpp_constants(root):
    out = {}
    inc = os.path.join(root, 'include', 'dimod')
    t = open(os.path.join(inc, 'binary_quadratic_model.h')).read()
    body = cpp_body(t, r'void\s+BinaryQuadraticModel<[^>]*>::change_vartype\s*\(')
    for name, cond in (('bqmToSpin', r'vartype\s*==\s*Vartype::SPIN'), ('bqmToBinary', r'vartype\s*==\s*Vartype::BINARY')):
        blk = branch_after(body, cond)
        ms = re.findall(r'substitute_variables\(\s*' + NUM + r'\s*,\s*' + NUM + r'\s*\)', blk)
        if len(ms) != 1:
            raise SystemExit(f'translator: expected one substitute_variables call in the {name} branch, found {ms}')
        out[name] = (num(ms[0][0]), num(ms[0][1]))
    for fname, prefix, cls in (('quadratic_model.h', 'qm', 'QuadraticModel'),
                               ('constrained_quadratic_model.h', 'cqm', 'ConstrainedQuadraticModel')):
        t = open(os.path.join(inc, fname)).read()
        body = cpp_body(t, r'void\s+' + cls + r'<[^>]*>::change_vartype\s*\(')
        for name, cond in ((prefix + 'ToBinary', r'source\s*==\s*Vartype::SPIN\s*&&\s*target\s*==\s*Vartype::BINARY'),
                           (prefix + 'ToSpin', r'source\s*==\s*Vartype::BINARY\s*&&\s*target\s*==\s*Vartype::SPIN')):
            blk = branch_after(body, cond)
            ms = set(re.findall(r'substitute_variable\(\s*v\s*,\s*' + NUM + r'\s*,\s*' + NUM + r'\s*\)', blk))
            if len(ms) != 1:
                raise SystemExit(f'translator: the {name} branch of {fname} uses {sorted(ms)} (expected one pair)')
            a, c = ms.pop()
            out[name] = (num(a), num(c))
            lb = re.search(r'\.lb\s*=\s*' + NUM, blk)
            ub = re.search(r'\.ub\s*=\s*' + NUM, blk)
            if not lb or not ub:
                raise SystemExit(f'translator: bounds assignment missing in the {name} branch of {fname}')
            out[name + 'Bounds'] = (num(lb.group(1)), num(ub.group(1)))
    return out


# ------------------------------------------------------------------ pyBQM.change_vartype (ast)

PY_NAMES = ['lin_mp', 'lin_offset_mp', 'quad_mp', 'lin_quad_mp', 'quad_offset_mp']


def const_value(node):
    if isinstance(node, ast.Constant):
        return Fraction(node.value)
    if isinstance(node, ast.UnaryOp) and isinstance(node.op, ast.USub):
        return -const_value(node.operand)
    if isinstance(node, ast.UnaryOp) and isinstance(node.op, ast.UAdd):
        return const_value(node.operand)
    raise SystemExit('translator: multiplier is not a numeric literal: ' + ast.dump(node))


def pybqm_constants(root):
    tree = ast.parse(open(os.path.join(root, 'binary', 'pybqm.py')).read())
    fn = next(n for c in ast.walk(tree) if isinstance(c, ast.ClassDef) and c.name == 'pyBQM'
              for n in c.body if isinstance(n, ast.FunctionDef) and n.name == 'change_vartype')
    tables = {}

    def visit_if(node):
        test = ast.unparse(node.test)
        key = 'pyToBinary' if 'BINARY' in test else 'pyToSpin' if 'SPIN' in test else None
        if key:
            vals = {}
            for st in node.body:
                if isinstance(st, ast.Assign) and len(st.targets) == 1 and isinstance(st.targets[0], ast.Name) \
                        and st.targets[0].id in PY_NAMES:
                    vals[st.targets[0].id] = const_value(st.value)
            if set(vals) == set(PY_NAMES):
                tables[key] = [vals[n] for n in PY_NAMES]
        for st in node.orelse:
            if isinstance(st, ast.If):
                visit_if(st)

    for st in fn.body:
        if isinstance(st, ast.If):
            visit_if(st)
    if set(tables) != {'pyToBinary', 'pyToSpin'}:
        raise SystemExit(f'translator: multiplier tables of pyBQM.change_vartype not found ({sorted(tables)})')
    return tables


# ------------------------------------------------------------------ VartypeView factors (probing the real class)

class Rec:
    """stand-in for `self.data`: readers return the given numbers, writers are recorded"""

    def __init__(self, vt, offset=0, lin=0, nb=0, quad=0, rl=0, rq=0):
        self._vt = vt
        self.offset = Fraction(offset)
        self._lin, self._nb, self._quad, self._rl, self._rq = map(Fraction, (lin, nb, quad, rl, rq))
        self.calls = []
        self.samples = None

    def vartype(self, v=None):
        return self._vt

    def get_linear(self, v):
        return self._lin

    def get_quadratic(self, u, v, default=None):
        return self._quad

    def reduce_linear(self, f, init=None):
        return self._rl

    def reduce_quadratic(self, f, init=None):
        return self._rq

    def reduce_neighborhood(self, v, f, init=None):
        return self._nb

    def iter_neighborhood(self, v):
        yield 'w', self._quad

    def iter_quadratic(self):
        yield 'u', 'w', self._quad

    def add_linear(self, v, b):
        self.calls.append(('lin', v, Fraction(b)))

    def add_quadratic(self, u, v, b):
        self.calls.append(('quad', u, v, Fraction(b)))

    def energies(self, sl, dtype=None):
        self.samples = sl[0].copy()
        return [0] * len(sl[0])


def view_constants():
    import numpy as np
    from dimod.binary.vartypeview import VartypeView
    from dimod.vartypes import SPIN, BINARY
    rnd = random.Random(7)
    tables = {}
    for name, vview, vdata in (('viewBinaryOverSpin', BINARY, SPIN), ('viewSpinOverBinary', SPIN, BINARY)):
        def mk(**kw):
            d = Rec(vdata, **kw)
            return VartypeView(d, vview), d

        def linform(get, names):
            """coefficients of a linear form `get(**inputs)` in the named inputs (+ check on a random point)"""
            base = get(**{n: 0 for n in names})
            coefs = [get(**{n: (1 if n == k else 0) for n in names}) - base for k in names]
            pt = {n: Fraction(rnd.randint(-9, 9), 4) for n in names}
            if get(**pt) != base + sum(c * pt[n] for c, n in zip(coefs, names)):
                raise SystemExit(f'translator: {name}: a VartypeView reader is not linear in {names}')
            return [base] + coefs

        t = {}
        # offset getter: c0 + a*data.offset + b*reduce_linear + c*reduce_quadratic
        c = linform(lambda **kw: Fraction(mk(**kw)[0].offset), ['offset', 'rl', 'rq'])
        if c[0] != 0 or c[1] != 1:
            raise SystemExit(f'translator: {name}.offset is not data.offset + ...: {c}')
        t['offLin'], t['offQuad'] = c[2], c[3]
        # get_linear: a*lin + b*reduce_neighborhood
        c = linform(lambda **kw: Fraction(mk(**kw)[0].get_linear('v')), ['lin', 'nb'])
        if c[0] != 0:
            raise SystemExit(f'translator: {name}.get_linear has a constant part')
        t['getLinLin'], t['getLinNb'] = c[1], c[2]
        # get_quadratic / iter_neighborhood / iter_quadratic: a*quad
        c = linform(lambda **kw: Fraction(mk(**kw)[0].get_quadratic('u', 'w')), ['quad'])
        cn = linform(lambda **kw: Fraction(list(mk(**kw)[0].iter_neighborhood('u'))[0][1]), ['quad'])
        cq = linform(lambda **kw: Fraction(list(mk(**kw)[0].iter_quadratic())[0][2]), ['quad'])
        if not (c == cn == cq) or c[0] != 0:
            raise SystemExit(f'translator: {name}: get_quadratic / iter_neighborhood / iter_quadratic factors differ: {c} {cn} {cq}')
        t['getQuad'] = c[1]

        # writers: what a unit bias does to the data
        def wr_lin(b):
            v, d = mk()
            v.add_linear('v', Fraction(b))
            lin = sum(x[2] for x in d.calls if x[0] == 'lin' and x[1] == 'v')
            if any(x[0] != 'lin' or x[1] != 'v' for x in d.calls):
                raise SystemExit(f'translator: {name}.add_linear touches something else: {d.calls}')
            return lin, d.offset
        l1, o1 = wr_lin(1)
        l2, o2 = wr_lin(Fraction(-7, 4))
        if (l2, o2) != (l1 * Fraction(-7, 4), o1 * Fraction(-7, 4)):
            raise SystemExit(f'translator: {name}.add_linear is not linear in the bias')
        t['addLinLin'], t['addLinOff'] = l1, o1

        def wr_quad(b):
            v, d = mk()
            v.add_quadratic('u', 'w', Fraction(b))
            q = sum(x[3] for x in d.calls if x[0] == 'quad' and {x[1], x[2]} == {'u', 'w'})
            lu = sum(x[2] for x in d.calls if x[0] == 'lin' and x[1] == 'u')
            lw = sum(x[2] for x in d.calls if x[0] == 'lin' and x[1] == 'w')
            if len(d.calls) != 3:
                raise SystemExit(f'translator: {name}.add_quadratic makes unexpected calls: {d.calls}')
            return q, lu, lw, d.offset
        q1 = wr_quad(1)
        q2 = wr_quad(Fraction(5, 2))
        if q2 != tuple(x * Fraction(5, 2) for x in q1):
            raise SystemExit(f'translator: {name}.add_quadratic is not linear in the bias')
        t['addQuadQuad'], t['addQuadLinU'], t['addQuadLinW'], t['addQuadOff'] = q1
        # energies: the affine map applied to the sample values of the view's own domain
        v, d = mk()
        dom = [0, 1] if vview is BINARY else [-1, 1]
        v.energies((np.asarray([dom], dtype=np.int8), ['p', 'q']))
        y0, y1 = (Fraction(int(z)) for z in d.samples[0])
        mul = (y1 - y0) / (dom[1] - dom[0])
        t['sampleMul'], t['sampleAdd'] = mul, y0 - mul * dom[0]
        tables[name] = t
    return tables


VIEW_FIELDS = ['offLin', 'offQuad', 'getLinLin', 'getLinNb', 'getQuad', 'addLinLin', 'addLinOff',
               'addQuadQuad', 'addQuadLinU', 'addQuadLinW', 'addQuadOff', 'sampleMul', 'sampleAdd']


def render(cpp, py, view):
    L = []
    L.append('/-! GENERATED by harness/translators/c02_constants.py from the dimod source of the build under test.')
    L.append('    Do not edit: rewritten (when the source changes) by every run of `./check C02`.')
    L.append('    Conversion constants of the SPIN<->BINARY code paths. -/')
    L.append('')
    L.append('namespace Generated.Vartype')
    L.append('')
    L.append('/-- the five multipliers of one direction of `pyBQM.change_vartype` -/')
    L.append('structure PyTable (R : Type) where')
    L.append('  linMp : R')
    L.append('  linOffsetMp : R')
    L.append('  quadMp : R')
    L.append('  linQuadMp : R')
    L.append('  quadOffsetMp : R')
    L.append('')
    L.append('/-- the factors `VartypeView` applies, for one (view vartype, data vartype) combination -/')
    L.append('structure ViewTable (R : Type) where')
    for f in VIEW_FIELDS:
        L.append(f'  {f} : R')
    L.append('')
    docs = {'bqmToSpin': 'binary_quadratic_model.h: `change_vartype(SPIN)` calls `substitute_variables(a, c)`',
            'bqmToBinary': 'binary_quadratic_model.h: `change_vartype(BINARY)` calls `substitute_variables(a, c)`',
            'qmToBinary': 'quadratic_model.h: SPIN→BINARY `substitute_variable(v, a, c)`',
            'qmToSpin': 'quadratic_model.h: BINARY→SPIN `substitute_variable(v, a, c)`',
            'cqmToBinary': 'constrained_quadratic_model.h: SPIN→BINARY, objective and every constraint',
            'cqmToSpin': 'constrained_quadratic_model.h: BINARY→SPIN, objective and every constraint'}
    for k in ['bqmToSpin', 'bqmToBinary', 'qmToBinary', 'qmToSpin', 'cqmToBinary', 'cqmToSpin']:
        L.append(f'/-- {docs[k]} -/')
        L.append(f'def {k} : Rat × Rat := ({lean_rat(cpp[k][0])}, {lean_rat(cpp[k][1])})')
        if k + 'Bounds' in cpp:
            L.append(f'/-- bounds assigned in the same branch -/')
            L.append(f'def {k}Bounds : Rat × Rat := ({lean_rat(cpp[k + "Bounds"][0])}, {lean_rat(cpp[k + "Bounds"][1])})')
    L.append('')
    for k in ['pyToBinary', 'pyToSpin']:
        L.append(f'/-- pybqm.py: `change_vartype`, target {"BINARY" if k.endswith("Binary") else "SPIN"} -/')
        L.append(f'def {k} : PyTable Rat :=')
        L.append('  { ' + ', '.join(f'{n} := {lean_rat(v)}' for n, v in
                                   zip(['linMp', 'linOffsetMp', 'quadMp', 'linQuadMp', 'quadOffsetMp'], py[k])) + ' }')
    L.append('')
    for k in ['viewBinaryOverSpin', 'viewSpinOverBinary']:
        L.append(f'/-- vartypeview.py: view vartype {"BINARY" if "BinaryOver" in k else "SPIN"} on data of the other vartype -/')
        L.append(f'def {k} : ViewTable Rat :=')
        L.append('  { ' + ',\n    '.join(f'{f} := {lean_rat(view[k][f])}' for f in VIEW_FIELDS) + ' }')
    L.append('')
    L.append('end Generated.Vartype')
    return '\n'.join(L) + '\n'


def main():
    root = src_root()
    cpp = cpp_constants(root)
    py = pybqm_constants(root)
    view = view_constants()
    text = render(cpp, py, view)
    print('source root:', root)
    for k, v in sorted(cpp.items()):
        print(f'  {k} = {tuple(str(x) for x in v)}')
    for k, v in sorted(py.items()):
        print(f'  {k} = {[str(x) for x in v]}')
    for k, v in sorted(view.items()):
        print(f'  {k} = ' + ', '.join(f'{f}={v[f]}' for f in VIEW_FIELDS))
    old = open(OUT).read() if os.path.exists(OUT) else None
    if old != text:
        os.makedirs(os.path.dirname(OUT), exist_ok=True)
        with open(OUT, 'w') as f:
            f.write(text)
        print('wrote', OUT)
    else:
        print('unchanged', OUT)


if __name__ == '__main__':
    main()
