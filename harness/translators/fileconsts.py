"""Translator: file-format constants of dimod -> lean/Generated/FileConsts.lean.

Run with the scratch build of /repo first on PYTHONPATH (harness/main.py does that).  The magic
prefixes, section tags, length-field widths and format versions are read from the *imported*
modules, i.e. from the source the check is running against; the Lean models and theorems refer to
them only through `FileFmt.Gen.*`.  The file is rewritten only when its content changes."""
import inspect
import os
import sys

import dimod
from dimod.serialization import fileview as fv
from dimod.binary import binary_quadratic_model as bqm_mod
from dimod.quadratic import quadratic_model as qm_mod
from dimod.constrained import constrained as cqm_mod
from dimod.constrained import cyexpression
from dimod.discrete import discrete_quadratic_model as dqm_mod

OUT = os.path.join(os.path.dirname(os.path.dirname(os.path.dirname(os.path.abspath(__file__)))), 'lean', 'Generated', 'FileConsts.lean')


def lst(b):
    return '[' + ', '.join(str(x) for x in bytes(b)) + ']'


def dqm_loads_whole_file():
    src = inspect.getsource(dqm_mod.DiscreteQuadraticModel._from_file_numpy)
    code = '\n'.join(l.split('#')[0] for l in src.splitlines())
    whole = 'np.load(file_like)' in code.replace(' ', '')
    flat = code.replace(' ', '')
    # `np.load(io.BytesIO(file_like.read(int(length))))`, or the same through a variable whose length is compared first
    section = ('np.load(io.BytesIO(file_like.read(' in flat or
               ('blob=file_like.read(int(length))' in flat and 'np.load(io.BytesIO(blob))' in flat))
    if whole == section:
        raise SystemExit('fileconsts.py: cannot tell what _from_file_numpy hands to np.load')
    return whole


# ------------------------------------------------------------------ round 7: more of the format read from the source

import ast
import re
import textwrap
import zipfile


def chars(t):
    return '[' + ', '.join("'\\''" if c == "'" else "'\\\\'" if c == '\\' else f"'{c}'" for c in t) + ']'


def _src(obj):
    return textwrap.dedent(inspect.getsource(obj))


def _name_of(node):
    """a string constant, or an f-string with every placeholder written `{}`"""
    if isinstance(node, ast.Constant) and isinstance(node.value, str):
        return node.value
    if isinstance(node, ast.JoinedStr):
        return ''.join(v.value if isinstance(v, ast.Constant) else '{}' for v in node.values)
    return None


def cqm_member_names():
    """names passed to zf.writestr / zf.open(name, 'w') in ConstrainedQuadraticModel.to_file, in source order, and which of
    them are written with force_zip64=True; the compression constant used for compress=True"""
    tree = ast.parse(_src(cqm_mod.ConstrainedQuadraticModel.to_file))
    names, zip64, comp = [], [], None
    for node in ast.walk(tree):
        if isinstance(node, ast.Call) and isinstance(node.func, ast.Attribute) and isinstance(node.func.value, ast.Name) and node.func.value.id == 'zf':
            if node.func.attr == 'writestr' or (node.func.attr == 'open' and len(node.args) > 1 and _name_of(node.args[1]) == 'w'):
                nm = _name_of(node.args[0])
                if nm is None:
                    raise SystemExit('fileconsts.py: cannot read a member name in CQM.to_file')
                names.append((node.lineno, nm))
                if any(k.arg == 'force_zip64' and isinstance(k.value, ast.Constant) and k.value.value is True for k in node.keywords):
                    zip64.append(nm)
        if isinstance(node, ast.keyword) and node.arg == 'compression' and isinstance(node.value, ast.Attribute):
            comp = getattr(zipfile, node.value.attr)
    if comp is None:
        raise SystemExit('fileconsts.py: cannot find the compression constant of CQM.to_file')
    return [n for _, n in sorted(names)], zip64, comp


def cqm_read_names():
    """names the version-2 reader asks the archive for (zf.open / zf.read), and the directory regular expression"""
    tree = ast.parse(_src(cqm_mod.ConstrainedQuadraticModel.from_file))
    names, regex = [], None
    for node in ast.walk(tree):
        if isinstance(node, ast.Call) and isinstance(node.func, ast.Attribute) and isinstance(node.func.value, ast.Name):
            if node.func.value.id == 'zf' and node.func.attr in ('open', 'read'):
                nm = _name_of(node.args[0])
                if nm is not None and nm not in names:
                    names.append(nm)
            if node.func.value.id == 're' and node.func.attr == 'match':
                regex = _name_of(node.args[0])
    if regex is None:
        raise SystemExit('fileconsts.py: cannot find the constraint directory regular expression')
    return sorted(names), regex


def npz_names():
    tree = ast.parse(_src(dqm_mod.DiscreteQuadraticModel._to_file_numpy))
    for node in ast.walk(tree):
        if isinstance(node, ast.Call) and isinstance(node.func, ast.Name) and node.func.id == 'save':
            return [k.arg for k in node.keywords]
    raise SystemExit('fileconsts.py: cannot find the np.savez call of DQM._to_file_numpy')


def alignment(fn):
    """the modulus of the padding arithmetic (`... % 64`) in make_header / Section.dumps"""
    mods = {n.right.value for n in ast.walk(ast.parse(_src(fn))) if isinstance(n, ast.BinOp) and isinstance(n.op, ast.Mod)
            and isinstance(n.right, ast.Constant) and isinstance(n.right.value, int)}
    if len(mods) != 1:
        raise SystemExit(f'fileconsts.py: cannot read the alignment of {fn.__name__}: {mods}')
    return mods.pop()


def written_version(fn):
    for node in ast.walk(ast.parse(_src(fn))):
        if isinstance(node, ast.Call) and getattr(node.func, 'id', None) == 'write_header':
            for k in node.keywords:
                if k.arg == 'version' and isinstance(k.value, ast.Tuple):
                    return [e.value for e in k.value.elts]
    raise SystemExit(f'fileconsts.py: cannot read the version written by {fn.__qualname__}')


def version_limit(fn):
    """the `(major, 0)` of `if version >= (major, 0): raise` in a loader"""
    for node in ast.walk(ast.parse(_src(fn))):
        if isinstance(node, ast.Compare) and isinstance(node.ops[0], ast.GtE) and isinstance(node.comparators[0], ast.Tuple):
            return node.comparators[0].elts[0].value
    raise SystemExit(f'fileconsts.py: cannot read the version limit of {fn.__qualname__}')


def vartype_codes():
    h = open(os.path.join(os.path.dirname(dimod.__file__), 'include', 'dimod', 'vartypes.h')).read()
    m = re.search(r'enum\s+Vartype\s*\{(.*?)\}', h, flags=re.S)
    if not m:
        raise SystemExit('fileconsts.py: enum Vartype not found in vartypes.h')
    return [w for w in re.findall(r'^\s*([A-Z]+)\s*,?', re.sub(r'//.*', '', m.group(1)), flags=re.M)]


def dqm_checks_length():
    flat = inspect.getsource(dqm_mod.DiscreteQuadraticModel._from_file_numpy).replace(' ', '')
    return 'iflen(blob)!=length:' in flat and 'raise' in flat


def cqm_checks_tiling():
    flat = inspect.getsource(cqm_mod.ConstrainedQuadraticModel.from_file).replace(' ', '')
    direct = 'zipfile.ZipFile(file_like' in flat
    helper = '_open_archive(file_like)' in flat and hasattr(cqm_mod, '_open_archive') and 'start_dir' in inspect.getsource(cqm_mod._open_archive)
    if direct == helper:
        raise SystemExit('fileconsts.py: cannot tell how CQM.from_file opens the archive')
    return helper


def cqm_opener_compared_fields():
    """round 8: the attributes of the DIRECTORY entry (`info.<attr>`) that `_open_archive` compares with something read from the
    file at the member's position (Compare nodes inside the loop over `zf.infolist()`), sorted; [] without the helper"""
    import ast
    import textwrap
    if not hasattr(cqm_mod, '_open_archive'):
        return []
    tree = ast.parse(textwrap.dedent(inspect.getsource(cqm_mod._open_archive)))
    found = set()
    for loop in ast.walk(tree):
        if isinstance(loop, ast.For):
            for node in ast.walk(loop):
                if isinstance(node, ast.Compare):
                    for sub in ast.walk(node):
                        if isinstance(sub, ast.Attribute) and isinstance(sub.value, ast.Name) and sub.value.id == 'info':
                            found.add(sub.attr)
    return sorted(found)


def cqm_checks_local_headers():
    """does the walk compare the local header's signature, name and recorded size with the directory entry?"""
    if not hasattr(cqm_mod, '_open_archive'):
        return False
    flat = inspect.getsource(cqm_mod._open_archive).replace(' ', '')
    fields = cqm_opener_compared_fields()
    return ('compress_size' in fields and 'orig_filename' in fields and 'header_offset' in fields
            and "local[:4]!=b'PK\\x03\\x04'" in flat and "size!=info.compress_size" in flat)


def header_reads_fully():
    flat = inspect.getsource(fv.read_header).replace(' ', '')
    return 'whilelen(header_bytes)<header_len:' in flat


def more_consts():
    names, zip64, comp = cqm_member_names()
    reads, regex = cqm_read_names()
    from dimod.constrained.cyconstrained import ObjectiveView, ConstraintView
    out = ['',
           '/-! round 7: alignment, versions, vartype codes, archive member names, npz array names, compression -/',
           f'def headerAlign : Nat := {alignment(fv.make_header)}',
           f'def sectionAlign : Nat := {alignment(fv.Section.dumps)}',
           f'def qmVersion : List Nat := {written_version(qm_mod.QuadraticModel.to_file)}',
           f'def dqmVersion : List Nat := {written_version(dqm_mod.DiscreteQuadraticModel.to_file)}',
           f'def bqmVersionLimit : Nat := {version_limit(bqm_mod.BinaryQuadraticModel.from_file)}',
           f'def dqmVersionLimit : Nat := {version_limit(dqm_mod.DiscreteQuadraticModel.from_file)}',
           f'def vartypeNames : List (List Char) := [{", ".join(chars(w) for w in vartype_codes())}]   -- position = code in VTYP records',
           f'def cqmMemberNames : List (List Char) := [{", ".join(chars(n) for n in names)}]   -- {names!r}',
           f'def cqmZip64Members : List (List Char) := [{", ".join(chars(n) for n in zip64)}]   -- written through zf.open(…, force_zip64=True)',
           f'def cqmReadNames : List (List Char) := [{", ".join(chars(n) for n in reads)}]',
           f'def cqmDirRegex : List Char := {chars(regex)}   -- {regex!r}',
           f'def cqmCompressMethod : Nat := {comp}   -- zipfile.ZIP_DEFLATED',
           f'def zipStoredMethod : Nat := {zipfile.ZIP_STORED}',
           f'def npzArrayNames : List (List Char) := [{", ".join(chars(n) for n in npz_names())}]',
           f'def exprTypeObjective : List Char := {chars(ObjectiveView.__name__)}',
           f'def exprTypeConstraint : List Char := {chars(ConstraintView.__name__)}',
           f'def eocdSignature : List UInt8 := {lst(zipfile.stringEndArchive)}',
           f'def eocdSize : Nat := {zipfile.sizeEndCentDir}',
           f'def localHeaderSignature : List UInt8 := {lst(zipfile.stringFileHeader)}',
           f'def localHeaderSize : Nat := {zipfile.sizeFileHeader}',
           f'def centralDirSignature : List UInt8 := {lst(zipfile.stringCentralDir)}',
           f'def centralDirSize : Nat := {zipfile.sizeCentralDir}',
           '',
           '/-- does `DiscreteQuadraticModel._from_file_numpy` refuse a `BIAS` section shorter than its recorded length',
           '    (`len(blob) != length`) before handing it to `np.load`? -/',
           f'def dqmChecksSectionLength : Bool := {"true" if dqm_checks_length() else "false"}',
           '/-- does `ConstrainedQuadraticModel.from_file` check that the archive members tile the file from the end of the',
           '    header to the central directory (`_open_archive`) instead of calling `zipfile.ZipFile` directly? -/',
           f'def cqmChecksArchiveTiling : Bool := {"true" if cqm_checks_tiling() else "false"}',
           '/-- round 8: the attributes of the directory entry that the walk of `_open_archive` compares with what it reads at the',
           '    member\'s position in the file (ast of the loop over `zf.infolist()`) -/',
           'def cqmOpenerComparedFields : List String := [' + ', '.join(f'"{x}"' for x in cqm_opener_compared_fields()) + ']',
           '/-- round 8: does the walk require the LOCAL header (signature, name, recorded size; zip64: the extra field) to agree with',
           '    the directory entry (`patches/cqm-archive-local-headers.diff`)?  Without it a directory spelled by the payload can',
           '    list a cover member over the real ones (`C10.tiling_walk_trusts_directory_size`). -/',
           f'def cqmChecksLocalHeaders : Bool := {"true" if cqm_checks_local_headers() else "false"}',
           '/-- does `read_header` read the header dictionary fully (loop until `header_len` bytes or end of file)? -/',
           f'def headerReadsFully : Bool := {"true" if header_reads_fully() else "false"}',
           ]
    return out


def main():
    consts = [
        ('bqmPrefix', bqm_mod.BQM_MAGIC_PREFIX), ('qmPrefix', qm_mod.QM_MAGIC_PREFIX), ('cqmPrefix', cqm_mod.CQM_MAGIC_PREFIX),
        ('dqmPrefix', dqm_mod.DQM_MAGIC_PREFIX), ('exprPrefix', cyexpression.EXPRESSION_MAGIC_PREFIX),
        ('magVARS', fv.VariablesSection.magic), ('magVTYP', fv.VartypesSection.magic), ('magOFFS', fv.OffsetSection.magic),
        ('magLINB', fv.LinearSection.magic), ('magNEIG', fv.NeighborhoodSection.magic), ('magINDX', fv.IndicesSection.magic),
        ('magQUAD', fv.QuadraticSection.magic), ('magBIAS', dqm_mod.DATA_MAGIC_PREFIX),
    ]
    lines = ['/-! Generated by harness/translators/fileconsts.py from the dimod source under test -- do not edit.',
             '    Magic strings, section tags, length-field widths and versions of the binary file formats. -/',
             '', 'namespace FileFmt.Gen', '']
    for name, val in consts:
        lines.append(f'def {name} : List UInt8 := {lst(val)}   -- {bytes(val)!r}')
    lines += ['',
              f'def numLengthBytes : Nat := {fv.Section.NUM_LENGTH_BYTES}',
              f'def quadNumLengthBytes : Nat := {fv.QuadraticSection.NUM_LENGTH_BYTES}',
              f'def cqmVersionMajor : UInt8 := {cqm_mod.CQM_SERIALIZATION_VERSION[0]}',
              f'def cqmVersionMinor : UInt8 := {cqm_mod.CQM_SERIALIZATION_VERSION[1]}',
              '',
              '/-- does `DiscreteQuadraticModel._from_file_numpy` hand `np.load` the whole file (`np.load(file_like)`)',
              '    rather than the `BIAS` section only? -/',
              f'def dqmLoadsWholeFile : Bool := {"true" if dqm_loads_whole_file() else "false"}']
    lines += more_consts()
    lines += ['', 'end FileFmt.Gen', '']
    text = '\n'.join(lines)
    old = open(OUT).read() if os.path.exists(OUT) else None
    if old != text:
        with open(OUT, 'w') as f:
            f.write(text)
        print('rewrote', OUT)
    else:
        print('unchanged', OUT)


if __name__ == '__main__':
    main()
