// C20: op-sequence interpreter over the dimod C++ headers.
//
// Reads one op per line from stdin, executes it on numbered object slots and
// prints exactly one reply line per op (see NOTES.md for the grammar).
//
// Build (exactly this flavour):
//   clang++-14 -std=c++17 -O1 -g -fsanitize=address,undefined
//       -fno-sanitize-recover=undefined -UNDEBUG -D_GLIBCXX_ASSERTIONS
//       -I<INC> interp.cc -o interp

// NB: utils.h uses assert/malloc/int64_t/std::logic_error and iterators.h uses
// std::iterator_traits/std::is_same without including the headers that
// declare them, so the standard headers have to come first.
#include <algorithm>
#include <cassert>
#include <cmath>
#include <cstdint>
#include <cstdio>
#include <cstdlib>
#include <cstring>
#include <iostream>
#include <iterator>
#include <limits>
#include <memory>
#include <optional>
#include <sstream>
#include <stdexcept>
#include <string>
#include <type_traits>
#include <utility>
#include <vector>

#include "dimod/abc.h"
#include "dimod/binary_quadratic_model.h"
#include "dimod/constrained_quadratic_model.h"
#include "dimod/constraint.h"
#include "dimod/expression.h"
#include "dimod/quadratic_model.h"
#include "dimod/utils.h"
#include "dimod/vartypes.h"

using dimod::Penalty;
using dimod::Sense;
using dimod::Vartype;

using Base = dimod::abc::QuadraticModelBase<double, int>;
using BQM = dimod::BinaryQuadraticModel<double, int>;
using BQMF = dimod::BinaryQuadraticModel<float, int>;
using QM = dimod::QuadraticModel<double, int>;
using CQM = dimod::ConstrainedQuadraticModel<double, int>;
using Expr = dimod::Expression<double, int>;
using Cons = dimod::Constraint<double, int>;

// ---------------------------------------------------------------------------
// harness errors (NOT API exceptions)

struct BadOp {
    std::string msg;
};

[[noreturn]] static void bad(const std::string& msg) { throw BadOp{msg}; }

// ---------------------------------------------------------------------------
// slots. Heap allocated so that a stale parent_ pointer into a destroyed CQM
// becomes a heap-use-after-free that ASan can see.

static const int NB = 4, NQ = 4, NC = 2;
static std::unique_ptr<BQM> B[NB];
static std::unique_ptr<QM> Q[NQ];
static std::unique_ptr<CQM> C[NC];
static std::optional<Cons> PEND[NC];  // constraint from new_constraint(), not yet added
static std::weak_ptr<Cons> WP;
static bool WP_set = false;

struct Slot {
    char kind;  // 'b', 'q', 'c'
    int idx;
    std::string name() const { return std::string(1, kind) + std::to_string(idx); }
};

static Slot parse_slot(const std::string& s) {
    if (s.size() != 2 || (s[0] != 'b' && s[0] != 'q' && s[0] != 'c') || s[1] < '0' || s[1] > '9')
        bad("bad slot '" + s + "'");
    Slot r{s[0], s[1] - '0'};
    int lim = r.kind == 'b' ? NB : r.kind == 'q' ? NQ : NC;
    if (r.idx >= lim) bad("slot out of range '" + s + "'");
    return r;
}

static Base& base_of(const Slot& s) {
    if (s.kind == 'b') return *B[s.idx];
    if (s.kind == 'q') return *Q[s.idx];
    bad("slot " + s.name() + " is not a bqm/qm");
}

// ---------------------------------------------------------------------------
// parsing helpers

static double parse_num(const std::string& s) {
    auto one = [&](const std::string& t) {
        if (t.empty()) bad("empty number in '" + s + "'");
        char* end = nullptr;
        double d = std::strtod(t.c_str(), &end);
        if (*end != '\0') bad("bad number '" + s + "'");
        return d;
    };
    auto p = s.find('/');
    if (p != std::string::npos) {
        double q = one(s.substr(p + 1));
        if (q == 0) bad("zero denominator '" + s + "'");
        return one(s.substr(0, p)) / q;
    }
    return one(s);
}

static int parse_int(const std::string& s) {
    if (s.empty()) bad("empty int");
    char* end = nullptr;
    long v = std::strtol(s.c_str(), &end, 10);
    if (*end != '\0') bad("bad int '" + s + "'");
    return static_cast<int>(v);
}

static std::vector<std::string> split(const std::string& s, char sep) {
    std::vector<std::string> out;
    std::string cur;
    for (char ch : s) {
        if (ch == sep) {
            out.push_back(cur);
            cur.clear();
        } else {
            cur.push_back(ch);
        }
    }
    out.push_back(cur);
    return out;
}

static std::vector<int> parse_ilist(const std::string& s) {
    std::vector<int> out;
    if (s == "-") return out;
    for (auto& t : split(s, ',')) out.push_back(parse_int(t));
    return out;
}

static std::vector<double> parse_dlist(const std::string& s) {
    std::vector<double> out;
    if (s == "-") return out;
    for (auto& t : split(s, ',')) out.push_back(parse_num(t));
    return out;
}

static Vartype parse_vt(const std::string& s) {
    if (s == "SPIN" || s == "S") return Vartype::SPIN;
    if (s == "BINARY" || s == "B") return Vartype::BINARY;
    if (s == "INTEGER" || s == "I") return Vartype::INTEGER;
    if (s == "REAL" || s == "R") return Vartype::REAL;
    bad("bad vartype '" + s + "'");
}

static Sense parse_sense(const std::string& s) {
    if (s == "LE") return Sense::LE;
    if (s == "GE") return Sense::GE;
    if (s == "EQ") return Sense::EQ;
    bad("bad sense '" + s + "'");
}

static Penalty parse_pen(const std::string& s) {
    if (s == "LINEAR") return Penalty::LINEAR;
    if (s == "QUADRATIC") return Penalty::QUADRATIC;
    if (s == "CONSTANT") return Penalty::CONSTANT;
    bad("bad penalty '" + s + "'");
}

struct Args {
    std::vector<std::string> t;
    size_t size() const { return t.size(); }
    bool has(size_t i) const { return i < t.size(); }
    const std::string& s(size_t i) const {
        if (i >= t.size()) bad("missing argument " + std::to_string(i));
        return t[i];
    }
    int i(size_t k) const { return parse_int(s(k)); }
    double d(size_t k) const { return parse_num(s(k)); }
    Vartype vt(size_t k) const { return parse_vt(s(k)); }
    std::vector<int> il(size_t k) const { return parse_ilist(s(k)); }
    std::vector<double> dl(size_t k) const { return parse_dlist(s(k)); }
    void exactly(size_t n) const {
        if (t.size() != n) bad("expected " + std::to_string(n) + " tokens, got " + std::to_string(t.size()));
    }
    void between(size_t lo, size_t hi) const {
        if (t.size() < lo || t.size() > hi) bad("wrong number of tokens");
    }
};

// ---------------------------------------------------------------------------
// formatting

static std::string hx(double d) {
    char buf[64];
    std::snprintf(buf, sizeof buf, "%a", d);
    return buf;
}

static char vt_letter(Vartype v) {
    switch (v) {
        case Vartype::SPIN: return 'S';
        case Vartype::BINARY: return 'B';
        case Vartype::INTEGER: return 'I';
        case Vartype::REAL: return 'R';
    }
    return '?';
}

static const char* sense_name(Sense s) {
    switch (s) {
        case Sense::LE: return "LE";
        case Sense::GE: return "GE";
        case Sense::EQ: return "EQ";
    }
    return "?";
}

static const char* pen_name(Penalty p) {
    switch (p) {
        case Penalty::LINEAR: return "LINEAR";
        case Penalty::QUADRATIC: return "QUADRATIC";
        case Penalty::CONSTANT: return "CONSTANT";
    }
    return "?";
}

template <class It, class F>
static std::string join(It first, It last, F f, const char* sep = ",") {
    std::string out;
    bool firstp = true;
    for (; first != last; ++first) {
        if (!firstp) out += sep;
        firstp = false;
        out += f(*first);
    }
    return out;
}

static bool same(double a, double b) { return a == b || (std::isnan(a) && std::isnan(b)); }

// ---------------------------------------------------------------------------
// consistency of the const API. Everything found goes in INC and is printed at
// the end of the reply line.

static std::vector<std::string> INC;
static void inc(const std::string& ctx, const std::string& what) { INC.push_back(ctx + ": " + what); }

using Row = std::vector<std::pair<int, double>>;
using Rows = std::vector<Row>;

// The adjacency exactly in storage order, through the (local index) base API.
static Rows base_rows(const Base& m) {
    Rows rows(m.num_variables());
    for (size_t u = 0; u < rows.size(); ++u) {
        for (auto it = m.Base::cbegin_neighborhood(static_cast<int>(u));
             it != m.Base::cend_neighborhood(static_cast<int>(u)); ++it) {
            rows[u].emplace_back(it->v, it->bias);
        }
    }
    return rows;
}

struct Term {
    int u, v;
    double b;
};

static std::string term_str(const Term& t) {
    return "(" + std::to_string(t.u) + "," + std::to_string(t.v) + "," + hx(t.b) + ")";
}

// lower triangle exactly as the header's quadratic iterator is specified to
// walk it: rows ascending, each row in storage order up to the diagonal.
static std::vector<Term> lower_terms(const Rows& rows) {
    std::vector<Term> out;
    for (size_t u = 0; u < rows.size(); ++u)
        for (auto& e : rows[u])
            if (e.first <= static_cast<int>(u)) out.push_back(Term{static_cast<int>(u), e.first, e.second});
    return out;
}

static const std::pair<int, double>* find_in(const Row& r, int v) {
    for (auto& e : r)
        if (e.first == v) return &e;
    return nullptr;
}

// Check the base-class (local index) const API against the rows.
static void check_base(const Base& m, const Rows& rows, const std::string& ctx) {
    const int n = static_cast<int>(m.num_variables());

    size_t lower = 0;
    bool all_empty = true;
    for (int u = 0; u < n; ++u) {
        if (!rows[u].empty()) all_empty = false;
        for (auto& e : rows[u])
            if (e.first <= u) ++lower;
        if (m.Base::num_interactions(u) != rows[u].size())
            inc(ctx, "num_interactions(" + std::to_string(u) + ")=" +
                             std::to_string(m.Base::num_interactions(u)) + " but row has " +
                             std::to_string(rows[u].size()));
    }
    if (m.Base::num_interactions() != lower)
        inc(ctx, "num_interactions()=" + std::to_string(m.Base::num_interactions()) +
                         " but lower triangle has " + std::to_string(lower));
    if (m.Base::is_linear() != all_empty)
        inc(ctx, std::string("is_linear()=") + (m.Base::is_linear() ? "1" : "0") + " but rows say " +
                         (all_empty ? "1" : "0"));

    for (int u = 0; u < n; ++u) {
        for (int v = 0; v < n; ++v) {
            const auto* e = find_in(rows[u], v);
            const std::string uv = "(" + std::to_string(u) + "," + std::to_string(v) + ")";
            double q = m.Base::quadratic(u, v);
            if (!same(q, e ? e->second : 0.0))
                inc(ctx, "quadratic" + uv + "=" + hx(q) + " but row has " + (e ? hx(e->second) : "nothing"));
            if (m.Base::has_interaction(u, v) != (e != nullptr))
                inc(ctx, "has_interaction" + uv + " disagrees with row");
            try {
                double qa = m.Base::quadratic_at(u, v);
                if (!e)
                    inc(ctx, "quadratic_at" + uv + " returned " + hx(qa) + " for an absent interaction");
                else if (!same(qa, e->second))
                    inc(ctx, "quadratic_at" + uv + "=" + hx(qa) + " but row has " + hx(e->second));
            } catch (const std::out_of_range&) {
                if (e) inc(ctx, "quadratic_at" + uv + " threw for a present interaction");
            }
        }
    }

    // the deprecated neighborhood(v) / neighborhood(u, start) accessors
#pragma clang diagnostic push
#pragma clang diagnostic ignored "-Wdeprecated-declarations"
    for (int u = 0; u < n; ++u) {
        auto span = m.Base::neighborhood(u);
        if (static_cast<size_t>(span.second - span.first) != rows[u].size())
            inc(ctx, "neighborhood(" + std::to_string(u) + ") has the wrong length");
        for (int start = 0; start <= n; ++start) {
            auto sp = m.Base::neighborhood(u, start);
            size_t want = 0;
            for (auto& e : rows[u])
                if (e.first >= start) ++want;
            bool ok = static_cast<size_t>(sp.second - sp.first) == want;
            if (ok && want) ok = sp.first->v >= start;
            if (!ok)
                inc(ctx, "neighborhood(" + std::to_string(u) + "," + std::to_string(start) + ") disagrees with row");
        }
    }
#pragma clang diagnostic pop

    // quadratic iterator (pre-increment, operator->)
    {
        std::vector<Term> want = lower_terms(rows);
        std::vector<Term> got;
        size_t guard = static_cast<size_t>(n) * n + 8;
        auto end = m.Base::cend_quadratic();
        for (auto it = m.Base::cbegin_quadratic(); it != end; ++it) {
            got.push_back(Term{it->u, it->v, it->bias});
            if (got.size() > guard) {
                inc(ctx, "quadratic iterator does not terminate");
                break;
            }
        }
        bool ok = got.size() == want.size();
        for (size_t i = 0; ok && i < got.size(); ++i)
            ok = got[i].u == want[i].u && got[i].v == want[i].v && same(got[i].b, want[i].b);
        if (!ok)
            inc(ctx, "quadratic iterator yields " + join(got.begin(), got.end(), term_str, "") +
                             " but rows give " + join(want.begin(), want.end(), term_str, ""));

        // post-increment and operator*
        std::vector<Term> got2;
        for (auto it = m.Base::cbegin_quadratic(); it != m.Base::cend_quadratic();) {
            auto old = it++;
            got2.push_back(Term{(*old).u, (*old).v, (*old).bias});
            if (got2.size() > guard) break;
        }
        bool ok2 = got2.size() == got.size();
        for (size_t i = 0; ok2 && i < got.size(); ++i)
            ok2 = got[i].u == got2[i].u && got[i].v == got2[i].v && same(got[i].b, got2[i].b);
        if (!ok2) inc(ctx, "quadratic iterator post-increment disagrees with pre-increment");
    }
}

// fields shared by models and expressions (local indices)
static std::string base_fields_head(const Base& m, const Rows& rows) {
    const int n = static_cast<int>(m.num_variables());
    std::string out = "n=" + std::to_string(n) + ";off=" + hx(m.Base::offset()) + ";lin=";
    for (int v = 0; v < n; ++v) {
        if (v) out += ",";
        out += hx(m.Base::linear(v));
    }
    out += ";adj=";
    for (int u = 0; u < n; ++u) {
        if (u) out += "|";
        out += join(rows[u].begin(), rows[u].end(), [](const std::pair<int, double>& e) {
            return std::to_string(e.first) + ":" + hx(e.second);
        });
    }
    return out;
}

static std::string base_fields_tail(const Base& m) {
    const int n = static_cast<int>(m.num_variables());
    std::string out = "ni=" + std::to_string(m.Base::num_interactions()) + ";deg=";
    for (int v = 0; v < n; ++v) {
        if (v) out += ",";
        out += std::to_string(m.Base::num_interactions(v));
    }
    out += std::string(";lin?=") + (m.Base::is_linear() ? "1" : "0");
    return out;
}

// state of a BQM / QM slot
static std::string model_state(const Slot& s) {
    const Base& m = base_of(s);
    const std::string name = s.name();
    Rows rows = base_rows(m);
    check_base(m, rows, name);

    const int n = static_cast<int>(m.num_variables());
    std::string vt, lb, ub;
    for (int v = 0; v < n; ++v) {
        vt.push_back(vt_letter(m.vartype(v)));
        if (v) {
            lb += ",";
            ub += ",";
        }
        lb += hx(m.lower_bound(v));
        ub += hx(m.upper_bound(v));
    }

    // nbytes
    {
        size_t want = sizeof(double) + sizeof(double) * n;
        for (auto& r : rows) want += r.size() * sizeof(dimod::abc::OneVarTerm<double, int>);
        size_t got_base = m.Base::nbytes(false);
        if (got_base != want)
            inc(name, "base nbytes()=" + std::to_string(got_base) + " want " + std::to_string(want));
        size_t got = m.nbytes(false);
        // QM adds sizeof(varinfo_type) == 24 per variable (private type: enum + 2 doubles)
        size_t want_full = want + (s.kind == 'q' ? 24u * n : 0u);
        if (got != want_full)
            inc(name, "nbytes()=" + std::to_string(got) + " want " + std::to_string(want_full));
        if (m.nbytes(true) < got) inc(name, "nbytes(capacity) < nbytes()");
    }
    if (s.kind == 'b') {
        const BQM& b = *B[s.idx];
        for (int v = 0; v < n; ++v) {
            if (b.vartype(v) != b.vartype()) inc(name, "vartype(v) != vartype()");
        }
        if (b.lower_bound() != dimod::vartype_info<double>::min(b.vartype()) ||
            b.upper_bound() != dimod::vartype_info<double>::max(b.vartype()))
            inc(name, "bqm bounds");
    }

    // the vartype of a BQM is visible even when it has no variables (field `bvt`, `-` for a QM)
    std::string bvt = "-";
    if (s.kind == 'b') bvt = std::string(1, vt_letter(B[s.idx]->vartype()));
    return name + " " + base_fields_head(m, rows) + ";vt=" + vt + ";lb=" + lb + ";ub=" + ub + ";" +
           base_fields_tail(m) + ";bvt=" + bvt;
}

// Check an expression's (global label) const API against its own base part.
static void check_expr(const Expr& e, const CQM& parent, const Rows& rows, const std::string& ctx) {
    const Base& b = e;
    const std::vector<int>& vars = e.variables();
    const int nv = static_cast<int>(parent.num_variables());

    if (vars.size() != b.num_variables()) {
        inc(ctx, "variables().size()=" + std::to_string(vars.size()) + " but base num_variables()=" +
                         std::to_string(b.num_variables()));
        return;  // nothing below is meaningful
    }
    if (e.num_variables() != vars.size()) inc(ctx, "num_variables() != variables().size()");
    for (int g : vars) {
        if (g < 0 || g >= nv) {
            inc(ctx, "variable label " + std::to_string(g) + " outside the parent's range");
            return;  // calling the API with it would be out of precondition
        }
    }

    auto local = [&](int g) -> int {
        for (size_t i = 0; i < vars.size(); ++i)
            if (vars[i] == g) return static_cast<int>(i);
        return -1;
    };

    for (int g = 0; g < nv; ++g) {
        const int l = local(g);
        const std::string gs = "(" + std::to_string(g) + ")";
        if (e.has_variable(g) != (l >= 0)) inc(ctx, "has_variable" + gs + " disagrees with variables()");
        double lin = e.linear(g);
        if (!same(lin, l >= 0 ? b.Base::linear(l) : 0.0)) inc(ctx, "linear" + gs + "=" + hx(lin) + " disagrees with base");
        size_t deg = e.num_interactions(g);
        if (deg != (l >= 0 ? rows[l].size() : 0u)) inc(ctx, "num_interactions" + gs + " disagrees with base");
        if (e.vartype(g) != parent.vartype(g) || !same(e.lower_bound(g), parent.lower_bound(g)) ||
            !same(e.upper_bound(g), parent.upper_bound(g)))
            inc(ctx, "vartype/bounds" + gs + " differ from the owning model's (parent pointer?)");

        // neighbourhood iterator in global labels
        std::vector<std::pair<int, double>> got;
        {
            auto it = e.cbegin_neighborhood(g);
            auto end = e.cend_neighborhood(g);
            size_t guard = vars.size() + 8;
            for (; it != end; ++it) {
                got.emplace_back(it->v, it->bias);
                if (got.size() > guard) {
                    inc(ctx, "neighborhood iterator" + gs + " does not terminate");
                    break;
                }
            }
        }
        std::vector<std::pair<int, double>> want;
        if (l >= 0)
            for (auto& t : rows[l]) want.emplace_back(vars[t.first], t.second);
        bool ok = got.size() == want.size();
        for (size_t i = 0; ok && i < got.size(); ++i)
            ok = got[i].first == want[i].first && same(got[i].second, want[i].second);
        if (!ok) inc(ctx, "neighborhood iterator" + gs + " disagrees with base");
    }

    for (int gu = 0; gu < nv; ++gu) {
        for (int gv = 0; gv < nv; ++gv) {
            const int lu = local(gu), lv = local(gv);
            const std::pair<int, double>* t = (lu >= 0 && lv >= 0) ? find_in(rows[lu], lv) : nullptr;
            const std::string uv = "(" + std::to_string(gu) + "," + std::to_string(gv) + ")";
            double q = e.quadratic(gu, gv);
            if (!same(q, t ? t->second : 0.0)) inc(ctx, "quadratic" + uv + "=" + hx(q) + " disagrees with base");
            if (e.has_interaction(gu, gv) != (t != nullptr)) inc(ctx, "has_interaction" + uv + " disagrees with base");
            try {
                double qa = e.quadratic_at(gu, gv);
                if (!t)
                    inc(ctx, "quadratic_at" + uv + " returned for an absent interaction");
                else if (!same(qa, t->second))
                    inc(ctx, "quadratic_at" + uv + " disagrees with base");
            } catch (const std::out_of_range&) {
                if (t) inc(ctx, "quadratic_at" + uv + " threw for a present interaction");
            }
        }
    }

    // quadratic iterator in global labels
    {
        std::vector<Term> want;
        for (auto& t : lower_terms(rows)) want.push_back(Term{vars[t.u], vars[t.v], t.b});
        std::vector<Term> got;
        size_t guard = vars.size() * vars.size() + 8;
        auto end = e.cend_quadratic();
        for (auto it = e.cbegin_quadratic(); it != end; ++it) {
            got.push_back(Term{it->u, it->v, it->bias});
            if (got.size() > guard) {
                inc(ctx, "quadratic iterator does not terminate");
                break;
            }
        }
        bool ok = got.size() == want.size();
        for (size_t i = 0; ok && i < got.size(); ++i)
            ok = got[i].u == want[i].u && got[i].v == want[i].v && same(got[i].b, want[i].b);
        if (!ok)
            inc(ctx, "quadratic iterator yields " + join(got.begin(), got.end(), term_str, "") + " want " +
                             join(want.begin(), want.end(), term_str, ""));
    }
}

static std::string expr_fields(const Expr& e, const CQM& parent, const std::string& ctx) {
    const Base& b = e;
    Rows rows = base_rows(b);
    check_base(b, rows, ctx + "[base]");
    check_expr(e, parent, rows, ctx);
    const auto& vars = e.variables();
    return "vars=" + join(vars.begin(), vars.end(), [](int v) { return std::to_string(v); }) + ";" +
           base_fields_head(b, rows) + ";" + base_fields_tail(b);
}

static std::string cons_state(const Cons& c, const CQM& parent, const std::string& ctx) {
    if (c.is_soft() != (c.weight() != std::numeric_limits<double>::infinity()))
        inc(ctx, "is_soft() disagrees with weight()");
    return std::string("{sense=") + sense_name(c.sense()) + ";rhs=" + hx(c.rhs()) + ";weight=" +
           hx(c.weight()) + ";pen=" + pen_name(c.penalty()) + ";disc=" + (c.marked_discrete() ? "1" : "0") +
           ";soft=" + (c.is_soft() ? "1" : "0") + ";onehot=" + (c.is_onehot() ? "1" : "0") + ";" +
           expr_fields(c, parent, ctx) + "}";
}

static std::string cqm_state(const Slot& s) {
    const CQM& m = *C[s.idx];
    const std::string name = s.name();
    const int nv = static_cast<int>(m.num_variables());

    std::string vt, lb, ub;
    for (int v = 0; v < nv; ++v) {
        vt.push_back(vt_letter(m.vartype(v)));
        if (v) {
            lb += ",";
            ub += ",";
        }
        lb += hx(m.lower_bound(v));
        ub += hx(m.upper_bound(v));
    }

    std::string out = name + " nv=" + std::to_string(nv) + ";vt=" + vt + ";lb=" + lb + ";ub=" + ub;
    out += ";obj={" + expr_fields(m.objective, m, name + ".obj") + "}";

    // the views
    {
        // NB: must be a const object: ConstraintsView<const CQM>::begin() (non-const overload)
        // does not compile (header defect, see NOTES.md)
        const auto view = m.constraints();
        if (view.size() != m.num_constraints()) inc(name, "constraints().size() != num_constraints()");
        size_t k = 0;
        for (auto it = view.begin(); it != view.end(); ++it, ++k) {
            if (k >= m.num_constraints()) {
                inc(name, "const constraint view iterates too far");
                break;
            }
            if (&(*it) != &m.constraint_ref(static_cast<int>(k))) inc(name, "const view iterator != constraint_ref");
        }
        if (k != m.num_constraints()) inc(name, "const constraint view iteration count");
        CQM& mm = *C[s.idx];
        auto mview = mm.constraints();
        k = 0;
        for (auto& c : mview) {
            if (k >= mm.num_constraints()) break;
            if (&c != &mm.constraint_ref(static_cast<int>(k))) inc(name, "view iterator != constraint_ref");
            if (&mview[static_cast<int>(k)] != &c || &mview.at(static_cast<int>(k)) != &c)
                inc(name, "view operator[]/at != iterator");
            ++k;
        }
        if (k != mm.num_constraints()) inc(name, "constraint view iteration count");
        if (mview.cend() - mview.cbegin() != static_cast<std::ptrdiff_t>(mm.num_constraints()))
            inc(name, "cend - cbegin != num_constraints()");
        if (mm.num_constraints() >= 2) {
            auto b = mview.begin();
            auto e = mview.end();
            const std::ptrdiff_t last = static_cast<std::ptrdiff_t>(mm.num_constraints()) - 1;
            if (&b[last] != &mm.constraint_ref(static_cast<int>(last))) inc(name, "iterator operator[]");
            auto l = b + last;
            if (&(*l) != &mm.constraint_ref(static_cast<int>(last))) inc(name, "iterator operator+");
            auto p = e - 1;
            if (!(p == l) || p != l) inc(name, "iterator operator-/==");
            if (!(b < l) || !(l > b) || !(b <= l) || !(l >= b) || (l - b) != last) inc(name, "iterator ordering");
            auto q = l;
            --q;
            q++;
            q--;
            ++q;
            if (q != l) inc(name, "iterator ++/--");
            q -= last;
            q += last;
            if (q != l) inc(name, "iterator +=/-=");
            if (l->rhs() != mm.constraint_ref(static_cast<int>(last)).rhs() && !std::isnan(l->rhs())) inc(name, "iterator operator->");
        }
    }

    out += ";cons=[";
    for (size_t k = 0; k < m.num_constraints(); ++k) {
        const Cons& c = m.constraint_ref(static_cast<int>(k));
        const std::string ctx = name + ".cons[" + std::to_string(k) + "]";
        if (k) out += ",";
        out += cons_state(c, m, ctx);

        // set relations between expressions
        bool share = false;
        for (int v : c.variables())
            for (int w : m.objective.variables())
                if (v == w) share = true;
        if (c.shares_variables(m.objective) != share || m.objective.shares_variables(c) != share)
            inc(ctx, "shares_variables(objective) wrong");
        if (c.is_disjoint(m.objective) != !share || m.objective.is_disjoint(c) != !share)
            inc(ctx, "is_disjoint(objective) wrong");
    }
    out += "];pend=";
    if (PEND[s.idx]) {
        out += cons_state(*PEND[s.idx], m, name + ".pend");
    } else {
        out += "none";
    }
    return out;
}

static std::string slot_state(const Slot& s) { return s.kind == 'c' ? cqm_state(s) : model_state(s); }

// ---------------------------------------------------------------------------
// BQM / QM ops. a.t = [op, slot, args...]

template <class M>
static bool model_op(const std::string& op, M& m, const Args& a, std::string& ret) {
    constexpr bool is_bqm = std::is_same<M, BQM>::value;

    if (op == "addvar") {
        if constexpr (is_bqm) {
            a.exactly(2);
            ret = std::to_string(m.add_variable());
        } else {
            if (a.size() == 3) {
                ret = std::to_string(m.add_variable(a.vt(2)));
            } else {
                a.exactly(5);
                ret = std::to_string(m.add_variable(a.vt(2), a.d(3), a.d(4)));
            }
        }
    } else if (op == "addvars") {
        if constexpr (is_bqm) {
            bad("addvars is qm only");
        } else {
            if (a.size() == 4) {
                ret = std::to_string(m.add_variables(a.vt(2), a.i(3)));
            } else {
                a.exactly(6);
                ret = std::to_string(m.add_variables(a.vt(2), a.i(3), a.d(4), a.d(5)));
            }
        }
    } else if (op == "al") {
        a.exactly(4);
        m.add_linear(a.i(2), a.d(3));
    } else if (op == "sl") {
        a.exactly(4);
        m.set_linear(a.i(2), a.d(3));
    } else if (op == "sll") {
        // set_linear(v, initializer_list)
        a.exactly(4);
        int v = a.i(2);
        auto b = a.dl(3);
        switch (b.size()) {
            case 0: m.set_linear(v, std::initializer_list<double>{}); break;
            case 1: m.set_linear(v, {b[0]}); break;
            case 2: m.set_linear(v, {b[0], b[1]}); break;
            case 3: m.set_linear(v, {b[0], b[1], b[2]}); break;
            default: bad("sll: at most 3 biases");
        }
    } else if (op == "aqil") {
        // add_quadratic(initializer_list, initializer_list, initializer_list)
        a.exactly(5);
        auto r = a.il(2), c = a.il(3);
        auto b = a.dl(4);
        if (r.size() != c.size() || r.size() != b.size()) bad("aqil: lengths differ");
        Base& base = m;  // BQM's COO template would otherwise be preferred for braces
        switch (r.size()) {
            case 0: base.add_quadratic(std::initializer_list<int>{}, std::initializer_list<int>{}, std::initializer_list<double>{}); break;
            case 1: base.add_quadratic({r[0]}, {c[0]}, {b[0]}); break;
            case 2: base.add_quadratic({r[0], r[1]}, {c[0], c[1]}, {b[0], b[1]}); break;
            case 3: base.add_quadratic({r[0], r[1], r[2]}, {c[0], c[1], c[2]}, {b[0], b[1], b[2]}); break;
            default: bad("aqil: at most 3 terms");
        }
    } else if (op == "ao") {
        a.exactly(3);
        m.add_offset(a.d(2));
    } else if (op == "so") {
        a.exactly(3);
        m.set_offset(a.d(2));
    } else if (op == "aq") {
        a.exactly(5);
        m.add_quadratic(a.i(2), a.i(3), a.d(4));
    } else if (op == "sq") {
        a.exactly(5);
        m.set_quadratic(a.i(2), a.i(3), a.d(4));
    } else if (op == "aqb") {
        a.exactly(5);
        m.add_quadratic_back(a.i(2), a.i(3), a.d(4));
    } else if (op == "adddense") {
        int n = a.i(2);
        if (n < 0) bad("adddense: n < 0");
        a.exactly(3 + static_cast<size_t>(n) * n);
        std::vector<double> dense;
        for (size_t k = 0; k < static_cast<size_t>(n) * n; ++k) dense.push_back(a.d(3 + k));
        dense.push_back(0);  // keep data() non-null for n == 0
        m.add_quadratic_from_dense(dense.data(), n);
    } else if (op == "coo") {
        a.exactly(6);
        int len = a.i(2);
        auto r = a.il(3), c = a.il(4);
        auto v = a.dl(5);
        if (len < 0 || r.size() != static_cast<size_t>(len) || c.size() != r.size() || v.size() != r.size())
            bad("coo: lengths differ");
        m.add_quadratic(r.begin(), c.begin(), v.begin(), len);
    } else if (op == "ri") {
        a.exactly(4);
        ret = m.remove_interaction(a.i(2), a.i(3)) ? "1" : "0";
    } else if (op == "rif") {
        a.exactly(3);
        double thr = a.d(2);
        ret = std::to_string(m.remove_interactions([thr](int, int, double b) { return std::fabs(b) <= thr; }));
    } else if (op == "rv") {
        a.exactly(3);
        m.remove_variable(a.i(2));
    } else if (op == "rvs") {
        a.exactly(3);
        m.remove_variables(a.il(2));
    } else if (op == "rs") {
        a.exactly(3);
        m.resize(a.i(2));
    } else if (op == "rsv") {
        if constexpr (is_bqm) {
            bad("rsv is qm only");
        } else {
            if (a.size() == 4) {
                m.resize(a.i(2), a.vt(3));
            } else {
                a.exactly(6);
                m.resize(a.i(2), a.vt(3), a.d(4), a.d(5));
            }
        }
    } else if (op == "sc") {
        a.exactly(3);
        m.scale(a.d(2));
    } else if (op == "fx") {
        a.exactly(4);
        m.fix_variable(a.i(2), a.d(3));
    } else if (op == "sv") {
        a.exactly(5);
        m.substitute_variable(a.i(2), a.d(3), a.d(4));
    } else if (op == "svs") {
        a.exactly(4);
        m.substitute_variables(a.d(2), a.d(3));
    } else if (op == "cv") {
        if constexpr (is_bqm) {
            a.exactly(3);
            m.change_vartype(a.vt(2));
        } else {
            a.exactly(4);
            m.change_vartype(a.vt(2), a.i(3));
        }
    } else if (op == "slb" || op == "sup" || op == "svt") {
        if constexpr (is_bqm) {
            bad(op + " is qm only");
        } else {
            a.exactly(4);
            if (op == "slb") m.set_lower_bound(a.i(2), a.d(3));
            if (op == "sup") m.set_upper_bound(a.i(2), a.d(3));
            if (op == "svt") m.set_vartype(a.i(2), a.vt(3));
        }
    } else if (op == "clear") {
        a.exactly(2);
        m.clear();
    } else if (op == "energy") {
        a.exactly(3);
        auto sample = a.dl(2);
        if (sample.size() != m.num_variables()) bad("energy: sample length != num_variables");
        sample.push_back(0);
        ret = hx(m.energy(sample.begin()));
    } else if (op == "q") {
        a.exactly(2);
    } else {
        return false;
    }
    return true;
}

// ---------------------------------------------------------------------------
// expression ops; a.t[i0..] are the arguments of the expression op `eop`

template <class E>
static bool expr_op(const std::string& eop, E& e, const CQM& parent, const Args& a, size_t i0, std::string& ret) {
    constexpr bool is_cons = std::is_same<E, Cons>::value;
    auto exactly = [&](size_t n) { a.exactly(i0 + n); };

    if (eop == "al") {
        exactly(2);
        e.add_linear(a.i(i0), a.d(i0 + 1));
    } else if (eop == "sl") {
        exactly(2);
        e.set_linear(a.i(i0), a.d(i0 + 1));
    } else if (eop == "aq") {
        exactly(3);
        e.add_quadratic(a.i(i0), a.i(i0 + 1), a.d(i0 + 2));
    } else if (eop == "sq") {
        exactly(3);
        e.set_quadratic(a.i(i0), a.i(i0 + 1), a.d(i0 + 2));
    } else if (eop == "aqb") {
        exactly(3);
        e.add_quadratic_back(a.i(i0), a.i(i0 + 1), a.d(i0 + 2));
    } else if (eop == "ao") {
        exactly(1);
        e.add_offset(a.d(i0));
    } else if (eop == "so") {
        exactly(1);
        e.set_offset(a.d(i0));
    } else if (eop == "ri") {
        exactly(2);
        ret = e.remove_interaction(a.i(i0), a.i(i0 + 1)) ? "1" : "0";
    } else if (eop == "rif") {
        exactly(1);
        double thr = a.d(i0);
        ret = std::to_string(e.remove_interactions([thr](int, int, double b) { return std::fabs(b) <= thr; }));
    } else if (eop == "rv") {
        exactly(1);
        e.remove_variable(a.i(i0));
    } else if (eop == "rvs") {
        exactly(1);
        e.remove_variables(a.il(i0));
    } else if (eop == "rvsit") {
        // iterator form
        exactly(1);
        auto l = a.il(i0);
        e.remove_variables(l.begin(), l.end());
    } else if (eop == "sc") {
        exactly(1);
        e.scale(a.d(i0));  // Constraint::scale for constraints, base scale for the objective
    } else if (eop == "fx") {
        exactly(2);
        e.fix_variable(a.i(i0), a.d(i0 + 1));
    } else if (eop == "sv") {
        exactly(3);
        e.substitute_variable(a.i(i0), a.d(i0 + 1), a.d(i0 + 2));
    } else if (eop == "svs") {
        exactly(2);
        e.substitute_variables(a.d(i0), a.d(i0 + 1));
    } else if (eop == "clear") {
        exactly(0);
        e.clear();  // Constraint::clear for constraints
    } else if (eop == "energy") {
        exactly(1);
        auto sample = a.dl(i0);
        if (sample.size() != parent.num_variables()) bad("energy: sample length != cqm num_variables");
        sample.push_back(0);
        ret = hx(e.energy(sample.begin()));
    } else if (eop == "sense" || eop == "rhs" || eop == "weight" || eop == "pen" || eop == "disc") {
        if constexpr (!is_cons) {
            bad(eop + " needs a constraint");
        } else {
            exactly(1);
            if (eop == "sense") e.set_sense(parse_sense(a.s(i0)));
            if (eop == "rhs") e.set_rhs(a.d(i0));
            if (eop == "weight") e.set_weight(a.d(i0));
            if (eop == "pen") e.set_penalty(parse_pen(a.s(i0)));
            if (eop == "disc") e.mark_discrete(a.i(i0) != 0);
        }
    } else {
        return false;
    }
    return true;
}

// ---------------------------------------------------------------------------

static void fresh(const Slot& s) {
    if (s.kind == 'b') B[s.idx] = std::make_unique<BQM>(Vartype::BINARY);
    if (s.kind == 'q') Q[s.idx] = std::make_unique<QM>();
    if (s.kind == 'c') {
        PEND[s.idx].reset();  // before the parent goes away
        C[s.idx] = std::make_unique<CQM>();
    }
}

static void drop_pending(const Slot& s) {
    if (s.kind == 'c') PEND[s.idx].reset();
}

static void check_constraint_index(const CQM& m, int c) {
    if (c < 0 || static_cast<size_t>(c) >= m.num_constraints()) bad("constraint index out of range (harness)");
}

// Execute one op. `touched` lists the slots whose state is printed afterwards.
static void execute(const Args& a, std::string& ret, std::vector<Slot>& touched) {
    const std::string& op = a.s(0);

    // ---- ops without a leading slot
    if (op == "wchk") {
        a.exactly(1);
        if (!WP_set) bad("wchk without wptr");
        if (auto p = WP.lock()) {
            ret = "alive," + hx(p->rhs()) + "," + std::to_string(p->num_variables());
        } else {
            ret = "expired";
        }
        return;
    }

    if (op == "zipsort") {
        a.exactly(3);
        std::vector<int> control = a.il(1);
        std::vector<double> response = a.dl(2);
        if (control.size() != response.size()) bad("zipsort: lengths differ");
        dimod::utils::zip_sort(control, response);
        ret = (control.empty() ? std::string("-") : join(control.begin(), control.end(), [](int v) { return std::to_string(v); })) + " " +
              (response.empty() ? std::string("-") : join(response.begin(), response.end(), hx));
        return;
    }

    const Slot x = parse_slot(a.s(1));
    touched.push_back(x);

    // ---- whole-object ops, any kind
    if (op == "new") {
        if (x.kind == 'b' && a.size() == 2) {
            B[x.idx] = std::make_unique<BQM>();  // default ctor: BINARY
        } else if (x.kind == 'b') {
            a.between(3, 4);
            Vartype vt = a.vt(2);
            if (a.size() == 4) {
                B[x.idx] = std::make_unique<BQM>(a.i(3), vt);
            } else {
                B[x.idx] = std::make_unique<BQM>(vt);
            }
        } else {
            a.exactly(2);
            fresh(x);
        }
        return;
    }
    if (op == "dense") {
        if (x.kind != 'b') bad("dense is bqm only");
        Vartype vt = a.vt(2);
        int n = a.i(3);
        if (n < 0) bad("dense: n < 0");
        a.exactly(4 + static_cast<size_t>(n) * n);
        std::vector<double> dense;
        for (size_t k = 0; k < static_cast<size_t>(n) * n; ++k) dense.push_back(a.d(4 + k));
        dense.push_back(0);
        B[x.idx] = std::make_unique<BQM>(dense.data(), n, vt);
        return;
    }
    if (op == "copy" || op == "cctor" || op == "move" || op == "mctor" || op == "swap" || op == "adlswap") {
        a.exactly(3);
        const Slot y = parse_slot(a.s(2));
        if (y.kind != x.kind) bad(op + ": slots of different kinds");
        const bool self = y.idx == x.idx;
        if (self && op != "copy" && op != "cctor") bad(op + ": same slot");
        if (!self) touched.push_back(y);
        drop_pending(x);
        drop_pending(y);
        if (op == "copy") {
            if (x.kind == 'b') *B[x.idx] = *B[y.idx];
            if (x.kind == 'q') *Q[x.idx] = *Q[y.idx];
            if (x.kind == 'c') *C[x.idx] = *C[y.idx];
        } else if (op == "cctor") {
            if (x.kind == 'b') {
                auto p = std::make_unique<BQM>(*B[y.idx]);
                B[x.idx] = std::move(p);
            }
            if (x.kind == 'q') {
                auto p = std::make_unique<QM>(*Q[y.idx]);
                Q[x.idx] = std::move(p);
            }
            if (x.kind == 'c') {
                auto p = std::make_unique<CQM>(*C[y.idx]);
                C[x.idx] = std::move(p);
            }
        } else if (op == "move") {
            if (x.kind == 'b') *B[x.idx] = std::move(*B[y.idx]);
            if (x.kind == 'q') *Q[x.idx] = std::move(*Q[y.idx]);
            if (x.kind == 'c') *C[x.idx] = std::move(*C[y.idx]);
            fresh(y);  // destroys the moved-from object
        } else if (op == "mctor") {
            if (x.kind == 'b') {
                auto p = std::make_unique<BQM>(std::move(*B[y.idx]));
                B[x.idx] = std::move(p);
            }
            if (x.kind == 'q') {
                auto p = std::make_unique<QM>(std::move(*Q[y.idx]));
                Q[x.idx] = std::move(p);
            }
            if (x.kind == 'c') {
                auto p = std::make_unique<CQM>(std::move(*C[y.idx]));
                C[x.idx] = std::move(p);
            }
            fresh(y);
        } else if (op == "swap") {
            if (x.kind == 'b') std::swap(*B[x.idx], *B[y.idx]);
            if (x.kind == 'q') std::swap(*Q[x.idx], *Q[y.idx]);
            if (x.kind == 'c') std::swap(*C[x.idx], *C[y.idx]);
        } else {  // adlswap: the friend swap
            if (x.kind != 'c') bad("adlswap is cqm only");
            using std::swap;
            swap(*C[x.idx], *C[y.idx]);
        }
        return;
    }
    if (op == "qmfrombqm" || op == "qmfrombqmf") {
        a.exactly(3);
        const Slot y = parse_slot(a.s(2));
        if (x.kind != 'q' || y.kind != 'b') bad(op + ": need qK bJ");
        touched.push_back(y);
        const BQM& src = *B[y.idx];
        if (op == "qmfrombqm") {
            Q[x.idx] = std::make_unique<QM>(src);  // same-type ctor
        } else {
            // the templated converting ctor, from a float BQM rebuilt through the public API
            BQMF f(static_cast<int>(src.num_variables()), src.vartype());
            for (size_t v = 0; v < src.num_variables(); ++v) f.set_linear(static_cast<int>(v), static_cast<float>(src.linear(static_cast<int>(v))));
            for (auto it = src.cbegin_quadratic(); it != src.cend_quadratic(); ++it)
                f.add_quadratic(it->u, it->v, static_cast<float>(it->bias));
            f.set_offset(static_cast<float>(src.offset()));
            Q[x.idx] = std::make_unique<QM>(f);
        }
        return;
    }
    if (op == "eq") {
        a.exactly(3);
        const Slot y = parse_slot(a.s(2));
        if (x.kind == 'c' || y.kind == 'c') bad("eq: bqm/qm only");
        if (!(y.kind == x.kind && y.idx == x.idx)) touched.push_back(y);
        ret = base_of(x).is_equal(base_of(y)) ? "1" : "0";
        return;
    }

    // ---- BQM / QM
    if (x.kind == 'b') {
        if (!model_op(op, *B[x.idx], a, ret)) bad("unknown bqm op '" + op + "'");
        return;
    }
    if (x.kind == 'q') {
        if (!model_op(op, *Q[x.idx], a, ret)) bad("unknown qm op '" + op + "'");
        return;
    }

    // ---- CQM
    CQM& m = *C[x.idx];

    // pending (detached) constraint ops: never drop the pending constraint
    if (op == "knew") {
        a.exactly(2);
        PEND[x.idx].emplace(m.new_constraint());
        return;
    }
    if (op == "kcommit") {
        a.exactly(2);
        if (!PEND[x.idx]) bad("kcommit without knew");
        Cons tmp = std::move(*PEND[x.idx]);
        PEND[x.idx].reset();
        ret = std::to_string(m.add_constraint(std::move(tmp)));
        return;
    }
    if (op == "kcommitcopy") {
        // by-value parameter fed from an lvalue; the pending constraint stays
        a.exactly(2);
        if (!PEND[x.idx]) bad("kcommitcopy without knew");
        ret = std::to_string(m.add_constraint(*PEND[x.idx]));
        return;
    }
    if (op == "kcommitx") {
        // add the constraint pending on x to ANOTHER model: documented logic_error, no change
        a.exactly(3);
        const Slot y = parse_slot(a.s(2));
        if (y.kind != 'c' || y.idx == x.idx) bad("kcommitx: need a different cqm slot");
        if (!PEND[x.idx]) bad("kcommitx without knew");
        touched.push_back(y);
        drop_pending(y);
        ret = std::to_string(C[y.idx]->add_constraint(*PEND[x.idx]));
        return;
    }
    if (op.size() > 1 && op[0] == 'p') {
        if (!PEND[x.idx]) bad(op + " without knew");
        if (!expr_op(op.substr(1), *PEND[x.idx], m, a, 2, ret)) bad("unknown pending-constraint op '" + op + "'");
        return;
    }

    // every other op invalidates the detached constraint (harness rule)
    drop_pending(x);

    if (op == "clear") {
        a.exactly(2);
        m.clear();
    } else if (op == "q") {
        a.exactly(2);
    } else if (op == "caddvar") {
        if (a.size() == 3) {
            ret = std::to_string(m.add_variable(a.vt(2)));
        } else {
            a.exactly(5);
            ret = std::to_string(m.add_variable(a.vt(2), a.d(3), a.d(4)));
        }
    } else if (op == "caddvars") {
        if (a.size() == 4) {
            ret = std::to_string(m.add_variables(a.vt(2), a.i(3)));
        } else {
            a.exactly(6);
            ret = std::to_string(m.add_variables(a.vt(2), a.i(3), a.d(4), a.d(5)));
        }
    } else if (op == "kadd") {
        a.exactly(2);
        ret = std::to_string(m.add_constraint());
    } else if (op == "kadds") {
        a.exactly(3);
        ret = std::to_string(m.add_constraints(a.i(2)));
    } else if (op == "klin") {
        a.exactly(6);
        Sense s = parse_sense(a.s(2));
        double rhs = a.d(3);
        auto v = a.il(4);
        auto b = a.dl(5);
        if (v.size() != b.size()) bad("klin: lengths differ");
        int r;
        switch (v.size()) {
            case 0: r = m.add_linear_constraint({}, {}, s, rhs); break;
            case 1: r = m.add_linear_constraint({v[0]}, {b[0]}, s, rhs); break;
            case 2: r = m.add_linear_constraint({v[0], v[1]}, {b[0], b[1]}, s, rhs); break;
            case 3: r = m.add_linear_constraint({v[0], v[1], v[2]}, {b[0], b[1], b[2]}, s, rhs); break;
            case 4: r = m.add_linear_constraint({v[0], v[1], v[2], v[3]}, {b[0], b[1], b[2], b[3]}, s, rhs); break;
            default: bad("klin: at most 4 terms");
        }
        ret = std::to_string(r);
    } else if (op == "kfrom" || op == "kfrommv") {
        a.exactly(6);
        const Slot y = parse_slot(a.s(2));
        if (y.kind == 'c') bad(op + ": source must be bqm/qm");
        touched.push_back(y);
        Sense s = parse_sense(a.s(3));
        double rhs = a.d(4);
        std::vector<int> mapping = a.il(5);
        if (op == "kfrom") {
            const Base& lhs = base_of(y);
            ret = std::to_string(m.add_constraint(lhs, s, rhs, mapping));
        } else {
            Base& lhs = base_of(y);
            ret = std::to_string(m.add_constraint(static_cast<Base&&>(lhs), s, rhs, std::move(mapping)));
            fresh(y);  // the source's base part was moved from
        }
    } else if (op == "kassign" || op == "kswap") {
        a.exactly(4);
        int i = a.i(2), j = a.i(3);
        check_constraint_index(m, i);
        check_constraint_index(m, j);
        if (op == "kassign") {
            m.constraint_ref(i) = m.constraint_ref(j);
        } else {
            if (i == j) bad("kswap: same constraint");
            std::swap(m.constraint_ref(i), m.constraint_ref(j));
        }
    } else if (op == "oassign") {
        // objective = (Expression part of) constraint i ; same parent
        a.exactly(3);
        check_constraint_index(m, a.i(2));
        m.objective = static_cast<const Expr&>(m.constraint_ref(a.i(2)));
    } else if (op == "kassignobj") {
        // (Expression part of) constraint i = objective ; same parent
        a.exactly(3);
        check_constraint_index(m, a.i(2));
        static_cast<Expr&>(m.constraint_ref(a.i(2))) = m.objective;
    } else if (op == "krm") {
        a.exactly(3);
        check_constraint_index(m, a.i(2));
        m.remove_constraint(a.i(2));
    } else if (op == "krmif") {
        // remove_constraints_if( rhs <= thr )
        a.exactly(3);
        double thr = a.d(2);
        size_t before = m.num_constraints();
        m.remove_constraints_if([thr](const Cons& c) { return c.rhs() <= thr; });
        ret = std::to_string(before - m.num_constraints());
    } else if (op == "crv") {
        a.exactly(3);
        m.remove_variable(a.i(2));
    } else if (op == "cfx") {
        a.exactly(4);
        m.fix_variable(a.i(2), a.d(3));
    } else if (op == "cfxs") {
        // D = C.fix_variables(vars, values)   (the copying form)
        a.exactly(5);
        const Slot y = parse_slot(a.s(2));
        if (y.kind != 'c') bad("cfxs: destination must be a cqm");
        if (y.idx != x.idx) touched.push_back(y);
        drop_pending(y);
        auto vars = a.il(3);
        auto vals = a.dl(4);
        if (vars.size() != vals.size()) bad("cfxs: lengths differ");
        vals.push_back(0);
        const CQM& src = m;
        *C[y.idx] = src.fix_variables(vars.begin(), vars.end(), vals.begin());
    } else if (op == "csv") {
        a.exactly(5);
        m.substitute_variable(a.i(2), a.d(3), a.d(4));
    } else if (op == "ccv") {
        a.exactly(4);
        m.change_vartype(a.vt(2), a.i(3));
    } else if (op == "cslb") {
        a.exactly(4);
        m.set_lower_bound(a.i(2), a.d(3));
    } else if (op == "csup") {
        a.exactly(4);
        m.set_upper_bound(a.i(2), a.d(3));
    } else if (op == "csvt") {
        a.exactly(4);
        m.set_vartype(a.i(2), a.vt(3));
    } else if (op == "setobj") {
        a.exactly(3);
        const Slot y = parse_slot(a.s(2));
        if (y.kind == 'c') bad("setobj: source must be bqm/qm");
        touched.push_back(y);
        m.set_objective(base_of(y));
    } else if (op == "setobjm") {
        a.exactly(4);
        const Slot y = parse_slot(a.s(2));
        if (y.kind == 'c') bad("setobjm: source must be bqm/qm");
        touched.push_back(y);
        std::vector<int> mapping = a.il(3);
        m.set_objective(base_of(y), mapping);
    } else if (op == "cenergy") {
        a.exactly(3);
        auto sample = a.dl(2);
        if (sample.size() != m.num_variables()) bad("cenergy: sample length != num_variables");
        sample.push_back(0);
        ret = hx(m.objective.energy(sample.begin()));
        for (size_t k = 0; k < m.num_constraints(); ++k)
            ret += "," + hx(m.constraint_ref(static_cast<int>(k)).energy(sample.begin()));
    } else if (op == "wptr") {
        a.exactly(3);
        check_constraint_index(m, a.i(2));
        WP = m.constraint_weak_ptr(a.i(2));
        WP_set = true;
        ret = std::to_string(WP.use_count());
    } else if (op.size() > 1 && op[0] == 'o') {
        if (!expr_op(op.substr(1), m.objective, m, a, 2, ret)) bad("unknown objective op '" + op + "'");
    } else if (op.size() > 1 && op[0] == 'k') {
        int c = a.i(2);
        check_constraint_index(m, c);
        if (!expr_op(op.substr(1), m.constraint_ref(c), m, a, 3, ret)) bad("unknown constraint op '" + op + "'");
    } else {
        bad("unknown cqm op '" + op + "'");
    }
}

static const char* exc_class(const std::exception& e) {
    if (dynamic_cast<const std::domain_error*>(&e)) return "domain_error";
    if (dynamic_cast<const std::out_of_range*>(&e)) return "out_of_range";
    if (dynamic_cast<const std::invalid_argument*>(&e)) return "invalid_argument";
    if (dynamic_cast<const std::length_error*>(&e)) return "length_error";
    if (dynamic_cast<const std::logic_error*>(&e)) return "logic_error";
    if (dynamic_cast<const std::bad_alloc*>(&e)) return "bad_alloc";
    if (dynamic_cast<const std::runtime_error*>(&e)) return "runtime_error";
    return "exception";
}

int main() {
    for (int i = 0; i < NB; ++i) fresh(Slot{'b', i});
    for (int i = 0; i < NQ; ++i) fresh(Slot{'q', i});
    for (int i = 0; i < NC; ++i) fresh(Slot{'c', i});

    std::string line;
    while (std::getline(std::cin, line)) {
        Args a;
        {
            std::istringstream ss(line);
            std::string tok;
            while (ss >> tok) a.t.push_back(tok);
        }
        if (a.t.empty() || a.t[0][0] == '#') continue;

        std::string head, ret;
        std::vector<Slot> touched;
        INC.clear();
        try {
            try {
                execute(a, ret, touched);
                head = "ok";
                if (!ret.empty()) head += " ret=" + ret;
            } catch (const BadOp&) {
                throw;
            } catch (const std::exception& e) {
                head = std::string("exc ") + exc_class(e) + ": " + e.what();
            }
            std::string out = head;
            for (auto& s : touched) out += " ## " + slot_state(s);
            if (!INC.empty()) {
                out += " ## INCONSISTENT ";
                for (size_t k = 0; k < INC.size(); ++k) {
                    if (k) out += " ;; ";
                    out += INC[k];
                }
            }
            std::cout << out << "\n" << std::flush;
        } catch (const BadOp& e) {
            std::cout << "err " << e.msg << "\n" << std::flush;
        }
    }

    // orderly teardown so that LeakSanitizer sees only real leaks
    WP.reset();
    for (int i = 0; i < NC; ++i) {
        PEND[i].reset();
        C[i].reset();
    }
    for (int i = 0; i < NB; ++i) B[i].reset();
    for (int i = 0; i < NQ; ++i) Q[i].reset();
    return 0;
}
