"""child process of main.py: run one property module against the scratch build of /repo"""
import argparse
import importlib
import json
import sys
import traceback
import warnings

warnings.simplefilter('ignore')
from harness.common import Ctx  # noqa: E402


def main():
    ap = argparse.ArgumentParser()
    ap.add_argument('prop'); ap.add_argument('--seed', type=int, default=0)
    ap.add_argument('--tier', default='quick'); ap.add_argument('--out')
    a = ap.parse_args()
    ctx = Ctx(a.prop, a.seed, a.tier, a.out)
    cov = None
    try:
        from harness import pycov
        cov = pycov.start()
    except Exception:  # coverage of the anchored Python files is a by-product, never a reason to fail
        cov = None
    mod = importlib.import_module('harness.props.' + a.prop.lower())
    try:
        mod.run(ctx)
    except Exception:
        tb = traceback.format_exc()
        sys.stderr.write(tb)
        ctx.fail('correspondence', 'harness', 'exception', 'property module raised: ' + tb.splitlines()[-1], detail=tb[-3000:])
    if cov is not None:
        try:
            from harness import pycov
            ctx.extra['anchor_py_coverage'] = pycov.report(cov, a.prop)
        except Exception as e:
            ctx.extra['anchor_py_coverage'] = {'error': repr(e)}
    res = ctx.result()
    if a.out:
        json.dump(res, open(a.out, 'w'), default=str)
    else:
        json.dump(res, sys.stdout, indent=1, default=str)


if __name__ == '__main__':
    main()
