"""C07 — samplers and composites report each row's true energy over the right variables.

For every sample set returned by a reference sampler / composite stack / entry point / option
combination on random small problems:

(ii) property predicate (definition only, exact Fractions, computed from the *generated* coefficient
     dictionaries, never from the dimod object that was submitted): the variables are exactly the
     problem's (plus documented auxiliaries), every value is in its variable's domain, every row's
     energy is the submitted problem's energy of the labelled row, fixed / initial values sit under their
     own label; exact solvers return the whole search space, every assignment exactly once, so the
     lowest (feasible) row is a global optimum; truncating composites return the lowest rows of it.
(i)  correspondence with the Lean model (`DimodModel/Enumerate.lean`, driver `enumdriver`): the row
     *order* of `_graycode`, `_all_cases_dqm`, `_all_cases_cqm`, `_iterator_by_vartype`; the polynomial
     produced by `fix_variables`; labels / columns / energies / flags of `polymorph_response`; the
     (assignment, energy) table returned through each entry point of samplers implementing only one
     of sample / sample_ising / sample_qubo; PolyScale and PolyFixedVariable energy tables.

Stochastic samplers (RandomSampler, SimulatedAnnealingSampler) are seeded; their rows are validated,
not predicted.
"""
import itertools
import random as pyrandom
from fractions import Fraction as F

import numpy as np

import dimod
import dimod.decorators
from dimod import BinaryQuadraticModel as BQM
from dimod.higherorder.polynomial import BinaryPolynomial
from dimod.higherorder.utils import make_quadratic
from dimod.reference.composites import higherordercomposites as hoc
from dimod.reference.samplers import exact_solver as es
from harness.common import lab, rat, run_driver

LABELS = ['a', 'b', 'c', 'z', 'y', 0, 1, 5, ('t', 1), ('t', 'a')]
PRE = 'import dimod, numpy as np\nfrom fractions import Fraction as F\nfrom dimod.higherorder.polynomial import BinaryPolynomial\n'


def dy(r, lo=-16, hi=16):
    return F(r.randint(lo, hi), 8)


def fr(x):
    return F(float(x))


# ------------------------------------------------------------------ problems (generation data = oracle data)

class BqmProblem:
    def __init__(self, r, nmax=5, vartype=None):
        n = r.choice([0, 1, 1, 2, 2, 3, 3, 4, nmax])
        self.labels = r.sample(LABELS, n)
        self.spin = (r.random() < .5) if vartype is None else (vartype == 'SPIN')
        self.lin = {v: (dy(r) if r.random() < .8 else F(0)) for v in self.labels}
        self.quad = {}
        for u, v in itertools.combinations(self.labels, 2):
            if r.random() < .6:
                self.quad[(u, v) if r.random() < .5 else (v, u)] = dy(r)
        self.off = dy(r) if r.random() < .6 else F(0)

    @property
    def vartype(self):
        return 'SPIN' if self.spin else 'BINARY'

    def domain(self, v):
        return (-1, 1) if self.spin else (0, 1)

    def energy(self, x):
        return self.off + sum(b * x[v] for v, b in self.lin.items()) + sum(b * x[u] * x[v] for (u, v), b in self.quad.items())

    def bqm(self, dtype=None):
        return BQM({v: float(b) for v, b in self.lin.items()}, {k: float(b) for k, b in self.quad.items()}, float(self.off),
                   self.vartype, **({} if dtype is None else {'dtype': dtype}))

    def src(self):
        return (f'BQM = dimod.BinaryQuadraticModel({ {v: float(b) for v, b in self.lin.items()}!r}, '
                f'{ {k: float(b) for k, b in self.quad.items()}!r}, {float(self.off)!r}, {self.vartype!r})\n'
                f'LIN, QUAD, OFF = { {v: str(b) for v, b in self.lin.items()}!r}, { {k: str(b) for k, b in self.quad.items()}!r}, {str(self.off)!r}\n'
                'def energy(x):\n    return F(OFF) + sum(F(b) * x[v] for v, b in LIN.items()) + sum(F(b) * x[u] * x[v] for (u, v), b in QUAD.items())\n')

    def all_assignments(self):
        return [dict(zip(self.labels, vals)) for vals in itertools.product(*[self.domain(v) for v in self.labels])]


class PolyProblem:
    def __init__(self, r, nmax=4, pow2=False):
        n = r.choice([0, 1, 2, 2, 3, 3, nmax])
        self.labels = r.sample(LABELS, n)
        self.spin = r.random() < .5
        self.terms = {}
        mag = [F(1), F(2), F(4), F(1, 2), F(1, 4), F(-1), F(-2), F(-4), F(-1, 2)]
        for _ in range(r.randint(0, 6)):
            k = frozenset(r.sample(self.labels, r.randint(0, min(n, 4))))
            self.terms[k] = r.choice(mag) if pow2 else dy(r)
        if r.random() < .5:
            self.terms[frozenset()] = r.choice(mag) if pow2 else dy(r)
        if r.random() < .7:       # make sure every label occurs
            for v in self.labels:
                if not any(v in k for k in self.terms):
                    self.terms[frozenset([v])] = r.choice(mag) if pow2 else dy(r)
        self.labels = [v for v in self.labels if any(v in k for k in self.terms)]

    @property
    def vartype(self):
        return 'SPIN' if self.spin else 'BINARY'

    def domain(self, v):
        return (-1, 1) if self.spin else (0, 1)

    def energy(self, x):
        tot = F(0)
        for k, b in self.terms.items():
            p = b
            for v in k:
                p *= x[v]
            tot += p
        return tot

    def poly(self):
        return BinaryPolynomial({tuple(k): float(b) for k, b in self.terms.items()}, self.vartype)

    def src(self):
        return (f'TERMS = { {tuple(k): str(b) for k, b in self.terms.items()}!r}\n'
                f'POLY = BinaryPolynomial({{k: float(F(b)) for k, b in TERMS.items()}}, {self.vartype!r})\n'
                'def energy(x):\n    tot = F(0)\n    for k, b in TERMS.items():\n        p = F(b)\n        for v in k:\n            p *= x[v]\n        tot += p\n    return tot\n')

    def all_assignments(self):
        return [dict(zip(self.labels, vals)) for vals in itertools.product(*[self.domain(v) for v in self.labels])]

    def wire(self):
        return '|'.join(f"{rat(b)}@{'&'.join(lab(v) for v in k)}" for k, b in self.terms.items())


def canon_poly(poly):
    return '|'.join(sorted(f"{rat(fr(b))}@{'&'.join(sorted(lab(v) for v in k))}" for k, b in poly.items()))


# ------------------------------------------------------------------ test-only samplers (one implemented method each)

class IsingOnly(dimod.Sampler):
    properties = None
    parameters = None

    def __init__(self):
        self.properties = {}
        self.parameters = {}

    def sample_ising(self, h, J, **kw):
        return dimod.ExactSolver().sample(BQM.from_ising(h, J))


class QuboOnly(dimod.Sampler):
    properties = None
    parameters = None

    def __init__(self):
        self.properties = {}
        self.parameters = {}

    def sample_qubo(self, Q, **kw):
        return dimod.ExactSolver().sample(BQM.from_qubo(Q))


# ------------------------------------------------------------------ generic validation of a returned sample set

def rows_of(ss):
    """[(dict label -> Fraction, energy Fraction)] from the record, by label"""
    labels = list(ss.variables)
    out = []
    for row, e in zip(ss.record.sample, ss.record.energy):
        out.append(({v: fr(x) for v, x in zip(labels, row)}, fr(e)))
    return out


def validate(ctx, ss, prob, site, cls, src, call, aux=(), exact=None, fixed=None):
    """report the first failure of `predicate` on one returned sample set"""
    f = predicate(ss, prob, cls, aux=aux, exact=exact, fixed=fixed)
    if f is None:
        return True
    ic, what, assertion = f
    ctx.fail('property', site, ic, what, repro=PRE + src + f'ss = {call}\n' + assertion + '\n', detail=dict(call=call))
    return False


def predicate(ss, prob, cls, aux=(), exact=None, fixed=None):
    """the property predicate on one returned sample set.  `exact`: None (only validate rows) or the
    list of free labels whose assignments must each occur exactly once.  Returns None or
    (input_class, what, assertion source)."""
    def bad(what, assertion, ic=cls):
        return (ic, what, assertion)
    want = set(prob.labels) | set(aux)
    got = list(ss.variables)
    if len(set(got)) != len(got) or set(got) != want:
        return bad(f'variables {got!r} but the problem has {sorted(want, key=repr)!r}',
                   f'assert set(ss.variables) == set({sorted(want, key=repr)!r}), list(ss.variables)')
    rows = rows_of(ss)
    for x, e in rows:
        for v in prob.labels:
            if x[v] not in prob.domain(v):
                return bad(f'value {x[v]} of {v!r} outside its domain {prob.domain(v)}',
                           f'assert all(s[{v!r}] in {tuple(prob.domain(v))!r} for s in ss.samples()), list(ss.samples())')
        if fixed:
            for v, val in fixed.items():
                if x[v] != val:
                    return bad(f'column {v!r} holds {x[v]} but the fixed value is {val}',
                               f'assert all(s[{v!r}] == {val} for s in ss.samples()), list(ss.samples())', 'column labels')
        w = prob.energy(x)
        if e != w:
            xs = {k: int(v) for k, v in x.items() if k in prob.labels}
            return bad(f'row {xs} reported with energy {e}, the submitted problem gives {w}',
                       'for s, e in zip(ss.samples(), ss.record.energy):\n'
                       '    assert F(float(e)) == energy({k: F(int(v)) for k, v in s.items()}), (dict(s), e)', 'energy')
    if exact is not None:
        free = list(exact)
        seen = {}
        for x, _ in rows:
            key = tuple(x[v] for v in free)
            seen[key] = seen.get(key, 0) + 1
        allk = set(itertools.product(*[prob.domain(v) for v in free]))
        if set(seen) != {tuple(F(a) for a in k) for k in allk} or any(c != 1 for c in seen.values()):
            return bad(f'{len(rows)} rows, {len(seen)} distinct assignments, search space has {len(allk)}',
                       f'assert len(ss) == {len(allk)} and len(ss.aggregate()) == {len(allk)}, len(ss)', 'enumeration')
        if rows:
            best = min(prob.energy({**dict(zip(free, k)), **(fixed or {})}) for k in allk)
            if fr(ss.first.energy) != best:
                return bad(f'lowest row has energy {ss.first.energy}, the global optimum is {best}',
                           f'assert F(float(ss.first.energy)) == F({str(best)!r})', 'optimum')
    return None


# ------------------------------------------------------------------ section A: enumeration order (model correspondence)

class Corr:
    def __init__(self):
        self.lines, self.expect, self.meta = [], [], []

    def add(self, line, expect, site, what):
        self.lines.append(line); self.expect.append(expect); self.meta.append((site, what))


class _Vars:
    def __init__(self, n):
        self.variables = list(range(n))


def section_orders(ctx, r, corr):
    for n in range(0, ctx.scale(9, 12)):
        rows = es._graycode(_Vars(n))
        corr.add(f'gray {n}', '|'.join(''.join(str(int(b)) for b in row) for row in rows), '_graycode', f'n={n}')
        ctx.case(('gray', n)); ctx.tick('order:_graycode')
    for _ in range(ctx.scale(200, 2000)):
        k = r.randint(1, 4)
        sizes = [r.randint(1, 3) for _ in range(k)]
        dqm = dimod.DiscreteQuadraticModel()
        for i, s in enumerate(sizes):
            dqm.add_variable(s, label=i)
        cases, labels = es._all_cases_dqm(dqm)
        corr.add('mesh ' + ','.join(map(str, sizes)), '|'.join('.'.join(str(int(x)) for x in row) for row in cases), '_all_cases_dqm', str(sizes))
        ctx.case(('mesh', tuple(sizes))); ctx.tick('order:_all_cases_dqm')


# ------------------------------------------------------------------ section B: BQM samplers and composites

def encode_states(r, states, labels, k=None):
    """one of the samples-like encodings of a list of assignments"""
    k = r.randrange(4) if k is None else k
    if k == 0 or not labels:
        perm = labels[:]
        out = []
        for s in states:
            r.shuffle(perm)
            out.append({v: s[v] for v in perm})      # dicts with differing key order
        return out, 'list of dicts with differing key order'
    if k == 1:
        perm = labels[:]; r.shuffle(perm)
        return (np.array([[s[v] for v in perm] for s in states], dtype=np.int8).reshape(len(states), len(perm)), perm), '(array, permuted labels)'
    if k == 2:
        return dimod.SampleSet.from_samples((np.array([[s[v] for v in labels] for s in states], dtype=np.int8).reshape(len(states), len(labels)), labels),
                                            energy=[0] * len(states), vartype='SPIN' if any(x == -1 for s in states for x in s.values()) else 'BINARY'), 'SampleSet'
    return [dict(s) for s in states], 'list of dicts'


def section_bqm(ctx, r, corr):
    nprob = ctx.scale(1500, 25000)
    nident = ctx.scale(300, 5000)
    for pi in range(nprob + nident):
        prob = BqmProblem(r)
        force_identity = pi >= nprob
        if force_identity:
            while len(prob.labels) < 3:
                prob = BqmProblem(r)
        n = len(prob.labels)
        dtype = r.choice([None, None, np.float32, object])
        src = prob.src()
        entry = r.choice(['sample', 'sample', 'sample_ising', 'sample_qubo'])
        if entry == 'sample_ising':
            prob.spin, prob.off = True, F(0)
        if entry == 'sample_qubo':
            prob.spin, prob.off = False, F(0)
        src = prob.src()
        base = r.choice(['exact', 'exact', 'exact', 'ising-only', 'qubo-only', 'random', 'sa', 'identity', 'identity', 'null'])
        if force_identity:
            base = 'identity'
        kw, kwsrc = {}, ''
        exact_base = base in ('exact', 'ising-only', 'qubo-only')
        initial = None
        if base == 'exact':
            sampler, ssrc = dimod.ExactSolver(), 'dimod.ExactSolver()'
        elif base == 'ising-only':
            sampler, ssrc = IsingOnly(), None
        elif base == 'qubo-only':
            sampler, ssrc = QuboOnly(), None
        elif base == 'random':
            sampler, ssrc = dimod.RandomSampler(), 'dimod.RandomSampler()'
            kw = dict(num_reads=r.randint(1, 6), seed=r.randrange(1000))
        elif base == 'sa':
            sampler, ssrc = dimod.SimulatedAnnealingSampler(), 'dimod.SimulatedAnnealingSampler()'
            kw = dict(num_reads=r.randint(1, 3), num_sweeps=r.randint(2, 6))
            if r.random() < .3:
                kw['beta_range'] = (.1, 2.0)
            pyrandom.seed(r.randrange(10 ** 6))
        elif base == 'identity':
            sampler, ssrc = dimod.IdentitySampler(), 'dimod.IdentitySampler()'
            m = r.randint(1, 4)
            initial = [{v: r.choice(prob.domain(v)) for v in prob.labels} for _ in range(m)]
            enc, enc_name = encode_states(r, initial, list(prob.labels), k=(pi % 2) if force_identity else None)
            gen = r.choice(['none', 'tile', 'random'])
            kw = dict(initial_states=enc, initial_states_generator=gen)
            if gen != 'none' or r.random() < .3:
                kw['num_reads'] = r.randint(1, m) if gen == 'none' else r.randint(1, 6)
            if gen == 'random':
                kw['seed'] = r.randrange(1000)
        else:
            sampler, ssrc = dimod.NullSampler(), 'dimod.NullSampler()'
        # composites on top
        trunc = None
        for _ in range(0 if force_identity else r.choice([0, 0, 1, 1, 2])):
            c = r.choice(['truncate', 'tracking', 'structure'])
            if c == 'truncate':
                tn, sb, ag = r.randint(1, 5), r.choice(['energy', 'energy', None]), r.random() < .4
                sampler = dimod.TruncateComposite(sampler, tn, sorted_by=sb, aggregate=ag)
                ssrc = ssrc and f'dimod.TruncateComposite({ssrc}, {tn}, sorted_by={sb!r}, aggregate={ag})'
                trunc = (tn, sb, ag) if trunc is None else (min(tn, trunc[0]), 'mixed', ag or trunc[2])
            elif c == 'tracking':
                cp = r.random() < .5
                sampler = dimod.TrackingComposite(sampler, copy=cp)
                ssrc = ssrc and f'dimod.TrackingComposite({ssrc}, copy={cp})'
            else:
                nodes = list(prob.labels) + ['extra', 'extra2']
                edges = list(prob.quad) + [('extra', 'extra2')]
                sampler = dimod.StructureComposite(sampler, nodes, edges)
                ssrc = ssrc and f'dimod.StructureComposite({ssrc}, {nodes!r}, {edges!r})'
        # call through the entry point
        fl = lambda d: {k: float(v) for k, v in d.items()}  # noqa: E731
        kwtxt = ''.join(f', {k}={v!r}' for k, v in kw.items() if k != 'initial_states')
        if 'initial_states' in kw:
            kwtxt += ', initial_states=' + repr(kw['initial_states'] if not isinstance(kw['initial_states'], dimod.SampleSet) else 'SAMPLESET').replace('array(', 'np.array(').replace('dtype=int8', 'dtype=np.int8')
        try:
            if entry == 'sample':
                ss = sampler.sample(prob.bqm(dtype), **kw)
                call = f'{ssrc}.sample(BQM{kwtxt})'
            elif entry == 'sample_ising':
                h = fl(prob.lin)
                if n and list(prob.labels) == list(range(n)) and r.random() < .5:
                    h = [float(prob.lin[i]) for i in range(n)]
                ss = sampler.sample_ising(h, fl(prob.quad), **kw)
                call = f'{ssrc}.sample_ising({h!r}, {fl(prob.quad)!r}{kwtxt})'
            else:
                Q = {(v, v): float(b) for v, b in prob.lin.items()}
                Q.update(fl(prob.quad))
                ss = sampler.sample_qubo(Q, **kw)
                call = f'{ssrc}.sample_qubo({Q!r}{kwtxt})'
        except ValueError as e:
            # documented refusals: an identity sampler with too few states, tiling nothing
            ctx.tick(f'{base}:{entry}:ValueError')
            ctx.case((pi, 'raise'), nontrivial=False)
            if base != 'identity':
                ctx.fail('property', f'{base}.{entry}', 'unexpected exception', f'{type(e).__name__}: {e}', repro=PRE + src + f'{call if ssrc else ""}\n')
            continue
        cls = f'{prob.vartype} n={min(n, 2)}{"+" if n > 2 else ""}'
        site = f'{type(sampler).__name__}.sample' if ssrc else f'Sampler mixin ({base} via {entry})'
        ctx.tick(f'{base}:{entry}'); ctx.tick(f'stack:{type(sampler).__name__}')
        ctx.case((pi, base, entry, prob.vartype, n, tuple(sorted(map(str, prob.lin.values())))), nontrivial=n > 0,
                 sample=dict(call=call, problem=src[:300]) if pi % 50 == 7 else None)
        if ss.vartype.name != prob.vartype:
            ctx.fail('property', site, 'vartype', f'sample set is {ss.vartype.name}, problem is {prob.vartype}', repro=PRE + src + f'assert {call}.vartype.name == {prob.vartype!r}\n')
            continue
        exact = list(prob.labels) if (exact_base and trunc is None and n > 0) else None
        ok = validate(ctx, ss, prob, site if base != 'identity' else 'as_samples', cls if base != 'identity' else enc_name,
                      src, call if ssrc else f'# {base} wrapper around ExactSolver, entry {entry}', exact=exact)
        if not ok:
            continue
        rows = rows_of(ss)
        if exact_base and n == 0 and len(rows) != 0:
            ctx.tick('empty problem: rows returned')
        if exact_base and trunc is not None and n > 0:
            tn, sb, ag = trunc
            total = 2 ** n
            if len(rows) != min(tn, total):
                ctx.fail('property', site, 'truncate count', f'{len(rows)} rows, expected min({tn}, {total})', repro=PRE + src + f'assert len({call}) == {min(tn, total)}\n')
            elif sb == 'energy':
                lowest = sorted(prob.energy(x) for x in prob.all_assignments())[:len(rows)]
                if sorted(e for _, e in rows) != lowest:
                    ctx.fail('property', site, 'truncate keeps the lowest', f'energies {sorted(e for _, e in rows)} are not the {len(rows)} lowest {lowest}',
                             repro=PRE + src + f'ss = {call}\nassert sorted(map(float, ss.record.energy)) == {[float(x) for x in lowest]!r}\n')
            if len({tuple(sorted(x.items(), key=repr)) for x, _ in rows}) != len(rows):
                ctx.fail('property', site, 'truncate duplicates', 'a truncated exact enumeration repeats a row', repro=PRE + src + f'ss = {call}\nassert len(ss.aggregate()) == len(ss)\n')
        if base == 'identity' and initial is not None:
            m = min(len(initial), len(rows))
            if trunc is None:
                for i in range(m):
                    if {k: int(v) for k, v in rows[i][0].items()} != initial[i]:
                        ctx.fail('property', 'as_samples', enc_name, f'row {i} is {rows[i][0]} but initial state {i} is {initial[i]}',
                                 repro=PRE + src + f'ss = {call}\nassert [dict(s) for s in ss.samples(sorted_by=None)][:{m}] == {initial[:m]!r}\n')
                        break
        if base == 'null' and len(rows):
            ctx.fail('property', site, 'null', 'NullSampler returned rows', repro=PRE + src + f'assert len({call}) == 0\n')
        # model correspondence for the single-method samplers: the whole (assignment, energy) table
        if base in ('exact', 'ising-only', 'qubo-only') and trunc is None and n > 0:
            impl = {'exact': 'sample', 'ising-only': 'ising', 'qubo-only': 'qubo'}[base]
            line = (f"plumb {entry.replace('sample_', '')} {impl} {int(prob.spin)} ; " + ','.join(f'{lab(v)}={rat(b)}' for v, b in prob.lin.items()) +
                    ' ; ' + ','.join(f'{lab(u)}&{lab(v)}={rat(b)}' for (u, v), b in prob.quad.items()) + f' ; {rat(prob.off)}')
            exp = '|'.join(sorted(','.join(sorted(f'{lab(v)}={rat(x[v])}' for v in x)) + '@' + rat(e) for x, e in rows))
            corr.add(line, exp, site, call)


# ------------------------------------------------------------------ section C: polynomial samplers and composites

def innermost_dimod_frame(e):
    import traceback
    name = '?'
    for fr_ in traceback.extract_tb(e.__traceback__):
        if '/dimod/' in fr_.filename:
            name = fr_.name
    return name


def section_poly(ctx, r, corr):
    nprob = ctx.scale(1500, 25000)
    for pi in range(nprob):
        scale_mode = r.choice([None, None, 'scalar', 'normalize'])
        prob = PolyProblem(r, pow2=scale_mode == 'normalize')
        entry = r.choice(['sample_poly', 'sample_poly', 'sample_hising', 'sample_hubo'])
        if entry == 'sample_hising':
            prob.spin = True
            prob.terms.pop(frozenset(), None)
            for v in prob.labels:
                prob.terms.setdefault(frozenset([v]), F(0))
        if entry == 'sample_hubo':
            prob.spin = False
        n = len(prob.labels)
        src = prob.src()
        # ---- the stack as a list of layers: (name, wrap(child) -> sampler, source format, kwargs owned by the layer)
        base = r.choice(['exactpoly', 'exactpoly', 'hoc', 'hoc', 'hoc'])
        layers = []
        exactish = True
        if base == 'exactpoly':
            layers.append(('ExactPolySolver', lambda c: dimod.ExactPolySolver(), 'dimod.ExactPolySolver()', {}))
        else:
            kw0 = dict(penalty_strength=float(r.choice([1, 2, F(1, 2), 4])), keep_penalty_variables=r.random() < .5,
                       discard_unsatisfied=r.random() < .5)
            m = r.random()
            if m < .62:
                layers.append(('HigherOrderComposite', lambda c: dimod.HigherOrderComposite(dimod.ExactSolver()),
                               'dimod.HigherOrderComposite(dimod.ExactSolver())', kw0))
            elif m < .72:     # a child that returns no rows at all
                layers.append(('HigherOrderComposite', lambda c: dimod.HigherOrderComposite(dimod.NullSampler()),
                               'dimod.HigherOrderComposite(dimod.NullSampler())', kw0))
                exactish = False
            else:
                kw0.update(num_reads=r.randint(1, 5), seed=r.randrange(100))
                layers.append(('HigherOrderComposite', lambda c: dimod.HigherOrderComposite(dimod.RandomSampler()),
                               'dimod.HigherOrderComposite(dimod.RandomSampler())', kw0))
                exactish = False
        have = set()
        for _ in range(r.choice([0, 0, 1, 1, 2])):
            c = r.choice(['scale', 'truncate', 'fixed'])
            if c in have:
                continue
            if c == 'scale' and scale_mode and 'fixed' not in have:
                kw1 = {}
                if scale_mode == 'scalar':
                    kw1['scalar'] = float(r.choice([2, 4, F(1, 2), F(1, 4), -1, -2, 0, 0]))     # 0: refused since fix cca1a20 (D73)
                else:
                    kw1['bias_range'] = float(r.choice([1, 2, F(1, 2)]))
                    if r.random() < .4:
                        kw1['poly_range'] = float(r.choice([1, 2, 4]))
                if r.random() < .4 and prob.terms:
                    kw1['ignored_terms'] = [tuple(k) for k in r.sample(list(prob.terms), r.randint(1, min(2, len(prob.terms))))]
                layers.append(('PolyScaleComposite', lambda ch: dimod.PolyScaleComposite(ch), 'dimod.PolyScaleComposite({})', kw1))
                have.add(c)
            elif c == 'truncate':
                tn, sb, ag = r.randint(1, 5), r.choice(['energy', None]), r.random() < .4
                layers.append(('PolyTruncateComposite', lambda ch, tn=tn, sb=sb, ag=ag: dimod.PolyTruncateComposite(ch, tn, sorted_by=sb, aggregate=ag),
                               f'dimod.PolyTruncateComposite({{}}, {tn}, sorted_by={sb!r}, aggregate={ag})', {}))
                have.add(c)
            elif c == 'fixed' and not (scale_mode == 'normalize' and 'scale' in have):   # merged biases are no powers of two
                fv = r.sample(prob.labels, r.randint(0, n))
                layers.append(('PolyFixedVariableComposite', lambda ch: dimod.PolyFixedVariableComposite(ch), 'dimod.PolyFixedVariableComposite({})',
                               dict(fixed_variables={v: r.choice(prob.domain(v)) for v in fv})))
                have.add(c)

        def run_stack(depth):
            """build layers[0..depth], call the entry point, evaluate the predicate; returns (failure | None, ss, call, info)"""
            sampler, ssrc, kw = None, '', {}
            for name, wrap, fmt, lkw in layers[:depth + 1]:
                sampler = wrap(sampler)
                ssrc = fmt.format(ssrc) if '{}' in fmt else fmt
                kw.update(lkw)
            names = [l[0] for l in layers[:depth + 1]]
            fixed = kw.get('fixed_variables')
            trunc = 'PolyTruncateComposite' in names
            aux_ok = bool(kw.get('keep_penalty_variables'))
            kwtxt = ''.join(f', {k}={v!r}' for k, v in kw.items())
            try:
                if entry == 'sample_poly':
                    call = f'{ssrc}.sample_poly(POLY{kwtxt})'
                    ss = sampler.sample_poly(prob.poly(), **kw)
                elif entry == 'sample_hising':
                    h = {next(iter(k)): float(b) for k, b in prob.terms.items() if len(k) == 1}
                    J = {tuple(k): float(b) for k, b in prob.terms.items() if len(k) > 1}
                    call = f'{ssrc}.sample_hising({h!r}, {J!r}{kwtxt})'
                    if True:
                        corr.add('hising ; ' + ','.join(f'{lab(v)}={rat(fr(b))}' for v, b in h.items()) + ' ; ' + '|'.join(f"{rat(fr(b))}@{'&'.join(lab(v) for v in k)}" for k, b in J.items()),
                                 canon_poly(BinaryPolynomial.from_hising(h, J)), 'BinaryPolynomial.from_hising', repr((h, J)))
                    ss = sampler.sample_hising(h, J, **kw)
                else:
                    H = {tuple(k): float(b) for k, b in prob.terms.items()}
                    call = f'{ssrc}.sample_hubo({H!r}{kwtxt})'
                    ss = sampler.sample_hubo(H, **kw)
            except Exception as e:  # noqa: every exception on a valid problem is a finding
                free = [v for v in prob.labels if not (fixed and v in fixed)]
                where = innermost_dimod_frame(e)
                if (isinstance(e, ValueError) and names[-1] == 'PolyScaleComposite' and kw.get('scalar') == 0 and where == 'sample_poly'):
                    # the documented refusal of scalar=0, raised by the PolyScale layer itself (its own frame is the innermost one)
                    return (None, None, call, dict(refused=True, names=names, kw=kw, site='PolyScaleComposite.sample_poly'))
                ic = f'{type(e).__name__}' + (' discard_unsatisfied=True, child response has no rows' if where == 'polymorph_response' else
                                              ' child response has no rows, free variables remain' if fixed is not None else '')
                if fixed is not None and where != 'polymorph_response':
                    where = 'PolyFixedVariableComposite.sample_poly'
                return ((ic, f'{type(e).__name__}: {e}', 'assert False  # the call above raises'), None, call, dict(site=where))
            info = dict(names=names, fixed=fixed, trunc=trunc, aux_ok=aux_ok, kw=kw, site=f'{names[-1]}.sample_poly')
            cls = prob.vartype + (' n=0' if n == 0 else '') + (' fixed_variables' if fixed is not None else '') + (' keep_penalty_variables' if aux_ok else '')
            if kw.get('scalar') == 0 and 'PolyScaleComposite' in names and len(ss) and not np.all(np.isfinite(ss.record.energy)):
                # not refused and the energies were divided by zero: no row carries the submitted polynomial's energy
                i = int(np.flatnonzero(~np.isfinite(ss.record.energy))[0])
                row = dict(zip(ss.variables, map(int, ss.record.sample[i])))
                return (('energy', f'scalar=0 accepted: row {row} reported with energy {ss.record.energy[i]!r}, the submitted problem gives '
                         f'{prob.energy({v: F(row[v]) for v in prob.labels})}',
                         'import math\nassert all(math.isfinite(e) for e in ss.record.energy), list(ss.record.energy)'), ss, call, info)
            if len(ss) and ss.vartype.name != prob.vartype:
                return (('vartype', f'sample set is {ss.vartype.name}, problem is {prob.vartype}', f'assert ss.vartype.name == {prob.vartype!r}'), ss, call, info)
            aux = []
            if aux_ok:
                aux = [v for v in ss.variables if v not in prob.labels]
                named = set()
                for (u, v), ch in ss.info.get('reduction', {}).items():
                    named.add(ch['product'])
                    if 'auxiliary' in ch:
                        named.add(ch['auxiliary'])
                stray = [v for v in aux if v not in named]
                if stray:
                    return (('undocumented variables', f'{stray!r} are neither problem variables nor listed in info["reduction"]',
                             f'assert set(ss.variables) <= set(POLY.variables) | {named!r}'), ss, call, info)
            free = [v for v in prob.labels if not (fixed and v in fixed)]
            info['free'] = free
            exact = free if (base == 'exactpoly' and not trunc and free) else None
            fx = {v: F(x) for v, x in (fixed or {}).items() if v in prob.labels}
            f = predicate(ss, prob, cls, aux=aux, exact=exact, fixed=fx or None)
            if f is None and base == 'hoc' and exactish and not trunc and free:
                seen = {tuple(x[v] for v in free) for x, _ in rows_of(ss)}
                if len(seen) != 2 ** len(free):
                    f = ('enumeration', f'{len(seen)} of {2 ** len(free)} assignments of the polynomial variables returned',
                         f'assert len({{tuple(s[v] for v in {free!r}) for s in ss.samples()}}) == {2 ** len(free)}')
            if f is None and aux_ok and 'penalty_satisfaction' in ss.record.dtype.names:
                labels = list(ss.variables)
                for (u, v), ch in ss.info.get('reduction', {}).items():
                    p = ch['product']
                    for row, flag in zip(ss.record.sample, ss.record.penalty_satisfaction):
                        x = dict(zip(labels, row))
                        if f is None and bool(flag) and x[u] * x[v] != x[p]:
                            f = ('column labels', f'row flagged as satisfying the penalties has {p!r}={x[p]} but {u!r}*{v!r}={x[u] * x[v]}',
                                 f'for s, f in zip(ss.samples(sorted_by=None), ss.record.penalty_satisfaction):\n    assert not f or s[{u!r}] * s[{v!r}] == s[{p!r}], dict(s)')
            return (f, ss, call, info)

        # evaluate the stack from the innermost layer outwards: the first layer at which the predicate fails is the site
        fail = None
        for depth in range(len(layers)):
            fail, ss, call, info = run_stack(depth)
            if fail is not None or info.get('refused'):
                break
        names = [l[0] for l in layers]
        if fail is None and info.get('refused'):
            # scalar=0: refused by the PolyScale layer; the model refuses the same call (`pcomp … → err value`)
            ctx.tick('poly:scalar=0 refused (ValueError)'); ctx.tick('stack:' + '>'.join(reversed(info['names'])) + ' [refused]')
            ctx.case((pi, base, entry, prob.vartype, n, 'scalar=0 refused', tuple(info['names'])), nontrivial=n > 0)
            kw = info['kw']
            if not any(len(k) == 0 for k in kw.get('ignored_terms', [])):
                ign = '|'.join('&'.join(lab(v) for v in k) for k in kw.get('ignored_terms', []))
                corr.add(f"pcomp {int(prob.spin)} 0 1 - ; {ign or '-'} ; {prob.wire()}", 'err value', 'PolyScaleComposite.sample_poly', call)
            continue
        ctx.tick(f'poly:{base}:{entry}'); ctx.tick('stack:' + '>'.join(reversed(names)))
        ctx.case((pi, base, entry, prob.vartype, n, repr(sorted(info.get('kw', {}).items(), key=repr)), tuple(names)), nontrivial=n > 0,
                 sample=dict(call=call, problem=src[:300]) if pi % 50 == 9 else None)
        if fail is not None:
            ic, what, assertion = fail
            ctx.fail('property', info['site'], ic, what, repro=PRE + src + f'ss = {call}\n' + assertion + '\n', detail=dict(call=call))
            continue
        # ---- model correspondence (full stack)
        rows = rows_of(ss)
        kw, fixed, free = info['kw'], info['fixed'], info['free']
        if base == 'exactpoly' and not info['trunc'] and n > 0:
            exp = '|'.join(sorted(','.join(sorted(f'{lab(v)}={rat(x[v])}' for v in x)) + '@' + rat(e) for x, e in rows))
            if fixed is not None and 'PolyScaleComposite' not in names and len(free) > 0:
                corr.add(f"pfixed {int(prob.spin)} 1 ; {prob.wire()} ; " + ','.join(f'{lab(v)}={rat(x)}' for v, x in fixed.items()), exp, info['site'], call)
            elif 'scalar' in kw and fixed is None:
                ign = '|'.join('&'.join(lab(v) for v in k) if k else '' for k in kw.get('ignored_terms', []))
                if not any(len(k) == 0 for k in kw.get('ignored_terms', [])):
                    corr.add(f"pscale {int(prob.spin)} {rat(F(kw['scalar']))} ; {ign or '-'} ; {prob.wire()}", exp, info['site'], call)
                    corr.add(f"pcomp {int(prob.spin)} {rat(F(kw['scalar']))} 1 - ; {ign or '-'} ; {prob.wire()}", 'ok ' + exp, info['site'], call)
    # fix_variables and polymorph_response called directly, against the model
    for pi in range(ctx.scale(1000, 15000)):
        prob = PolyProblem(r, nmax=5)
        n = len(prob.labels)
        fv = r.sample(prob.labels, r.randint(0, n))
        fixed = {v: r.choice(prob.domain(v)) for v in fv}
        if r.random() < .2:
            fixed['nowhere'] = 1
        out = hoc.fix_variables(prob.poly(), fixed)
        corr.add(f"fix 1 ; {prob.wire()} ; " + ','.join(f'{lab(v)}={rat(x)}' for v, x in fixed.items()), canon_poly_nz(out, prob), 'fix_variables', prob.src())
        ctx.case(('fix', pi, n, len(fixed))); ctx.tick('direct:fix_variables')
        # predicate: energy of the fixed polynomial at every assignment of the rest = energy of the original
        rest = [v for v in prob.labels if v not in fixed]
        for vals in itertools.product(*[prob.domain(v) for v in rest]):
            x = dict(zip(rest, map(F, vals)))
            got = sum(fr(b) * np.prod([x[v] for v in k] or [F(1)]) for k, b in out.items())
            want = prob.energy({**x, **{v: F(a) for v, a in fixed.items()}})
            if got != want:
                ctx.fail('property', 'fix_variables', 'constant term' if frozenset() in prob.terms else 'energy',
                         f'fixed polynomial gives {got} at {x}, the original with {fixed} gives {want}',
                         repro=PRE + prob.src() + 'from dimod.reference.composites.higherordercomposites import fix_variables\n'
                                                    f'p = fix_variables(POLY, {fixed!r})\nx = { {k: int(v) for k, v in x.items()}!r}\n'
                                                    f'assert F(float(p.energy(x))) == energy({{**x, **{fixed!r}}}), p\n')
                break
    for pi in range(ctx.scale(800, 12000)):
        prob = PolyProblem(r, nmax=5)
        if not prob.labels:
            continue
        strength = float(r.choice([1, 2, F(1, 2)]))
        bqm = make_quadratic(prob.poly(), strength, vartype=prob.vartype)
        child = dimod.ExactSolver().sample(bqm) if len(bqm) <= 7 else dimod.RandomSampler().sample(bqm, num_reads=8, seed=pi)
        if r.random() < .5:
            child = child.truncate(r.randint(1, 6), sorted_by=None)
        keep, discard = r.random() < .5, r.random() < .5
        rv = list(child.variables)
        rowsin = [list(map(int, row)) for row in child.record.sample]
        reds = [(u, v, ch['product']) for (u, v), ch in bqm.info['reduction'].items()]
        ss = hoc.polymorph_response(child, prob.poly(), bqm, penalty_strength=strength, keep_penalty_variables=keep, discard_unsatisfied=discard)
        line = (f'pm {int(keep)} {int(discard)} 0 ; ' + ','.join(map(lab, rv)) + ' ; ' + ','.join(map(lab, prob.poly().variables)) + ' ; ' +
                ','.join(map(lab, bqm.variables)) + ' ; ' + ','.join('&'.join(map(lab, t)) for t in reds) + ' ; ' + prob.wire() + ' ; ' +
                '|'.join('.'.join(map(str, row)) for row in rowsin))
        exp = ','.join(map(lab, ss.variables)) + ';' + '|'.join(
            '.'.join(str(int(x)) for x in row) + '@' + rat(fr(e)) + '@' + ('1' if f else '0')
            for row, e, f in zip(ss.record.sample, ss.record.energy, ss.record.penalty_satisfaction))
        corr.add(line, exp, 'polymorph_response', f'keep={keep} discard={discard} ' + prob.src())
        ctx.case(('pm', pi, keep, discard, len(rv))); ctx.tick('direct:polymorph_response')
        # predicate: each returned row, read by its labels, is one of the child's rows read by the child's labels
        child_rows = [dict(zip(rv, row)) for row in rowsin]
        labels = list(ss.variables)
        for row, e in zip(ss.record.sample, ss.record.energy):
            x = dict(zip(labels, map(int, row)))
            if not any(all(cr[v] == x[v] for v in labels) for cr in child_rows) or fr(e) != prob.energy({v: F(x[v]) for v in prob.labels}):
                ctx.fail('property', 'polymorph_response', 'column labels' if keep else 'energy',
                         f'returned row {x} (energy {e}) is not a row of the child response under the same labels / has the wrong energy',
                         repro=PRE + prob.src() + 'from dimod.higherorder.utils import make_quadratic\nfrom dimod.reference.composites.higherordercomposites import polymorph_response\n'
                                                    f'bqm = make_quadratic(POLY, {strength!r}, vartype=POLY.vartype)\nchild = dimod.ExactSolver().sample(bqm)\n'
                                                    f'ss = polymorph_response(child, POLY, bqm, keep_penalty_variables={keep}, discard_unsatisfied={discard})\n'
                                                    'for s, e in zip(ss.samples(sorted_by=None), ss.record.energy):\n    assert F(float(e)) == energy({k: F(int(v)) for k, v in s.items()}), (dict(s), e)\n')
                break


def canon_poly_nz(poly, prob):
    return '|'.join(sorted(f"{rat(fr(b))}@{'&'.join(sorted(lab(v) for v in k))}" for k, b in poly.items()))


class InitChild(dimod.Sampler):
    """test-only child that takes `initial_state` (no reference sampler does) and returns it as its one row"""
    properties = None
    parameters = None

    def __init__(self):
        self.properties = {}
        self.parameters = {'initial_state': []}

    def sample(self, bqm, initial_state=None, **kw):
        return dimod.SampleSet.from_samples_bqm(initial_state, bqm)


def section_initial_state(ctx, r, corr):
    """HigherOrderComposite(initial_state=...) / expand_initial_state"""
    for pi in range(ctx.scale(600, 10000)):
        prob = PolyProblem(r, nmax=5)
        if not prob.labels:
            continue
        strength = float(r.choice([1, 2, F(1, 2), 4]))
        poly = prob.poly()
        bqm = make_quadratic(poly, strength, vartype=prob.vartype)
        init = {v: r.choice(prob.domain(v)) for v in prob.labels}
        src = prob.src()
        full = hoc.expand_initial_state(bqm, dict(init))
        ctx.case(('expand', pi, prob.vartype, len(bqm.info['reduction']), tuple(init.values())), nontrivial=bool(bqm.info['reduction']))
        ctx.tick('direct:expand_initial_state' + (':spin-aux' if any('auxiliary' in ch for ch in bqm.info['reduction'].values()) else ''))
        reds = []
        okp = all(full[v] == init[v] for v in init) and set(full) == set(init) | {x for ch in bqm.info['reduction'].values() for x in ch.values()}
        for (u, v), ch in bqm.info['reduction'].items():
            p = ch['product']
            okp = okp and full[p] == full[u] * full[v]
            item = [lab(u), lab(v), lab(p)]
            if 'auxiliary' in ch:
                a = ch['auxiliary']
                cu, cv, cp = (fr(bqm.adj[a].get(k, 0)) for k in (u, v, p))
                en = full[u] * cu + full[v] * cv + full[p] * cp
                okp = okp and full[a] in (-1, 1) and en * full[a] <= -en * full[a]
                item += [lab(a), rat(cu), rat(cv), rat(cp)]
            reds.append('&'.join(item))
        if not okp:
            ctx.fail('property', 'expand_initial_state', prob.vartype, f'expanded state {full} of {init}: a product variable is not the product of its factors, or an auxiliary spin does not minimise its penalty',
                     repro=PRE + src + 'from dimod.higherorder.utils import make_quadratic\nfrom dimod.reference.composites.higherordercomposites import expand_initial_state\n'
                                        f'bqm = make_quadratic(POLY, {strength!r}, vartype=POLY.vartype)\nst = expand_initial_state(bqm, {init!r})\n'
                                        "assert all(st[ch['product']] == st[u] * st[v] for (u, v), ch in bqm.info['reduction'].items()), st\n")
            continue
        corr.add('expand ; ' + ','.join(reds) + ' ; ' + ','.join(f'{lab(v)}={x}' for v, x in init.items()),
                 ','.join(sorted(f'{lab(v)}={rat(F(int(x)))}' for v, x in full.items())), 'expand_initial_state', src)
        # through the composite: the one returned row is the initial state, penalties satisfied, true energy
        keep, discard = r.random() < .5, r.random() < .5
        call = f'dimod.HigherOrderComposite(InitChild()).sample_poly(POLY, initial_state={init!r}, penalty_strength={strength!r}, keep_penalty_variables={keep}, discard_unsatisfied={discard})'
        try:
            ss = dimod.HigherOrderComposite(InitChild()).sample_poly(poly, initial_state=dict(init), penalty_strength=strength,
                                                                      keep_penalty_variables=keep, discard_unsatisfied=discard)
        except Exception as e:  # noqa
            ctx.fail('property', 'HigherOrderComposite.sample_poly', f'initial_state {type(e).__name__}', f'{type(e).__name__}: {e}', detail=dict(call=call, problem=src))
            continue
        ctx.case(('hoc-init', pi, keep, discard), nontrivial=True); ctx.tick('poly:hoc:initial_state')
        aux = [v for v in ss.variables if v not in prob.labels] if keep else []
        f = predicate(ss, prob, prob.vartype + ' initial_state', aux=aux, fixed={v: F(x) for v, x in init.items()})
        if f is None and (len(ss) != 1 or not all(ss.record.penalty_satisfaction)):
            f = ('initial_state rows', f'{len(ss)} rows / penalty flags {list(ss.record.penalty_satisfaction)}: the expanded initial state satisfies every penalty',
                 'assert len(ss) == 1 and all(ss.record.penalty_satisfaction)')
        if f is not None:
            ic, what, assertion = f
            ctx.fail('property', 'HigherOrderComposite.sample_poly', ic, what, detail=dict(call=call, problem=src))


def wire_bqm(prob):
    return (','.join(f'{lab(v)}={rat(b)}' for v, b in prob.lin.items()) + ' ; ' +
            ','.join(f'{lab(u)}&{lab(v)}={rat(b)}' for (u, v), b in prob.quad.items()) + f' ; {rat(prob.off)}')


def rows_text(ss):
    """record rows in record order, values by label (sorted), with energy — the model's `showRow` form"""
    labels = list(ss.variables)
    return '|'.join(','.join(sorted(f'{lab(v)}={rat(fr(x))}' for v, x in zip(labels, row))) + '@' + rat(fr(e))
                    for row, e in zip(ss.record.sample, ss.record.energy))


def section_post(ctx, r, corr):
    """result assembly / row post-processing against the model: as_samples column order, parse_initial_states
    (vartype conversion, none / tile / random, num_reads), SA energies, aggregate + truncate, structure check"""
    for pi in range(ctx.scale(500, 8000)):
        prob = BqmProblem(r)
        while len(prob.labels) < 2:
            prob = BqmProblem(r)
        labels = list(prob.labels)
        n = len(labels)
        src = prob.src()
        bqm = prob.bqm()
        # -- as_samples: two dicts in different key orders -> the second row by the first row's labels
        o1, o2 = labels[:], labels[:]
        r.shuffle(o1); r.shuffle(o2)
        d1 = {v: r.choice(prob.domain(v)) for v in o1}
        d2 = {v: r.choice(prob.domain(v)) for v in o2}
        arr, lbls = dimod.as_samples([d1, d2])
        corr.add('reindex ; ' + ','.join(map(lab, lbls)) + ' ; ' + ','.join(map(lab, o2)) + ' ; ' + '.'.join(str(d2[v]) for v in o2),
                 '.'.join(str(int(x)) for x in arr[1]), 'as_samples', f'{[d1, d2]!r}')
        ctx.case(('reindex', pi, tuple(o1), tuple(o2)), nontrivial=o1 != o2); ctx.tick('direct:as_samples reindex')
        if {v: int(x) for v, x in zip(lbls, arr[1])} != d2:
            ctx.fail('property', 'as_samples', 'list of dicts with differing key order', f'second row read by label is {dict(zip(lbls, arr[1]))}, given {d2}',
                     repro=PRE + f'import dimod\narr, labels = dimod.as_samples({[d1, d2]!r})\nassert dict(zip(labels, map(int, arr[1]))) == {d2!r}\n')
        # -- IdentitySampler: generators and num_reads, states possibly of the other vartype
        m = r.randint(1, 4)
        other = r.random() < .3
        dom = ((0, 1) if prob.spin else (-1, 1)) if other else prob.domain(labels[0])
        order = labels[:]; r.shuffle(order)
        states = [[r.choice(dom) for _ in order] for _ in range(m)]
        flat = [x for row in states for x in row]
        ssp = '-' if all(x == 1 for x in flat) else ('B' if all(x in (0, 1) for x in flat) else 'S')
        gen = r.choice(['none', 'tile', 'tile', 'random'])
        nr = r.choice([None, r.randint(1, 7)])
        seed = r.randrange(1000)
        kw = dict(initial_states=(np.array(states, dtype=np.int8), list(order)), initial_states_generator=gen, seed=seed)
        if nr is not None:
            kw['num_reads'] = nr
        call = f'dimod.IdentitySampler().sample(BQM, initial_states=(np.array({states!r}, dtype=np.int8), {order!r}), initial_states_generator={gen!r}, seed={seed}' + (f', num_reads={nr})' if nr is not None else ')')
        try:
            ss = dimod.IdentitySampler().sample(bqm, **kw)
            got = 'ok ' + rows_text(ss)
        except ValueError:
            ss, got = None, 'err'
        fresh = '-'
        if ss is not None and gen == 'random':
            # the PRNG's rows are an input of the model: the rows beyond the given ones, in the given label order
            cols = [list(ss.variables).index(v) for v in order]
            fresh = '|'.join('.'.join(str(int(row[c])) for c in cols) for row in ss.record.sample[m:]) or '-'
        corr.add(f"pis {int(prob.spin)} {ssp} {gen} {'-' if nr is None else nr} ; " + ','.join(map(lab, order)) + ' ; ' +
                 '|'.join('.'.join(map(str, row)) for row in states) + f' ; {fresh} ; ' + wire_bqm(prob), got, 'Initialized.parse_initial_states', src + call)
        ctx.case(('pis', pi, gen, nr, m, ssp), nontrivial=True); ctx.tick(f'direct:parse_initial_states:{gen}' + (':raises' if ss is None else ''))
        if ss is not None:
            want_n = nr if nr is not None else m
            if len(ss) != want_n:
                ctx.fail('property', 'IdentitySampler.sample', f'num_reads ({gen})', f'{len(ss)} rows for num_reads={want_n}', repro=PRE + src + f'assert len({call}) == {want_n}\n')
            validate(ctx, ss, prob, 'IdentitySampler.sample', f'{gen} generator', src, call)
        # -- SimulatedAnnealingSampler: energies of the rows it ends in
        pyrandom.seed(seed)
        sa = dimod.SimulatedAnnealingSampler().sample(bqm, num_reads=r.randint(1, 3), num_sweeps=r.randint(2, 5))
        lbl = list(sa.variables)
        spins = '|'.join(','.join(f'{lab(v)}={int(x) if prob.spin else 2 * int(x) - 1}' for v, x in zip(lbl, row)) for row in sa.record.sample)
        corr.add(f'sa {int(prob.spin)} ; ' + wire_bqm(prob) + ' ; ' + spins, rows_text(sa), 'SimulatedAnnealingSampler.sample', src)
        ctx.case(('sa', pi), nontrivial=True); ctx.tick('direct:SA result assembly')
        # -- TruncateComposite over a child with repeated rows: aggregate + truncate
        reps = [r.choice(states) for _ in range(r.randint(2, 7))] if not other else None
        if reps is not None:
            tn, by, agg = r.randint(1, 6), r.random() < .5, r.random() < .5
            kwc = dict(initial_states=(np.array(reps, dtype=np.int8), list(order)))
            child = dimod.IdentitySampler().sample(bqm, **kwc)
            out = dimod.TruncateComposite(dimod.IdentitySampler(), tn, sorted_by='energy' if by else None, aggregate=agg).sample(bqm, **kwc)
            rec = lambda s_: [('.'.join(str(int(x)) for x in row), rat(fr(e)), int(o)) for row, e, o in zip(s_.record.sample, s_.record.energy, s_.record.num_occurrences)]  # noqa: E731
            line = f'trunc {tn} {int(by)} {int(agg)} ; ' + '|'.join('@'.join(map(str, t)) for t in rec(child))
            if by:      # argsort may order equal energies differently: compare the energy sequence here, rows by membership below
                corr.add(line + ' ; energies', '|'.join(t[1] for t in rec(out)), 'TruncateComposite.sample', src)
            else:
                corr.add(line, '|'.join('@'.join(map(str, t)) for t in rec(out)), 'TruncateComposite.sample', src)
            ctx.case(('trunc', pi, tn, by, agg, len(reps)), nontrivial=True); ctx.tick(f'direct:truncate by={by} agg={agg}')
            # predicate: rows are child rows; aggregated occurrences add up; count; lowest energies
            cvals = {}
            for v, e, o in rec(child):
                cvals.setdefault(v, [e, 0]); cvals[v][1] += o
            okp = len(out) == min(tn, len(cvals) if agg else len(child))
            for v, e, o in rec(out):
                okp = okp and v in cvals and cvals[v][0] == e and (o == cvals[v][1] if agg else True)
            if by:
                pool = sorted((F(e) for e, _ in cvals.values())) if agg else sorted(F(t[1]) for t in rec(child))
                okp = okp and [F(t[1]) for t in rec(out)] == pool[:len(out)]
            if not okp:
                ctx.fail('property', 'TruncateComposite.sample', f'sorted_by={"energy" if by else None} aggregate={agg}',
                         f'child rows {rec(child)} -> {rec(out)} for n={tn}', repro=PRE + src + f'# n={tn}\nassert False\n')
        # -- StructureComposite: accept exactly the bqms inside the structure
        nodes = [v for v in labels if r.random() < .85] + ['extra']
        edges = [(u, v) if r.random() < .5 else (v, u) for (u, v) in prob.quad if r.random() < .85]
        try:
            dimod.StructureComposite(dimod.ExactSolver(), nodes, edges).sample(bqm)
            acc = '1'
        except dimod.exceptions.BinaryQuadraticModelStructureError:
            acc = '0'
        except KeyError:
            acc = '0'      # an interaction with a variable outside the node list (only reachable after the node check fails)
        corr.add('struct ; ' + ','.join(map(lab, nodes)) + ' ; ' + ','.join(f'{lab(a)}&{lab(b)}' for a, b in edges) + ' ; ' +
                 ','.join(f'{lab(v)}={rat(b)}' for v, b in prob.lin.items()) + ' ; ' + ','.join(f'{lab(u)}&{lab(v)}={rat(b)}' for (u, v), b in prob.quad.items()),
                 acc, 'StructureComposite.sample', src + f'nodes={nodes!r} edges={edges!r}')
        inside = all(v in nodes for v in labels) and all((u, v) in edges or (v, u) in edges for (u, v) in prob.quad)
        ctx.case(('struct', pi, acc), nontrivial=True); ctx.tick('direct:structure ' + ('accepted' if acc == '1' else 'refused'))
        if (acc == '1') != inside:
            ctx.fail('property', 'StructureComposite.sample', 'structure check', f'bqm {"inside" if inside else "outside"} the structure was {"accepted" if acc == "1" else "refused"}',
                     repro=PRE + src + f'dimod.StructureComposite(dimod.ExactSolver(), {nodes!r}, {edges!r}).sample(BQM)\n')


# ------------------------------------------------------------------ section: stochastic samplers over explicit draws

class _FakeRandom:
    """stands in for the `random` module inside simulated_annealing.py: every draw comes from the harness PRNG and is
    recorded — `choice((-1, 1))` as an index, `uniform(0, 1)` (whose logarithm is what the code uses) as the value the
    stand-in for `math.log` returns next, attributed to the variable `v` it is drawn for (read from the caller's frame)"""

    def __init__(self, r, ldraw):
        self.r, self.ldraw = r, ldraw
        self.inits, self.acc, self.pending = [], [], None

    def choice(self, seq):
        i = self.r.randrange(len(seq))
        self.inits.append(i)
        return seq[i]

    def uniform(self, a, b):
        import sys
        self.pending = self.ldraw()
        self.acc.append((sys._getframe(1).f_locals.get('v', _FakeRandom), self.pending))
        return 0.5


class _FakeMath:
    def __init__(self, fr_):
        self.fr_ = fr_

    def log(self, x):
        return self.fr_.pending

    def __getattr__(self, name):
        import math
        return getattr(math, name)


class _FakeRandomState:
    """stands in for `np.random.RandomState` inside `_random_generator`: `choice(values, size)` = `values[index draws]`"""
    log = None
    rng = None

    def __init__(self, seed=None):
        pass

    def choice(self, values, size=None):
        n = int(np.prod(size))
        idx = [type(self).rng.randrange(len(values)) for _ in range(n)]
        type(self).log.extend(idx)
        return np.asarray(values)[np.asarray(idx, dtype=np.intp).reshape(size)]


def section_draws(ctx, r, corr):
    """SimulatedAnnealingSampler and RandomSampler with the pseudo-random generator replaced by recorded draws: the same
    draws go to the Lean state machines (`sarun`, `rnd`), whose rows must be the real ones; and every row is checked
    against the submitted problem (variables, domain, energy) independently"""
    from dimod.reference.samplers import simulated_annealing as sa_mod
    import math as real_math
    import random as real_random
    for pi in range(ctx.scale(700, 12000)):
        prob = BqmProblem(r)
        if pi % 7 and len(prob.labels) < 2:
            continue
        src = prob.src()
        bqm = prob.bqm(r.choice([None, None, np.float32]))
        h, J, _off = bqm.to_ising()
        # ---- SimulatedAnnealingSampler
        mode = r.choice(['given', 'given', 'default', 'default', 'refuse', 'one sweep'])
        kw = dict(num_reads=r.randint(1, 3))
        if mode == 'given':
            kw['beta_range'] = r.choice([(0.125, 2.0), (0.5, 4.0), (1.0, 1.0), (2.0, 0.25), [0.25, 8]])
            kw['num_sweeps'] = r.choice([2, 3, 5])           # (β1 - β0)/(n - 1) stays dyadic: the schedule is exact in floats
            ldraw = lambda: r.choice([0.0, -0.25, -0.5, -1.0, -2.0, -4.0, -8.0, -64.0, float(-r.randint(0, 96)) / 8])  # noqa: E731
        elif mode == 'default':
            kw['num_sweeps'] = r.randint(2, 5)
            # β0 = .1 is not dyadic: draws off every grid the thresholds can hit (odd multiples of 1/1024), so the float
            # comparison and the exact one never disagree
            ldraw = lambda: -(r.randint(0, 12 * 512) * 2 + 1) / 1024.0  # noqa: E731
        elif mode == 'one sweep':
            # `0 * (β1 - β0) / 0.`: ZeroDivisionError for Python floats, nan (no flips) for NumPy scalars — either is within the property
            kw['num_sweeps'] = 1
            if r.random() < .4:
                kw['beta_range'] = (0.5, 2.0)
            ldraw = lambda: r.choice([0.0, -1.0, -64.0])  # noqa: E731
        else:
            what = r.choice(['sweeps=0', 'sweeps<0', 'beta<=0', 'reads=0'])
            kw['num_sweeps'] = {'sweeps=0': 0, 'sweeps<0': -2}.get(what, 3)
            if what == 'beta<=0':
                kw['beta_range'] = r.choice([(0.0, 1.0), (1.0, -2.0)])
            elif r.random() < .5:
                kw['beta_range'] = (0.5, 2.0)
            if what == 'reads=0':
                kw['num_reads'] = 0
            ldraw = lambda: -1.0  # noqa: E731
        fake = _FakeRandom(r, ldraw)
        reads_log = []
        real_isa = sa_mod.ising_simulated_annealing

        def one_read(*a, **k):
            fake.inits, fake.acc = [], []
            try:
                return real_isa(*a, **k)
            finally:
                reads_log.append((fake.inits, fake.acc))
        sa_mod.random, sa_mod.math, sa_mod.ising_simulated_annealing = fake, _FakeMath(fake), one_read
        try:
            ss = dimod.SimulatedAnnealingSampler().sample(bqm, **kw)
            got = 'ok ' + rows_text(ss)
        except ValueError:
            ss, got = None, 'err value'
        except ZeroDivisionError:
            ss, got = None, 'err zerodiv'
        finally:
            sa_mod.random, sa_mod.math, sa_mod.ising_simulated_annealing = real_random, real_math, real_isa
        call = 'dimod.SimulatedAnnealingSampler().sample(BQM' + ''.join(f', {k}={v!r}' for k, v in kw.items()) + ')'
        ctx.tick(f'draws:SA {mode}' + ('' if ss is not None else ':' + got[4:]))
        ctx.case(('sa-draws', pi, mode, got[:40]), nontrivial=len(prob.labels) > 0)
        if mode == 'refuse' and ss is not None:
            ctx.fail('property', 'SimulatedAnnealingSampler.sample', 'invalid option accepted', f'{call} returned a sample set', repro=PRE + src + 'try:\n    ' + call + '\nexcept (ValueError, ZeroDivisionError):\n    pass\nelse:\n    raise AssertionError("accepted")\n')
        if mode not in ('refuse', 'one sweep') and ss is None:
            ctx.fail('property', 'SimulatedAnnealingSampler.sample', 'valid options refused', f'{call}: {got}', repro=PRE + src + call + '\n')
        if ss is not None:
            if len(ss) != kw['num_reads']:
                ctx.fail('property', 'SimulatedAnnealingSampler.sample', 'num_reads', f'{len(ss)} rows for num_reads={kw["num_reads"]}', repro=PRE + src + f'assert len({call}) == {kw["num_reads"]}\n')
            validate(ctx, ss, prob, 'SimulatedAnnealingSampler.sample', f'{prob.vartype} explicit draws ({mode} beta_range)', src, call)
        hk = list(h)
        if ss is not None and len(reads_log) == len(ss) and list(ss.variables) == hk:
            for (inits, _acc), row in zip(reads_log, ss.record.sample):
                final = [int(x) if prob.spin else 2 * int(x) - 1 for x in row]
                ctx.tick('draws:SA read ' + ('with a flipped spin' if final != [(-1, 1)[i] for i in inits] else 'ending in its initial guess'))
        reads_txt = []
        attributable = True
        for inits, acc in reads_log:
            ns = kw['num_sweeps']
            if len(inits) != len(hk) or len(acc) != len(hk) * max(ns, 0) or any(v is _FakeRandom for v, _ in acc):
                attributable = False
                break
            parts = [','.join(f'{lab(v)}={i}' for v, i in zip(hk, inits))]
            for k in range(ns):
                chunk = acc[k * len(hk):(k + 1) * len(hk)]
                if sorted(map(repr, (v for v, _ in chunk))) != sorted(map(repr, hk)):
                    attributable = False
                parts.append(','.join(f'{lab(v)}={rat(fr(x))}' for v, x in chunk))
            reads_txt.append('#'.join(parts))
        if ss is not None and not attributable:
            ctx.fail('correspondence', 'ising_simulated_annealing', 'draw pattern',
                     f'the draws are not one choice per variable and one uniform per variable and sweep: {[(len(a), len(b)) for a, b in reads_log]} for {len(hk)} variables, {kw}', detail=dict(case=src + call))
        elif ss is not None or not reads_log:
            if ss is None:          # refused before any draw: the model needs num_reads draw records to reach the same check
                reads_txt = ['#'.join([''] * (1 + max(kw['num_sweeps'], 0)))] * kw['num_reads']
            br = kw.get('beta_range')
            line = (f"sarun {int(prob.spin)} {kw['num_sweeps']} {'-' if br is None else rat(fr(br[0]))} {'-' if br is None else rat(fr(br[1]))} {int(bqm.dtype != object)} ; " + wire_bqm(prob) +
                    ' ; ' + ','.join(f'{lab(v)}={rat(fr(b))}' for v, b in h.items()) + ' ; ' + ','.join(f'{lab(u)}&{lab(v)}={rat(fr(b))}' for (u, v), b in J.items()) +
                    ' ; ' + '|'.join(reads_txt))
            corr.add(line, got, 'SimulatedAnnealingSampler.sample', src + call)
        # ---- RandomSampler
        nr = r.choice([0, 1, 1, 2, 3, 5])
        _FakeRandomState.log, _FakeRandomState.rng = [], r
        real_rs = np.random.RandomState
        np.random.RandomState = _FakeRandomState
        try:
            rs = dimod.RandomSampler().sample(bqm, num_reads=nr, seed=r.randrange(1000))
            got = 'ok ' + rows_text(rs)
        except ValueError:
            rs, got = None, 'err'
        finally:
            np.random.RandomState = real_rs
        call = f'dimod.RandomSampler().sample(BQM, num_reads={nr})'
        ctx.tick('draws:Random' + ('' if rs is not None else ':refused'))
        ctx.case(('rnd-draws', pi, nr, got[:40]), nontrivial=len(prob.labels) > 0 and nr > 0)
        if (rs is None) != (nr < 1):
            ctx.fail('property', 'RandomSampler.sample', 'num_reads', f'{call}: {"refused" if rs is None else "accepted"}', repro=PRE + src + (call + '\n' if nr >= 1 else 'try:\n    ' + call + '\nexcept ValueError:\n    pass\nelse:\n    raise AssertionError("accepted")\n'))
        if rs is not None:
            if len(rs) != nr:
                ctx.fail('property', 'RandomSampler.sample', 'num_reads', f'{len(rs)} rows for num_reads={nr}', repro=PRE + src + f'assert len({call}) == {nr}\n')
            validate(ctx, rs, prob, 'RandomSampler.sample', f'{prob.vartype} explicit draws', src, call)
        corr.add(f'rnd {int(prob.spin)} {nr} ; ' + ','.join(map(lab, bqm.variables)) + ' ; ' + ('.'.join(map(str, _FakeRandomState.log)) or '-') + ' ; ' + wire_bqm(prob),
                 got, 'RandomSampler.sample', src + call)


# ------------------------------------------------------------------ section D: DQM and CQM exact solvers

def section_dqm(ctx, r, corr):
    for pi in range(ctx.scale(500, 8000)):
        n = r.choice([0, 1, 2, 2, 3, 3])
        labels = r.sample(LABELS, n)
        sizes = {v: r.randint(1, 3) for v in labels}
        dqm = dimod.DiscreteQuadraticModel()
        lin, quad = {}, {}
        for v in labels:
            dqm.add_variable(sizes[v], label=v)
            lin[v] = [dy(r) for _ in range(sizes[v])]
            dqm.set_linear(v, [float(b) for b in lin[v]])
        for u, v in itertools.combinations(labels, 2):
            if r.random() < .6:
                for cu in range(sizes[u]):
                    for cv in range(sizes[v]):
                        if r.random() < .6:
                            quad[(u, cu, v, cv)] = dy(r)
                            dqm.set_quadratic_case(u, cu, v, cv, float(quad[(u, cu, v, cv)]))
        ss = dimod.ExactDQMSolver().sample_dqm(dqm)

        class P:
            pass
        P.labels = labels
        P.domain = staticmethod(lambda v: tuple(range(sizes[v])))
        P.energy = staticmethod(lambda x: sum(lin[v][int(x[v])] for v in labels) + sum(b for (u, cu, v, cv), b in quad.items() if x[u] == cu and x[v] == cv))
        src = (f'SIZES, LIN, QUAD = {sizes!r}, { {v: [str(b) for b in bs] for v, bs in lin.items()}!r}, { {k: str(b) for k, b in quad.items()}!r}\n'
               'dqm = dimod.DiscreteQuadraticModel()\nfor v, k in SIZES.items():\n    dqm.add_variable(k, label=v); dqm.set_linear(v, [float(F(b)) for b in LIN[v]])\n'
               'for (u, cu, v, cv), b in QUAD.items():\n    dqm.set_quadratic_case(u, cu, v, cv, float(F(b)))\n'
               'def energy(x):\n    return sum(F(LIN[v][int(x[v])]) for v in SIZES) + sum(F(b) for (u, cu, v, cv), b in QUAD.items() if x[u] == cu and x[v] == cv)\n')
        ctx.case(('dqm', pi, n, tuple(sizes.values())), nontrivial=n > 0); ctx.tick('ExactDQMSolver.sample_dqm')
        validate(ctx, ss, P, 'ExactDQMSolver.sample_dqm', f'n={n}', src, 'dimod.ExactDQMSolver().sample_dqm(dqm)', exact=labels if n else None)


def true_int_domain(lb, ub):
    lo = -(-lb.numerator // lb.denominator)                                                        # ceil
    hi = ub.numerator // ub.denominator                                                            # floor
    return tuple(range(lo, hi + 1))


def section_cqm(ctx, r, corr):
    for pi in range(ctx.scale(900, 15000)):
        cqm = dimod.ConstrainedQuadraticModel()
        n = r.choice([0, 1, 2, 2, 3, 3, 4])
        labels = r.sample(LABELS, n)
        kinds, doms, bounds = {}, {}, {}
        qms = {}
        src = 'cqm = dimod.ConstrainedQuadraticModel()\nV = {}\n'
        for v in labels:
            k = r.choice('BBSI II'.replace(' ', ''))
            kinds[v] = k
            if k == 'B':
                doms[v] = (0, 1); qms[v] = dimod.Binary(v); src += f'V[{v!r}] = dimod.Binary({v!r})\n'
            elif k == 'S':
                doms[v] = (-1, 1); qms[v] = dimod.Spin(v); src += f'V[{v!r}] = dimod.Spin({v!r})\n'
            else:
                lb = F(r.randint(-3, 2)); ub = lb + r.randint(0, 2)
                if r.random() < .5:
                    lb -= F(r.choice([1, 2, 3]), 4)
                if r.random() < .5:
                    ub += F(r.choice([1, 2, 3]), 4)
                bounds[v] = (lb, ub)
                doms[v] = true_int_domain(lb, ub)
                qms[v] = dimod.Integer(v, lower_bound=float(lb), upper_bound=float(ub))
                src += f'V[{v!r}] = dimod.Integer({v!r}, lower_bound={float(lb)!r}, upper_bound={float(ub)!r})\n'
        # discrete groups over fresh binary variables
        groups = []
        for gi in range(r.choice([0, 0, 1, 1, 2])):
            g = [f'd{gi}_{j}' for j in range(r.randint(2, 3))]
            groups.append(g)
            for v in g:
                kinds[v] = 'B'; doms[v] = (0, 1); qms[v] = dimod.Binary(v); src += f'V[{v!r}] = dimod.Binary({v!r})\n'
        allv = labels + [v for g in groups for v in g]
        lin = {v: dy(r) for v in allv if r.random() < .8}
        quad = {}
        for u, v in itertools.combinations(allv, 2):
            if r.random() < .35:
                quad[(u, v)] = dy(r)
        for v in allv:
            if kinds[v] == 'I' and r.random() < .3:
                quad[(v, v)] = dy(r)
        off = dy(r)
        objective = dimod.QuadraticModel()
        for v in allv:
            objective.update(0 * qms[v])
        for v, b in lin.items():
            objective.add_linear(v, float(b))
        for (u, v), b in quad.items():
            objective.add_quadratic(u, v, float(b))
        objective.offset = float(off)
        order_first = r.random() < .5
        if order_first:
            cqm.set_objective(objective)
        for g in groups:
            cqm.add_discrete(g, label='disc_' + g[0])
        cons = []
        for ci in range(r.choice([0, 1, 1, 2])):
            if not allv:
                break
            vs = r.sample(allv, r.randint(1, min(3, len(allv))))
            coef = {v: r.randint(-2, 3) for v in vs}
            sense, rhs = r.choice(['<=', '>=', '==']), r.randint(-2, 4)
            cons.append((coef, sense, rhs))
            cqm.add_constraint_from_model(sum(c * qms[v] for v, c in coef.items()), sense, rhs, label=f'c{ci}')
        if not order_first:
            cqm.set_objective(objective)
        src += (f'LIN, QUAD, OFF = { {v: str(b) for v, b in lin.items()}!r}, { {k: str(b) for k, b in quad.items()}!r}, {str(off)!r}\n'
                f'GROUPS, CONS = {groups!r}, {cons!r}\n'
                'obj = dimod.QuadraticModel()\nfor v in V:\n    obj.update(0 * V[v])\nfor v, b in LIN.items():\n    obj.add_linear(v, float(F(b)))\n'
                'for (u, v), b in QUAD.items():\n    obj.add_quadratic(u, v, float(F(b)))\nobj.offset = float(F(OFF))\ncqm.set_objective(obj)\n'
                'for g in GROUPS:\n    cqm.add_discrete(g)\nfor coef, sense, rhs in CONS:\n    cqm.add_constraint_from_iterable(list(coef.items()), sense, rhs=rhs)\n'
                'def energy(x):\n    return F(OFF) + sum(F(b) * x[v] for v, b in LIN.items()) + sum(F(b) * x[u] * x[v] for (u, v), b in QUAD.items())\n')
        if not len(cqm.variables):
            ss = dimod.ExactCQMSolver().sample_cqm(cqm)
            ctx.case(('cqm', pi, 0), nontrivial=False)
            continue
        try:
            ss = dimod.ExactCQMSolver().sample_cqm(cqm)
        except Exception as e:  # noqa
            ctx.fail('property', 'ExactCQMSolver.sample_cqm', f'{type(e).__name__}', f'{type(e).__name__}: {e}', repro=PRE + src + 'dimod.ExactCQMSolver().sample_cqm(cqm)\n')
            continue

        class P:
            pass
        P.labels = list(cqm.variables)
        P.domain = staticmethod(lambda v: doms[v])
        P.energy = staticmethod(lambda x: off + sum(b * x[v] for v, b in lin.items()) + sum(b * x[u] * x[v] for (u, v), b in quad.items()))
        frac = any(lb.denominator != 1 or ub.denominator != 1 for lb, ub in bounds.values())
        cls = 'fractional bound' if frac else 'integral bounds'
        ctx.case(('cqm', pi, n, len(groups), tuple(doms.values())), nontrivial=True); ctx.tick('ExactCQMSolver.sample_cqm' + (':discrete' if groups else ''))
        site = 'ExactCQMSolver.sample_cqm'
        if not validate(ctx, ss, P, site, cls, src, 'dimod.ExactCQMSolver().sample_cqm(cqm)'):
            continue
        # the search space: product of the domains, discrete groups one-hot, each exactly once
        rows = rows_of(ss)
        dvars = [v for g in groups for v in g]
        other = [v for v in P.labels if v not in dvars]
        want = set()
        for hot in itertools.product(*[range(len(g)) for g in groups]):
            d = {}
            for g, h in zip(groups, hot):
                for j, v in enumerate(g):
                    d[v] = int(j == h)
            for vals in itertools.product(*[doms[v] for v in other]):
                x = dict(d); x.update(zip(other, vals))
                want.add(tuple(x[v] for v in P.labels))
        got = [tuple(int(x[v]) for v in P.labels) for x, _ in rows]
        if sorted(got) != sorted(want):
            ctx.fail('property', site, 'enumeration ' + cls, f'{len(got)} rows ({len(set(got))} distinct), the search space has {len(want)} assignments',
                     repro=PRE + src + f'ss = dimod.ExactCQMSolver().sample_cqm(cqm)\nassert len(ss) == {len(want)} == len(ss.aggregate()), len(ss)\n')
            continue
        # lowest feasible row is a global optimum of the feasible set
        def feasible(x):
            for coef, sense, rhs in cons:
                a = sum(c * x[v] for v, c in coef.items())
                if not (a <= rhs if sense == '<=' else a >= rhs if sense == '>=' else a == rhs):
                    return False
            return True
        feas = [P.energy({v: F(a) for v, a in zip(P.labels, t)}) for t in want if feasible(dict(zip(P.labels, t)))]
        rep = [fr(e) for (x, e), f in zip(rows, ss.record.is_feasible) if f]
        if (min(feas) if feas else None) != (min(rep) if rep else None):
            ctx.fail('property', site, 'optimum', f'best feasible energy reported {min(rep) if rep else None}, true {min(feas) if feas else None}',
                     repro=PRE + src + 'ss = dimod.ExactCQMSolver().sample_cqm(cqm)\nassert False\n')
        # order against the model
        cases, order = es._all_cases_cqm(cqm)
        dsz = [len(g) for g in groups]
        o2 = [v for v in order if v not in dvars]
        line = f"cqm {','.join(map(str, dsz)) or '-'} ; " + (','.join('.'.join(map(str, doms[v])) for v in o2) or '-')
        corr.add(line, '|'.join('.'.join(str(int(x)) for x in row) for row in cases), '_all_cases_cqm', src)
        for v, (lb, ub) in bounds.items():
            corr.add(f'irange {rat(lb)} {rat(ub)}', ','.join(str(int(x)) for x in es._iterator_by_vartype(cqm, v)), '_iterator_by_vartype', f'{v!r}: [{lb}, {ub}]')


# ------------------------------------------------------------------ section R7: remaining branches of the polynomial composites

def _is_pow2(q):
    q = abs(F(q))
    return q != 0 and (q.numerator & (q.numerator - 1)) == 0 and (q.denominator & (q.denominator - 1)) == 0


def _rows_exp(rows):
    return '|'.join(sorted(','.join(sorted(f'{lab(v)}={rat(x[v])}' for v in x)) + '@' + rat(e) for x, e in rows))


def section_round7(ctx, r, corr):
    """PolyScaleComposite(scalar=None) = BinaryPolynomial.normalize + recovered scalar; PolyFixedVariableComposite with every
    branch (None / {} / part / all / more than all variables fixed x a child with and without rows); Truncate/PolyTruncate
    `__init__` with n < 1.  Real composites over real children; each answer against the submitted problem (predicate) and
    against the Lean model (`pnorm`, `pfull`, `tinit`)."""
    # ---- (a) PolyScaleComposite, scalar=None
    for pi in range(ctx.scale(600, 9000)):
        pow2 = r.random() < .5
        prob = PolyProblem(r, pow2=pow2)
        n = len(prob.labels)
        src = prob.src()
        keys = [k for k in prob.terms if len(k) > 0]
        ign = r.sample(keys, r.randint(1, min(2, len(keys)))) if keys and r.random() < .4 else []
        ign_const = bool(ign) and frozenset() in prob.terms and r.random() < .15
        live = {k: b for k, b in prob.terms.items() if k not in ign}
        L = max([abs(b) for k, b in live.items() if len(k) == 1] or [F(0)])
        P = max([abs(b) for k, b in live.items() if len(k) > 1] or [F(0)])
        mode = r.choice(['default', 'num', 'num', 'both', 'pair', 'pair', 'zero'])

        def one_range(M, kind):
            """a range whose relevant end makes the quotient a power of two: number or pair"""
            base = M if (M != 0 and not pow2) else F(1)
            R = base * r.choice([1, 2, 4, F(1, 2), F(1, 4)])
            if kind == 'num':
                return R * r.choice([1, 1, -1])
            if pow2:
                return r.choice([(-R, R), (-R, 2 * R), (-2 * R, R), (-R / 2, 4 * R), (R, -R), (2 * R, R)])
            return (-R, R)
        kw = {}
        zero = False
        if mode == 'default':
            pass
        elif mode == 'num':
            kw['bias_range'] = one_range(max(L, P), 'num')
        elif mode == 'both':
            kw['bias_range'] = one_range(L, r.choice(['num', 'pair']))
            kw['poly_range'] = one_range(P, r.choice(['num', 'pair']))
        elif mode == 'pair':
            kw['bias_range'] = one_range(max(L, P), 'pair')
        else:
            zero = True
            z = r.choice([0, (0, 1), (-1, 0), (0, 0)])
            if r.random() < .5:
                kw['bias_range'] = z
            else:
                kw['bias_range'] = r.choice([1, 2, (-1, 1)]); kw['poly_range'] = z
        # exactness guard (independent of the model): inv_scalar must be 0 or a power of two
        def ends(a):
            return (-abs(F(a)), abs(F(a))) if not isinstance(a, tuple) else (F(a[0]), F(a[1]))
        lr = ends(kw.get('bias_range', 1)); prg = ends(kw['poly_range']) if 'poly_range' in kw else lr
        if not zero:
            lmin = min([b for k, b in live.items() if len(k) == 1] + [F(0)]); lmax = max([b for k, b in live.items() if len(k) == 1] + [F(0)])
            pmin = min([b for k, b in live.items() if len(k) > 1] + [F(0)]); pmax = max([b for k, b in live.items() if len(k) > 1] + [F(0)])
            inv = max(lmin / lr[0], lmax / lr[1], pmin / prg[0], pmax / prg[1])
            if inv != 0 and not _is_pow2(inv):
                ctx.tick('r7:pnorm skipped (inexact)')
                continue
        fl = lambda a: tuple(float(x) for x in a) if isinstance(a, tuple) else float(a)  # noqa: E731
        kwf = {k: fl(v) for k, v in kw.items()}
        ignk = [tuple(k) for k in ign] + ([()] if ign_const else [])
        if ignk:
            kwf['ignored_terms'] = ignk
        call = 'dimod.PolyScaleComposite(dimod.ExactPolySolver()).sample_poly(POLY' + ''.join(f', {k}={v!r}' for k, v in kwf.items()) + ')'
        site = 'PolyScaleComposite.sample_poly'
        ctx.case(('pnorm', pi, n, mode, repr(sorted(kwf.items()))), nontrivial=n > 0 and bool(keys),
                 sample=dict(call=call, problem=src[:300]) if pi % 97 == 5 else None)
        ctx.tick(f'r7:pnorm {mode}' + (' ignored' if ignk else ''))
        try:
            ss = dimod.PolyScaleComposite(dimod.ExactPolySolver()).sample_poly(prob.poly(), **kwf)
            got = 'ok'
        except ZeroDivisionError:
            ss, got = None, 'err'
        except Exception as e:  # noqa
            ctx.fail('property', site, f'scalar=None {type(e).__name__}', f'{call}: {type(e).__name__}: {e}', repro=PRE + src + call + '\n')
            continue
        if (got == 'err') != zero:
            ctx.fail('property', site, 'scalar=None range end 0', f'{call}: {"refused" if got == "err" else "accepted"}',
                     repro=PRE + src + ('try:\n    ' + call + '\nexcept ZeroDivisionError:\n    pass\nelse:\n    raise AssertionError("accepted")\n' if zero else call + '\n'))
            continue
        if ss is not None:
            if not validate(ctx, ss, prob, site, f'scalar=None {prob.vartype} {mode}' + (' ignored_terms' if ignk else ''), src, call,
                            exact=prob.labels if n else None):
                continue
        if not ign_const:
            def rtxt(a):
                return f'{rat(F(a[0]))}:{rat(F(a[1]))}' if isinstance(a, tuple) else rat(F(a))
            line = (f"pnorm {int(prob.spin)} {rtxt(kw.get('bias_range', 1))} {rtxt(kw['poly_range']) if 'poly_range' in kw else '-'} ; "
                    + ('|'.join('&'.join(lab(v) for v in k) for k in ign) or '-') + f' ; {prob.wire()}')
            corr.add(line, 'err' if ss is None else 'ok ' + _rows_exp(rows_of(ss)), site, src + call)
    # ---- (b) PolyFixedVariableComposite, every branch
    for pi in range(ctx.scale(600, 9000)):
        prob = PolyProblem(r)
        n = len(prob.labels)
        src = prob.src()
        m = r.choice(['none', 'empty', 'part', 'part', 'part', 'part', 'all', 'more'])
        childk = r.choice(['exact', 'exact', 'null']) if m != 'part' else r.choice(['exact', 'null'])
        if m == 'none':
            fixed = None
        elif m == 'empty':
            fixed = {}
        elif m == 'part':
            fixed = {v: r.choice(prob.domain(v)) for v in r.sample(prob.labels, r.randint(0, n))}
        else:
            fixed = {v: r.choice(prob.domain(v)) for v in r.sample(prob.labels, n)}
            if m == 'more':
                fixed[r.choice(['nowhere', 77])] = r.choice(prob.domain(None))
        csrc = 'dimod.ExactPolySolver()' if childk == 'exact' else 'dimod.HigherOrderComposite(dimod.NullSampler())'
        child = dimod.ExactPolySolver() if childk == 'exact' else dimod.HigherOrderComposite(dimod.NullSampler())
        call = f'dimod.PolyFixedVariableComposite({csrc}).sample_poly(POLY, fixed_variables={fixed!r})'
        site = 'PolyFixedVariableComposite.sample_poly'
        free = [v for v in prob.labels if not (fixed and v in fixed)]
        branch = ('None' if fixed is None else 'child rows' if (childk == 'exact' and free) else
                  'no child rows, nothing fixed' if not fixed else 'no child rows, all fixed' if not free else 'no child rows, free variables remain')
        ctx.case(('pfull', pi, n, childk, m, repr(fixed)), nontrivial=n > 0, sample=dict(call=call, problem=src[:300]) if pi % 97 == 5 else None)
        ctx.tick(f'r7:pfull {branch}')
        try:
            ss = dimod.PolyFixedVariableComposite(child).sample_poly(prob.poly(), fixed_variables=None if fixed is None else dict(fixed))
        except Exception as e:  # noqa
            ctx.fail('property', site, f'{type(e).__name__} {branch}', f'{call}: {type(e).__name__}: {e}', repro=PRE + src + call + '\n')
            continue
        # predicate, independent of the model: number of rows of the branch, then every row against the submitted problem
        want_rows = (2 ** len(free) if (childk == 'exact' and free) else 1 if (fixed and not free) else 0)
        if len(ss) != want_rows:
            ctx.fail('property', site, f'number of rows ({branch})', f'{call}: {len(ss)} rows, expected {want_rows}',
                     repro=PRE + src + f'ss = {call}\nassert len(ss) == {want_rows}, len(ss)\n')
            continue
        extra = [v for v in (fixed or {}) if v not in prob.labels]
        fx = {v: F(x) for v, x in (fixed or {}).items()}
        if len(ss) or set(ss.variables) != set(prob.labels) | set(extra):
            if not validate(ctx, ss, prob, site, f'{prob.vartype} {branch}', src, call, aux=extra,
                            exact=free if (childk == 'exact' and free) else None, fixed=fx or None):
                continue
        corr.add(f"pfull {int(prob.spin)} {childk} {'none' if fixed is None else 'some'} ; {prob.wire()} ; "
                 + (','.join(f'{lab(v)}={rat(x)}' for v, x in (fixed or {}).items()) or '-'), _rows_exp(rows_of(ss)), site, src + call)
    # ---- (c) TruncateComposite / PolyTruncateComposite: n < 1 refused at construction, otherwise min(n, len) child rows in order
    for pi in range(ctx.scale(300, 4000)):
        prob = PolyProblem(r, nmax=3)
        if not prob.labels:
            continue
        tn, agg = r.randint(-2, 6), r.random() < .4
        poly = r.random() < .5
        src = prob.src()
        ctor = 'PolyTruncateComposite' if poly else 'TruncateComposite'
        inner = 'dimod.ExactPolySolver()' if poly else 'dimod.ExactSolver()'
        call = f'dimod.{ctor}({inner}, {tn}, sorted_by=None, aggregate={agg})'
        site = f'{ctor}.__init__'
        ctx.case(('tinit', pi, tn, agg, poly), nontrivial=True); ctx.tick(f'r7:tinit {ctor} ' + ('n<1' if tn < 1 else 'n>=1'))
        try:
            comp = getattr(dimod, ctor)(dimod.ExactPolySolver() if poly else dimod.ExactSolver(), tn, sorted_by=None, aggregate=agg)
            refused = False
        except ValueError:
            refused = True
        if refused != (tn < 1):
            ctx.fail('property', site, 'n < 1', f'{call}: {"refused" if refused else "accepted"}',
                     repro=PRE + (f'try:\n    {call}\nexcept ValueError:\n    pass\nelse:\n    raise AssertionError("accepted")\n' if tn < 1 else call + '\n'))
            continue
        rec = lambda s_: [('.'.join(str(int(x)) for x in row), rat(fr(e)), int(o)) for row, e, o in zip(s_.record.sample, s_.record.energy, s_.record.num_occurrences)]  # noqa: E731
        if poly:
            childss = dimod.ExactPolySolver().sample_poly(prob.poly())
            out = None if refused else comp.sample_poly(prob.poly())
        else:
            if any(len(k) > 2 for k in prob.terms) or prob.spin and False:
                continue
            lin = {next(iter(k)): float(b) for k, b in prob.terms.items() if len(k) == 1}
            quad = {tuple(k): float(b) for k, b in prob.terms.items() if len(k) == 2}
            bqm = BQM(lin, quad, float(prob.terms.get(frozenset(), 0)), prob.vartype)
            childss = dimod.ExactSolver().sample(bqm)
            out = None if refused else comp.sample(bqm)
        if out is not None:
            if len(out) != min(tn, len(childss)) or rec(out) != rec(childss)[:len(out)]:
                ctx.fail('property', f'{ctor}.sample' + ('_poly' if poly else ''), 'sorted_by=None', f'{call}: rows {rec(out)} of child rows {rec(childss)}',
                         repro=PRE + src + '# ' + call + '\nassert False\n')
                continue
        corr.add(f'tinit {tn} 0 {int(agg)} ; ' + '|'.join('@'.join(map(str, t)) for t in rec(childss)),
                 'err' if out is None else 'ok ' + '|'.join('@'.join(map(str, t)) for t in rec(out)), site, src + call)

    # ---- (d) ExactPolySolver.sample_poly / ExactSolver.sample as coded: rows in record order against `exactRows`
    def ordered(ss):
        labels = list(ss.variables)
        return '|'.join(','.join(sorted(f'{lab(v)}={rat(fr(x))}' for v, x in zip(labels, row))) + '@' + rat(fr(e))
                        for row, e in zip(ss.record.sample, ss.record.energy))
    for pi in range(ctx.scale(400, 6000)):
        # `vars` of the model = list(problem.variables) of the very object handed to the solver (the gray-code column order);
        # the sample set may present its columns in another (sorted) order, so rows are compared by label
        if r.random() < .5:
            prob = PolyProblem(r)
            obj = prob.poly()
            ss = dimod.ExactPolySolver().sample_poly(obj)
            call, site = 'dimod.ExactPolySolver().sample_poly(POLY)', 'ExactPolySolver.sample_poly'
            line = f"xsolve {int(prob.spin)} poly ; {','.join(lab(v) for v in obj.variables) or '-'} ; {prob.wire()}"
        else:
            prob = BqmProblem(r, nmax=4)
            obj = prob.bqm()
            ss = dimod.ExactSolver().sample(obj)
            call, site = 'dimod.ExactSolver().sample(BQM)', 'ExactSolver.sample'
            line = f"xsolve {int(prob.spin)} bqm ; {','.join(lab(v) for v in obj.variables) or '-'} ; " + wire_bqm(prob)
        n = len(prob.labels)
        ctx.case(('xsolve', pi, site, n), nontrivial=n > 0); ctx.tick(f'r7:xsolve {site}' + (' n=0' if n == 0 else ''))
        if not validate(ctx, ss, prob, site, f'{prob.vartype} as coded', prob.src(), call, exact=prob.labels if n else None):
            continue
        if n == 0 and len(ss) != 0:
            ctx.fail('property', site, 'no variables', f'{len(ss)} rows for a problem without variables', repro=PRE + prob.src() + f'assert len({call}) == 0\n')
            continue
        corr.add(line, ordered(ss), site, prob.src() + call)



# ------------------------------------------------------------------ section H: histories on ONE sampler object (r7d)

HIST_STACKS = [
    # (source, exact?, kwargs source)
    ('dimod.ExactSolver()', True, ''),
    ('dimod.RandomSampler()', False, 'num_reads=3, seed=5'),
    ('dimod.SimulatedAnnealingSampler()', False, 'num_reads=2, num_sweeps=3'),
    ('dimod.TruncateComposite(dimod.ExactSolver(), 3)', False, ''),
    ('dimod.TrackingComposite(dimod.ExactSolver())', True, ''),
    ('dimod.TrackingComposite(dimod.TruncateComposite(dimod.RandomSampler(), 2), copy=True)', False, 'num_reads=4'),
    ('dimod.StructureComposite(dimod.ExactSolver(), NODES, EDGES)', True, ''),
    ('dimod.NullSampler()', False, ''),
]
HIST_POLY_STACKS = [
    ('dimod.ExactPolySolver()', True, ''),
    ('dimod.HigherOrderComposite(dimod.ExactSolver())', False, ''),
    ('dimod.PolyScaleComposite(dimod.ExactPolySolver())', True, 'scalar=.5'),
    ('dimod.PolyTruncateComposite(dimod.ExactPolySolver(), 3)', False, ''),
    ('dimod.PolyFixedVariableComposite(dimod.ExactPolySolver())', True, 'fixed_variables={}'),
    ('dimod.PolySampler.sample_hising', None, ''),     # placeholder: entry chosen below
]


class _HistProb:
    """the CURRENT input of a history step as the oracle sees it (plain dicts of Fractions)"""

    def __init__(self, labels, lin, quad, off, spin):
        self.labels, self.lin, self.quad, self.off, self.spin = list(labels), dict(lin), dict(quad), off, spin

    def domain(self, v):
        return (-1, 1) if self.spin else (0, 1)

    def energy(self, x):
        return self.off + sum(b * x[v] for v, b in self.lin.items()) + sum(b * x[u] * x[v] for (u, v), b in self.quad.items())


def _hist_energy_src(prob):
    return (f'LIN, QUAD, OFF = { {v: str(b) for v, b in prob.lin.items()}!r}, { {k: str(b) for k, b in prob.quad.items()}!r}, {str(prob.off)!r}\n'
            'def energy(x):\n    return F(OFF) + sum(F(b) * x[v] for v, b in LIN.items()) + sum(F(b) * x[u] * x[v] for (u, v), b in QUAD.items())\n')


def section_histories(ctx, r, corr):
    """every entry point called several times on ONE sampler object, the input containers mutated IN PLACE between the calls
    (a bias value, a key replaced by another with the same number of entries, an entry added); each call's rows are checked
    against the CURRENT input.  Catches state kept on the sampler between calls (memoised conversions, stale structure, …)."""
    labels_pool = ['a', 'b', 'c', 'z', 0, 1, 5]
    for hi in range(ctx.scale(260, 4000)):
        entry = r.choice(['sample_ising', 'sample_ising', 'sample_qubo', 'sample_qubo', 'sample', 'sample_ising-list'])
        stack_src, exact, kwsrc = r.choice(HIST_STACKS)
        n = r.randint(1, 4)
        labels = list(range(n)) if entry == 'sample_ising-list' else r.sample(labels_pool, n)
        pairs = [(u, v) for i, u in enumerate(labels) for v in labels[i + 1:] if r.random() < .7]
        spin = entry.startswith('sample_ising') or (entry == 'sample' and r.random() < .5)
        ns = {'dimod': dimod, 'np': np, 'F': F, 'NODES': labels_pool + ['q', 'w', 2, 3]}
        lines = [f'NODES = {ns["NODES"]!r}', 'EDGES = [(u, v) for i, u in enumerate(NODES) for v in NODES[i + 1:]]', f'S = {stack_src}']
        lin = {v: dy(r) for v in labels}
        quad = {p: dy(r) for p in pairs}
        off = F(0)
        if entry == 'sample_ising':
            lines += [f'h = { {v: float(b) for v, b in lin.items()}!r}', f'J = { {k: float(b) for k, b in quad.items()}!r}']
            call = f'S.sample_ising(h, J{", " + kwsrc if kwsrc else ""})'
        elif entry == 'sample_ising-list':
            lines += [f'h = {[float(lin[v]) for v in labels]!r}', f'J = { {k: float(b) for k, b in quad.items()}!r}']
            call = f'S.sample_ising(h, J{", " + kwsrc if kwsrc else ""})'
        elif entry == 'sample_qubo':
            lines += [f'Q = { {**{(v, v): float(b) for v, b in lin.items()}, **{k: float(b) for k, b in quad.items()}}!r}']
            call = f'S.sample_qubo(Q{", " + kwsrc if kwsrc else ""})'
        else:
            off = dy(r)
            lines += [f'bqm = dimod.BinaryQuadraticModel({ {v: float(b) for v, b in lin.items()}!r}, { {k: float(b) for k, b in quad.items()}!r}, {float(off)!r}, {"SPIN" if spin else "BINARY"!r})']
            call = f'S.sample(bqm{", " + kwsrc if kwsrc else ""})'
        pyrandom.seed(r.randrange(10 ** 6))
        try:
            for ln in lines:
                exec(ln, ns)
        except Exception as e:  # noqa
            ctx.fail('property', stack_src, 'construction', f'{type(e).__name__}: {e}', repro=PRE + '\n'.join(lines) + '\n')
            continue
        nsteps = r.choice([2, 3, 3, 4])
        for step in range(nsteps):
            if step:
                # ---- mutate the very same containers in place
                kind = r.choice(['value', 'value', 'value', 'qvalue', 'swapkey', 'grow', 'offset'])
                free = [x for x in labels_pool + ['q', 'w'] if x not in labels]
                if kind == 'qvalue' and not quad:
                    kind = 'value'
                if kind in ('swapkey', 'grow') and (entry == 'sample_ising-list' or not free):
                    kind = 'value'
                if kind == 'offset' and entry != 'sample':
                    kind = 'value'
                if kind == 'value':
                    v = r.choice(labels)
                    nb = lin[v] + r.choice([F(1), F(-3, 2), F(5, 8), F(-7)])
                    lin[v] = nb
                    mut = {'sample_ising': f'h[{v!r}] = {float(nb)!r}', 'sample_ising-list': f'h[{v!r}] = {float(nb)!r}',
                           'sample_qubo': f'Q[({v!r}, {v!r})] = {float(nb)!r}', 'sample': f'bqm.set_linear({v!r}, {float(nb)!r})'}[entry]
                elif kind == 'qvalue':
                    k = r.choice(list(quad))
                    nb = quad[k] + r.choice([F(1), F(-3, 2), F(5, 8), F(-7)])
                    quad[k] = nb
                    mut = {'sample_ising': f'J[{k!r}] = {float(nb)!r}', 'sample_ising-list': f'J[{k!r}] = {float(nb)!r}',
                           'sample_qubo': f'Q[{k!r}] = {float(nb)!r}', 'sample': f'bqm.set_quadratic({k[0]!r}, {k[1]!r}, {float(nb)!r})'}[entry]
                elif kind == 'offset':
                    off = off + F(3, 2)
                    mut = f'bqm.offset = {float(off)!r}'
                elif kind == 'swapkey':
                    # one variable leaves, another comes: the same number of entries
                    old, newv = r.choice(labels), r.choice(free)
                    b = lin.pop(old)
                    lin[newv] = b
                    labels[labels.index(old)] = newv
                    quad = {tuple(newv if x == old else x for x in k): bb for k, bb in quad.items()}
                    if entry == 'sample_ising':
                        mut = (f'h[{newv!r}] = h.pop({old!r})\nfor k in [k for k in J if {old!r} in k]: J[tuple({newv!r} if x == {old!r} else x for x in k)] = J.pop(k)')
                    elif entry == 'sample_qubo':
                        mut = f'for k in [k for k in Q if {old!r} in k]: Q[tuple({newv!r} if x == {old!r} else x for x in k)] = Q.pop(k)'
                    else:
                        mut = f'bqm.relabel_variables({{{old!r}: {newv!r}}}, inplace=True)'
                else:
                    newv = r.choice(free)
                    nb = dy(r)
                    lin[newv] = nb
                    labels.append(newv)
                    mut = {'sample_ising': f'h[{newv!r}] = {float(nb)!r}', 'sample_qubo': f'Q[({newv!r}, {newv!r})] = {float(nb)!r}',
                           'sample': f'bqm.add_linear({newv!r}, {float(nb)!r})'}[entry]
                lines.append(mut)
                ctx.tick(f'history: in-place {kind} before call {step + 1}')
                try:
                    exec(mut, ns)
                except Exception as e:  # noqa
                    ctx.fail('property', 'history mutation', kind, f'{type(e).__name__}: {e}', repro=PRE + '\n'.join(lines) + '\n')
                    break
            lines.append('ss = ' + call)
            prob = _HistProb(labels, lin, quad, off, spin)
            site = stack_src.split('(')[0].replace('dimod.', '') + '.' + entry.split('-')[0]
            cls = 'first call' if step == 0 else f'same sampler object, input mutated in place ({kind})'
            ctx.tick(f'history: {entry} call {step + 1}')
            ctx.case(('history', stack_src, entry, tuple(lines)), nontrivial=True)
            try:
                exec('ss = ' + call, ns)
            except Exception as e:  # noqa
                ctx.fail('property', site, cls, f'{type(e).__name__}: {e}', repro=PRE + '\n'.join(lines) + '\n')
                break
            ss = ns['ss']
            if 'NullSampler' in stack_src:
                if len(ss) != 0 or set(ss.variables) != set(labels):
                    ctx.fail('property', site, cls, f'NullSampler returned {len(ss)} rows over {list(ss.variables)!r}',
                             repro=PRE + '\n'.join(lines) + f'\nassert len(ss) == 0 and set(ss.variables) == set({labels!r})\n')
                    break
                continue
            f = predicate(ss, prob, cls, exact=list(labels) if exact else None)
            if f is not None:
                ic, what, assertion = f
                ctx.fail('property', site, cls if ic == cls else cls + ': ' + ic, what,
                         repro=PRE + '\n'.join(lines) + '\n' + _hist_energy_src(prob) + assertion + '\n', detail=dict(history='\n'.join(lines)))
                break
    # ---- polynomial entry points: the polynomial / h, J objects mutated in place
    for hi in range(ctx.scale(120, 2000)):
        stack_src, exact, kwsrc = r.choice(HIST_POLY_STACKS[:5])
        entry = r.choice(['sample_poly', 'sample_hising', 'sample_hubo'])
        n = r.randint(1, 4)
        labels = r.sample(labels_pool, n)
        spin = entry == 'sample_hising' or (entry == 'sample_poly' and r.random() < .5)
        terms = {}
        for v in labels:
            if r.random() < .8:
                terms[(v,)] = dy(r)
        for k in (2, 3):
            for t in itertools.combinations(labels, k):
                if r.random() < .4:
                    terms[t] = dy(r)
        if not terms:
            terms[(labels[0],)] = F(1)
        ns = {'dimod': dimod, 'np': np, 'F': F, 'BinaryPolynomial': BinaryPolynomial}
        lines = [f'S = {stack_src}']
        kws = (', ' + kwsrc) if kwsrc else ''
        if entry == 'sample_poly':
            lines.append(f'poly = BinaryPolynomial({ {t: float(b) for t, b in terms.items()}!r}, {"SPIN" if spin else "BINARY"!r})')
            call = f'S.sample_poly(poly{kws})'
        elif entry == 'sample_hising':
            lines += [f'h = { {t[0]: float(b) for t, b in terms.items() if len(t) == 1}!r}', f'J = { {t: float(b) for t, b in terms.items() if len(t) > 1}!r}']
            call = f'S.sample_hising(h, J{kws})'
        else:
            lines.append(f'H = { {t: float(b) for t, b in terms.items()}!r}')
            call = f'S.sample_hubo(H{kws})'
        try:
            for ln in lines:
                exec(ln, ns)
        except Exception as e:  # noqa
            ctx.fail('property', stack_src, 'construction', f'{type(e).__name__}: {e}', repro=PRE + '\n'.join(lines) + '\n')
            continue
        for step in range(r.choice([2, 3])):
            if step:
                t = r.choice(list(terms))
                nb = terms[t] + r.choice([F(1), F(-3, 2), F(5, 8), F(-7)])
                terms[t] = nb
                if entry == 'sample_poly':
                    mut = f'poly[{t!r}] = {float(nb)!r}'
                elif entry == 'sample_hising':
                    mut = f'h[{t[0]!r}] = {float(nb)!r}' if len(t) == 1 else f'J[{t!r}] = {float(nb)!r}'
                else:
                    mut = f'H[{t!r}] = {float(nb)!r}'
                lines.append(mut)
                ctx.tick(f'history: in-place term value before {entry} call {step + 1}')
                exec(mut, ns)
            lines.append('ss = ' + call)
            site = stack_src.split('(')[0].replace('dimod.', '') + '.' + entry
            cls = 'first call' if step == 0 else 'same sampler object, input mutated in place (term value)'
            ctx.tick(f'history: {entry} call {step + 1}')
            ctx.case(('history', stack_src, entry, tuple(lines)), nontrivial=True)
            try:
                exec('ss = ' + call, ns)
            except Exception as e:  # noqa
                ctx.fail('property', site, cls, f'{type(e).__name__}: {e}', repro=PRE + '\n'.join(lines) + '\n')
                break
            ss = ns['ss']
            used = [v for v in labels if any(v in t for t in terms)]
            what = None
            if not set(used) <= set(ss.variables):
                what = f'variables {list(ss.variables)!r} do not cover the polynomial\'s {used!r}'
            else:
                dom = (-1, 1) if spin else (0, 1)
                for row, e in rows_of(ss):
                    x = {v: F(int(row[v])) for v in used}
                    w = F(0)
                    for t, b in terms.items():
                        pr = b
                        for v in t:
                            pr *= x[v]
                        w += pr
                    if any(x[v] not in dom for v in used):
                        what = f'value outside the domain {dom} in {dict(row)}'
                        break
                    if e != w:
                        what = f'row { {v: int(x[v]) for v in used} } reported with energy {e}, the submitted polynomial gives {w}'
                        break
                if what is None and exact and len(ss) != 2 ** len(set(ss.variables)):
                    what = f'{len(ss)} rows for {len(set(ss.variables))} variables'
            if what is not None:
                ctx.fail('property', site, cls, what,
                         repro=PRE + '\n'.join(lines) + f'\nTERMS = { {t: str(b) for t, b in terms.items()}!r}\n'
                         'import math\nfor row, e in ss.data(["sample", "energy"], sorted_by=None):\n'
                         '    w = sum(F(b) * math.prod(int(row[v]) for v in t) for t, b in TERMS.items())\n'
                         '    assert F(float(e)) == w, (dict(row), e, w)\n', detail=dict(history='\n'.join(lines)))
                break


# ------------------------------------------------------------------ section R8: histories over DQM / CQM models and initial_states

def _fl(b):
    return repr(float(b))


def section_histories_models(ctx, r, corr):
    """ONE ExactDQMSolver / ExactCQMSolver / IdentitySampler-stack object called 2-4 times; between the calls the very same
    model object (DQM, CQM) or the very same `initial_states` container (array, SampleSet, list of dicts) is mutated IN PLACE;
    every call's rows are checked against the CURRENT input: variables, domain, energy, per-row feasibility (CQM), whole
    search space and optimum (exact solvers), rows = the current initial states (IdentitySampler).  The history is a list of
    source lines that are exec'd, so the repro is the history itself."""
    pool = ['a', 'b', 'c', 'z', 0, 1, 5]
    # ---------------------------------------------------------------- (a) ExactDQMSolver
    for hi in range(ctx.scale(120, 2500)):
        n = r.randint(1, 3)
        labels = r.sample(pool, n)
        sizes = {v: r.randint(1, 3) for v in labels}
        lin = {v: [dy(r) for _ in range(sizes[v])] for v in labels}
        quad = {}
        lines = ['S = dimod.ExactDQMSolver()', 'dqm = dimod.DiscreteQuadraticModel()']
        for v in labels:
            lines.append(f'dqm.add_variable({sizes[v]}, label={v!r}); dqm.set_linear({v!r}, [{", ".join(_fl(b) for b in lin[v])}])')
        for u, v in itertools.combinations(labels, 2):
            if r.random() < .6:
                for cu in range(sizes[u]):
                    for cv in range(sizes[v]):
                        if r.random() < .6:
                            quad[(u, cu, v, cv)] = dy(r)
                            lines.append(f'dqm.set_quadratic_case({u!r}, {cu}, {v!r}, {cv}, {_fl(quad[(u, cu, v, cv)])})')
        ns = {'dimod': dimod, 'np': np, 'F': F}
        try:
            for ln in lines:
                exec(ln, ns)
        except Exception as e:  # noqa
            ctx.fail('property', 'DiscreteQuadraticModel', 'history construction', f'{type(e).__name__}: {e}', repro=PRE + '\n'.join(lines) + '\n')
            continue
        site = 'ExactDQMSolver.sample_dqm'
        for step in range(r.choice([2, 3, 3, 4])):
            kind = None
            if step:
                kind = r.choice(['linear case', 'linear case', 'quadratic case', 'new quadratic case', 'set_linear', 'add_variable', 'relabel'])
                free = [x for x in pool + ['q', 'w'] if x not in labels]
                qfree = [(u, cu, v, cv) for u, v in itertools.combinations(labels, 2) for cu in range(sizes[u]) for cv in range(sizes[v])
                         if (u, cu, v, cv) not in quad]
                if kind == 'quadratic case' and not quad:
                    kind = 'linear case'
                if kind == 'new quadratic case' and not qfree:
                    kind = 'linear case'
                if kind in ('add_variable', 'relabel') and (not free or len(labels) >= 4):
                    kind = 'linear case'
                if kind == 'linear case':
                    v = r.choice(labels); c = r.randrange(sizes[v])
                    lin[v][c] += r.choice([F(1), F(-3, 2), F(5, 8), F(-7)])
                    mut = f'dqm.set_linear_case({v!r}, {c}, {_fl(lin[v][c])})'
                elif kind == 'quadratic case':
                    k = r.choice(list(quad))
                    quad[k] += r.choice([F(1), F(-3, 2), F(5, 8), F(-7)])
                    mut = f'dqm.set_quadratic_case({k[0]!r}, {k[1]}, {k[2]!r}, {k[3]}, {_fl(quad[k])})'
                elif kind == 'new quadratic case':
                    k = r.choice(qfree)
                    quad[k] = dy(r)
                    mut = f'dqm.set_quadratic_case({k[0]!r}, {k[1]}, {k[2]!r}, {k[3]}, {_fl(quad[k])})'
                elif kind == 'set_linear':
                    v = r.choice(labels)
                    lin[v] = [dy(r) for _ in range(sizes[v])]
                    mut = f'dqm.set_linear({v!r}, [{", ".join(_fl(b) for b in lin[v])}])'
                elif kind == 'add_variable':
                    v = r.choice(free); k = r.randint(1, 3)
                    labels.append(v); sizes[v] = k; lin[v] = [dy(r) for _ in range(k)]
                    mut = f'dqm.add_variable({k}, label={v!r}); dqm.set_linear({v!r}, [{", ".join(_fl(b) for b in lin[v])}])'
                else:
                    old, newv = r.choice(labels), r.choice(free)
                    labels[labels.index(old)] = newv
                    sizes[newv] = sizes.pop(old); lin[newv] = lin.pop(old)
                    quad = {tuple(newv if (i % 2 == 0 and x == old) else x for i, x in enumerate(k)): b for k, b in quad.items()}
                    mut = f'dqm.relabel_variables({{{old!r}: {newv!r}}}, inplace=True)'
                lines.append(mut)
                ctx.tick(f'history(dqm): in-place {kind} before call {step + 1}')
                try:
                    exec(mut, ns)
                except Exception as e:  # noqa
                    ctx.fail('property', 'history mutation (dqm)', kind, f'{type(e).__name__}: {e}', repro=PRE + '\n'.join(lines) + '\n')
                    break
            lines.append('ss = S.sample_dqm(dqm)')
            cls = 'first call' if step == 0 else f'same solver object, model mutated in place ({kind})'
            ctx.tick(f'history(dqm): sample_dqm call {step + 1}')
            ctx.case(('history-dqm', tuple(lines)), nontrivial=True)
            try:
                exec('ss = S.sample_dqm(dqm)', ns)
            except Exception as e:  # noqa
                ctx.fail('property', site, cls, f'{type(e).__name__}: {e}', repro=PRE + '\n'.join(lines) + '\n')
                break
            cur = dict(labels=list(labels), sizes=dict(sizes), lin={v: list(b) for v, b in lin.items()}, quad=dict(quad))

            class P:
                pass
            P.labels = cur['labels']
            P.domain = staticmethod(lambda v, cur=cur: tuple(range(cur['sizes'][v])))
            P.energy = staticmethod(lambda x, cur=cur: sum(cur['lin'][v][int(x[v])] for v in cur['labels'])
                                    + sum(b for (u, cu, v, cv), b in cur['quad'].items() if x[u] == cu and x[v] == cv))
            f = predicate(ns['ss'], P, cls, exact=list(labels))
            if f is not None:
                ic, what, assertion = f
                esrc = (f'LIN, QUAD = { {v: [str(b) for b in bs] for v, bs in lin.items()}!r}, { {k: str(b) for k, b in quad.items()}!r}\n'
                        'def energy(x):\n    return sum(F(LIN[v][int(x[v])]) for v in LIN) + sum(F(b) for (u, cu, v, cv), b in QUAD.items() if x[u] == cu and x[v] == cv)\n')
                ctx.fail('property', site, cls if ic == cls else cls + ': ' + ic, what,
                         repro=PRE + '\n'.join(lines) + '\n' + esrc + assertion + '\n', detail=dict(history='\n'.join(lines)))
                break
    # ---------------------------------------------------------------- (b) ExactCQMSolver
    for hi in range(ctx.scale(160, 3000)):
        n = r.randint(1, 3)
        labels = r.sample(pool, n)
        kinds, bounds = {}, {}
        lines = ['S = dimod.ExactCQMSolver()', 'cqm = dimod.ConstrainedQuadraticModel()', 'obj = dimod.QuadraticModel()']

        def new_var(v):
            k = r.choice('BBSII')
            kinds[v] = k
            if k == 'I':
                lb = F(r.randint(-2, 1)); ub = lb + r.randint(0, 2)
                if r.random() < .4:
                    lb -= F(r.choice([1, 2, 3]), 4)
                if r.random() < .4:
                    ub += F(r.choice([1, 2, 3]), 4)
                bounds[v] = [lb, ub]
                return f'obj.add_variable("INTEGER", {v!r}, lower_bound={_fl(lb)}, upper_bound={_fl(ub)})'
            return f'obj.add_variable({"BINARY" if k == "B" else "SPIN"!r}, {v!r})'

        def dom(v):
            return (0, 1) if kinds[v] == 'B' else (-1, 1) if kinds[v] == 'S' else true_int_domain(*bounds[v])
        for v in labels:
            lines.append(new_var(v))
        lin = {v: dy(r) for v in labels if r.random() < .8}
        quad = {p: dy(r) for p in itertools.combinations(labels, 2) if r.random() < .5}
        for v in labels:
            if kinds[v] == 'I' and r.random() < .3:
                quad[(v, v)] = dy(r)
        off = dy(r)
        for v, b in lin.items():
            lines.append(f'obj.add_linear({v!r}, {_fl(b)})')
        for (u, v), b in quad.items():
            lines.append(f'obj.add_quadratic({u!r}, {v!r}, {_fl(b)})')
        lines += [f'obj.offset = {_fl(off)}', 'cqm.set_objective(obj)']
        groups = []
        if r.random() < .35:
            g = [f'd{j}' for j in range(r.randint(2, 3))]
            groups.append(g)
            for v in g:
                kinds[v] = 'B'
                if r.random() < .6:
                    lin[v] = dy(r)
            lines.append(f'cqm.add_discrete({g!r}, label="disc")')
            for v in g:
                if v in lin:
                    lines.append(f'cqm.objective.add_linear({v!r}, {_fl(lin[v])})')
            labels = labels + g
        cons = {}

        def new_con(ci):
            vs = r.sample(labels, r.randint(1, min(3, len(labels))))
            coef = {v: r.randint(-2, 3) for v in vs}
            sense, rhs = r.choice(['<=', '>=', '==']), r.randint(-2, 4)
            cons[f'c{ci}'] = [coef, sense, rhs, 0]
            return f'cqm.add_constraint_from_iterable({[(v, c) for v, c in coef.items()]!r}, {sense!r}, rhs={rhs}, label={"c%d" % ci!r})'
        ncon = 0
        for _ in range(r.choice([0, 1, 1, 2])):
            lines.append(new_con(ncon)); ncon += 1
        ns = {'dimod': dimod, 'np': np, 'F': F}
        try:
            for ln in lines:
                exec(ln, ns)
        except Exception as e:  # noqa
            ctx.fail('property', 'ConstrainedQuadraticModel', 'history construction', f'{type(e).__name__}: {e}', repro=PRE + '\n'.join(lines) + '\n')
            continue
        site = 'ExactCQMSolver.sample_cqm'
        for step in range(r.choice([2, 3, 3, 4])):
            kind = None
            if step:
                kind = r.choice(['objective linear', 'objective linear', 'objective quadratic', 'objective offset', 'add constraint',
                                 'remove constraint', 'constraint constant', 'constraint coefficient', 'bound', 'bound', 'add variable', 'relabel'])
                free = [x for x in pool + ['q', 'w'] if x not in labels]
                ints = [v for v in labels if kinds[v] == 'I']
                plain = [v for v in labels if not any(v in g for g in groups)]
                if kind == 'objective quadratic' and len(plain) < 2:
                    kind = 'objective linear'
                if kind in ('remove constraint', 'constraint constant', 'constraint coefficient') and not cons:
                    kind = 'add constraint'
                if kind == 'bound' and not ints:
                    kind = 'objective linear'
                if kind in ('add variable', 'relabel') and (not free or len(labels) >= 5):
                    kind = 'objective offset'
                if kind == 'objective linear':
                    v = r.choice(labels)
                    lin[v] = lin.get(v, F(0)) + r.choice([F(1), F(-3, 2), F(5, 8), F(-7)])
                    mut = f'cqm.objective.set_linear({v!r}, {_fl(lin[v])})'
                elif kind == 'objective quadratic':
                    u, v = r.sample(plain, 2)
                    k = (u, v) if (u, v) in quad else (v, u) if (v, u) in quad else (u, v)
                    if k in quad and r.random() < .25:
                        del quad[k]
                        mut = f'cqm.objective.remove_interaction({k[0]!r}, {k[1]!r})'
                    else:
                        d = r.choice([F(1), F(-3, 2), F(5, 8), F(-7)])          # the objective view has no set_quadratic: add the difference
                        quad[k] = quad.get(k, F(0)) + d
                        mut = f'cqm.objective.add_quadratic({k[0]!r}, {k[1]!r}, {_fl(d)})'
                elif kind == 'objective offset':
                    off += F(3, 2)
                    mut = f'cqm.objective.offset = {_fl(off)}'
                elif kind == 'add constraint':
                    mut = new_con(ncon); ncon += 1
                elif kind == 'remove constraint':
                    lbl = r.choice(list(cons)); del cons[lbl]
                    mut = f'cqm.remove_constraint({lbl!r})'
                elif kind == 'constraint constant':
                    # `cqm.constraints[label]` is a fresh Comparison: its `rhs` cannot be set in place; the constant of the lhs can
                    lbl = r.choice(list(cons)); cons[lbl][3] += r.choice([-2, -1, 1, 2])
                    mut = f'cqm.constraints[{lbl!r}].lhs.offset = {cons[lbl][3]}'
                elif kind == 'constraint coefficient':
                    lbl = r.choice(list(cons))
                    rest = [v for v in labels if v not in cons[lbl][0]]
                    if rest and r.random() < .4:
                        v = r.choice(rest); cons[lbl][0][v] = r.choice([-2, -1, 1, 2, 3])
                        mut = f'cqm.constraints[{lbl!r}].lhs.add_linear({v!r}, {cons[lbl][0][v]})'
                    else:
                        v = r.choice(list(cons[lbl][0]))
                        cons[lbl][0][v] += r.choice([-2, -1, 1, 2])
                        mut = f'cqm.constraints[{lbl!r}].lhs.set_linear({v!r}, {cons[lbl][0][v]})'
                elif kind == 'bound':
                    v = r.choice(ints); lb, ub = bounds[v]
                    lower = r.random() < .5
                    if lower:
                        lb = lb + r.choice([F(-1), F(-1, 2), F(1, 4), F(1)])
                    else:
                        ub = ub + r.choice([F(-1), F(-1, 4), F(1, 2), F(1)])
                    if not true_int_domain(lb, ub):          # the setters require an integer between the bounds: widen instead
                        lb, ub = (bounds[v][0] - 1, bounds[v][1]) if lower else (bounds[v][0], bounds[v][1] + 1)
                    bounds[v] = [lb, ub]
                    mut = f'cqm.set_lower_bound({v!r}, {_fl(lb)})' if lower else f'cqm.set_upper_bound({v!r}, {_fl(ub)})'
                elif kind == 'add variable':
                    v = r.choice(free)
                    decl = new_var(v).replace('obj.add_variable(', 'cqm.add_variable(', 1)
                    labels.append(v)
                    lin[v] = dy(r)
                    mut = decl + f'; cqm.objective.add_linear({v!r}, {_fl(lin[v])})'
                else:
                    old, newv = r.choice(plain or labels), r.choice(free)
                    if any(old in g for g in groups):
                        kind = 'objective offset'; off += F(3, 2); mut = f'cqm.objective.offset = {_fl(off)}'
                    else:
                        labels[labels.index(old)] = newv
                        kinds[newv] = kinds.pop(old)
                        if old in bounds:
                            bounds[newv] = bounds.pop(old)
                        if old in lin:
                            lin[newv] = lin.pop(old)
                        quad = {tuple(newv if x == old else x for x in k): b for k, b in quad.items()}
                        for c in cons.values():
                            if old in c[0]:
                                c[0] = {(newv if x == old else x): b for x, b in c[0].items()}
                        mut = f'cqm.relabel_variables({{{old!r}: {newv!r}}}, inplace=True)'
                lines.append(mut)
                ctx.tick(f'history(cqm): in-place {kind} before call {step + 1}')
                try:
                    exec(mut, ns)
                except Exception as e:  # noqa
                    ctx.fail('property', 'history mutation (cqm)', kind, f'{type(e).__name__}: {e}', repro=PRE + '\n'.join(lines) + '\n')
                    break
            lines.append('ss = S.sample_cqm(cqm)')
            cls = 'first call' if step == 0 else f'same solver object, model mutated in place ({kind})'
            ctx.tick(f'history(cqm): sample_cqm call {step + 1}')
            ctx.case(('history-cqm', tuple(lines)), nontrivial=True)
            try:
                exec('ss = S.sample_cqm(cqm)', ns)
            except Exception as e:  # noqa
                ctx.fail('property', site, cls, f'{type(e).__name__}: {e}', repro=PRE + '\n'.join(lines) + '\n')
                break
            ss = ns['ss']
            cur = dict(labels=list(labels), doms={v: dom(v) for v in labels}, lin=dict(lin), quad=dict(quad), off=off,
                       cons=[(dict(c[0]), c[1], c[2] - c[3]) for c in cons.values()])

            class P:
                pass
            P.labels = cur['labels']
            P.domain = staticmethod(lambda v, cur=cur: cur['doms'][v])
            P.energy = staticmethod(lambda x, cur=cur: cur['off'] + sum(b * x[v] for v, b in cur['lin'].items())
                                    + sum(b * x[u] * x[v] for (u, v), b in cur['quad'].items()))
            esrc = (f'LIN, QUAD, OFF, CONS = { {v: str(b) for v, b in lin.items()}!r}, { {k: str(b) for k, b in quad.items()}!r}, {str(off)!r}, {cur["cons"]!r}\n'
                    'def energy(x):\n    return F(OFF) + sum(F(b) * x[v] for v, b in LIN.items()) + sum(F(b) * x[u] * x[v] for (u, v), b in QUAD.items())\n'
                    'def feasible(x):\n    import operator as o\n    return all({"<=": o.le, ">=": o.ge, "==": o.eq}[s](sum(c * x[v] for v, c in coef.items()), rhs) for coef, s, rhs in CONS)\n')

            def report(ic, what, assertion):
                ctx.fail('property', site, cls if ic == cls else cls + ': ' + ic, what,
                         repro=PRE + '\n'.join(lines) + '\n' + esrc + assertion + '\n', detail=dict(history='\n'.join(lines)))
            f = predicate(ss, P, cls)
            if f is not None:
                report(*f)
                break
            # search space: product of the current domains, discrete groups one-hot, each assignment exactly once
            dvars = [v for g in groups for v in g]
            other = [v for v in labels if v not in dvars]
            want = []
            for hot in itertools.product(*[range(len(g)) for g in groups]):
                d = {v: int(j == h) for g, h in zip(groups, hot) for j, v in enumerate(g)}
                for vals in itertools.product(*[cur['doms'][v] for v in other]):
                    x = dict(d); x.update(zip(other, vals))
                    want.append(tuple(x[v] for v in labels))
            rows = rows_of(ss)
            got = [tuple(int(x[v]) for v in labels) for x, _ in rows]
            if sorted(got) != sorted(want):
                report('enumeration', f'{len(got)} rows ({len(set(got))} distinct), the current search space has {len(want)} assignments',
                       f'assert len(ss) == {len(want)} == len(ss.aggregate()), len(ss)')
                break

            def feasible(x):
                for coef, sense, rhs in cur['cons']:
                    a = sum(c * x[v] for v, c in coef.items())
                    if not (a <= rhs if sense == '<=' else a >= rhs if sense == '>=' else a == rhs):
                        return False
                return True
            bad = None
            for (x, e), fe in zip(rows, ss.record.is_feasible):
                if bool(fe) != feasible(x):
                    bad = (x, bool(fe))
                    break
            if bad is not None:
                report('feasibility', f'row { {v: int(a) for v, a in bad[0].items()} } reported is_feasible={bad[1]}, the current constraints say {not bad[1]}',
                       'for s, fe in zip(ss.samples(sorted_by=None), ss.record.is_feasible):\n    assert bool(fe) == feasible({k: int(v) for k, v in s.items()}), (dict(s), fe)')
                break
            feas = [P.energy({v: F(a) for v, a in zip(labels, t)}) for t in want if feasible(dict(zip(labels, t)))]
            rep = [e for (x, e), fe in zip(rows, ss.record.is_feasible) if fe]
            if (min(feas) if feas else None) != (min(rep) if rep else None):
                report('optimum', f'best feasible energy reported {min(rep) if rep else None}, true {min(feas) if feas else None}', 'assert False')
                break
    # ---------------------------------------------------------------- (c) initial_states containers mutated in place
    stacks = [('dimod.IdentitySampler()', None), ('dimod.IdentitySampler()', None),
              ('dimod.TrackingComposite(dimod.IdentitySampler())', None),
              ('dimod.TruncateComposite(dimod.IdentitySampler(), 2, sorted_by=None)', 2),
              ('dimod.StructureComposite(dimod.IdentitySampler(), NODES, EDGES)', None)]
    for hi in range(ctx.scale(260, 4000)):
        stack_src, trunc = r.choice(stacks)
        n = r.randint(1, 4)
        labels = r.sample(pool, n)
        spin = r.random() < .5
        lin = {v: dy(r) for v in labels}
        quad = {p: dy(r) for p in itertools.combinations(labels, 2) if r.random() < .6}
        off = dy(r)
        m = r.randint(1, 3)
        form = r.choice(['array', 'array', 'array-other-vartype', 'sampleset', 'dicts', 'int64 array'])
        sdom = (-1, 1) if spin else (0, 1)
        if form == 'array-other-vartype':
            sdom = (0, 1) if spin else (-1, 1)
        order = labels[:]; r.shuffle(order)
        states = [[r.choice(sdom) for _ in order] for _ in range(m)]
        gen = r.choice(['none', 'tile', 'tile'])
        nr = None if gen == 'none' else r.choice([None, r.randint(1, 5)])
        entry = r.choice(['sample', 'sample', 'sample_ising', 'sample_qubo'])
        if entry == 'sample_ising':
            spin = True
        elif entry == 'sample_qubo':
            spin = False
        if entry != 'sample':
            off = F(0)
            if form == 'array-other-vartype':
                form = 'array'
            sdom = (-1, 1) if spin else (0, 1)
            states = [[r.choice(sdom) for _ in order] for _ in range(m)]
        ns = {'dimod': dimod, 'np': np, 'F': F, 'NODES': pool + ['q', 'w']}
        lines = [f'NODES = {ns["NODES"]!r}', 'EDGES = [(u, v) for i, u in enumerate(NODES) for v in NODES[i + 1:]]', f'S = {stack_src}']
        vt = 'SPIN' if spin else 'BINARY'
        if entry == 'sample':
            lines.append(f'bqm = dimod.BinaryQuadraticModel({ {v: float(b) for v, b in lin.items()}!r}, { {k: float(b) for k, b in quad.items()}!r}, {float(off)!r}, {vt!r})')
            head = 'S.sample(bqm'
        elif entry == 'sample_ising':
            lines += [f'h = { {v: float(b) for v, b in lin.items()}!r}', f'J = { {k: float(b) for k, b in quad.items()}!r}']
            head = 'S.sample_ising(h, J'
        else:
            lines.append(f'Q = { {**{(v, v): float(b) for v, b in lin.items()}, **{k: float(b) for k, b in quad.items()}}!r}')
            head = 'S.sample_qubo(Q'
        if form in ('array', 'array-other-vartype'):
            lines.append(f'ARR = np.array({states!r}, dtype=np.int8); INIT = (ARR, {order!r})')
        elif form == 'int64 array':
            lines.append(f'ARR = np.array({states!r}, dtype=np.int64); INIT = (ARR, {order!r})')
        elif form == 'sampleset':
            svt = vt
            lines.append(f'INIT = dimod.SampleSet.from_samples((np.array({states!r}, dtype=np.int8), {order!r}), energy=[0] * {m}, vartype={svt!r}); ARR = INIT.record.sample')
        else:
            lines.append(f'INIT = {[dict(zip(order, row)) for row in states]!r}')
        call = head + f', initial_states=INIT, initial_states_generator={gen!r}' + (f', num_reads={nr}' if nr is not None else '') + ')'
        try:
            for ln in lines:
                exec(ln, ns)
        except Exception as e:  # noqa
            ctx.fail('property', stack_src, 'history construction', f'{type(e).__name__}: {e}', repro=PRE + '\n'.join(lines) + '\n')
            continue
        # column order of ARR for a SampleSet is the SampleSet's own (sorted) order
        cols = list(ns['INIT'].variables) if form == 'sampleset' else order
        if form == 'sampleset':
            states = [[row[order.index(v)] for v in cols] for row in states]
        site = stack_src.split('(')[0].replace('dimod.', '') + '.' + entry
        for step in range(r.choice([2, 3, 3, 4])):
            kind = None
            if step:
                kind = r.choice(['state value', 'state value', 'state row', 'bias'])
                if kind == 'state value':
                    i, j = r.randrange(m), r.randrange(n)
                    states[i][j] = [x for x in sdom if x != states[i][j]][0]
                    mut = f'INIT[{i}][{cols[j]!r}] = {states[i][j]}' if form == 'dicts' else f'ARR[{i}, {j}] = {states[i][j]}'
                elif kind == 'state row':
                    i = r.randrange(m)
                    states[i] = [r.choice(sdom) for _ in cols]
                    mut = (f'INIT[{i}].update({dict(zip(cols, states[i]))!r})' if form == 'dicts' else f'ARR[{i}, :] = {states[i]!r}')
                else:
                    v = r.choice(labels)
                    lin[v] += r.choice([F(1), F(-3, 2), F(5, 8), F(-7)])
                    mut = {'sample': f'bqm.set_linear({v!r}, {_fl(lin[v])})', 'sample_ising': f'h[{v!r}] = {_fl(lin[v])}',
                           'sample_qubo': f'Q[({v!r}, {v!r})] = {_fl(lin[v])}'}[entry]
                lines.append(mut)
                ctx.tick(f'history(initial_states): in-place {kind} before call {step + 1}')
                try:
                    exec(mut, ns)
                except Exception as e:  # noqa
                    ctx.fail('property', 'history mutation (initial_states)', f'{form}: {kind}', f'{type(e).__name__}: {e}', repro=PRE + '\n'.join(lines) + '\n')
                    break
            lines.append('ss = ' + call)
            cls = f'initial_states as {form}: ' + ('first call' if step == 0 else f'same sampler object, input mutated in place ({kind})')
            ctx.tick(f'history(initial_states): {form} call {step + 1}'); ctx.tick(f'history(initial_states): {entry} generator={gen}' + (' num_reads' if nr is not None else ''))
            ctx.case(('history-init', stack_src, tuple(lines)), nontrivial=True)
            try:
                exec('ss = ' + call, ns)
            except Exception as e:  # noqa
                ctx.fail('property', site, cls, f'{type(e).__name__}: {e}', repro=PRE + '\n'.join(lines) + '\n')
                break
            ss = ns['ss']
            prob = _HistProb(labels, lin, quad, off, spin)
            f = predicate(ss, prob, cls)
            if f is not None:
                ic, what, assertion = f
                ctx.fail('property', site, cls if ic == cls else cls + ': ' + ic, what,
                         repro=PRE + '\n'.join(lines) + '\n' + _hist_energy_src(prob) + assertion + '\n', detail=dict(history='\n'.join(lines)))
                break
            # the rows are the CURRENT initial states (converted to the problem's vartype), tiled / truncated to num_reads
            conv = (lambda x: x)
            if form == 'array-other-vartype':
                conv = (lambda x: 2 * x - 1) if spin else (lambda x: (x + 1) // 2)
            given = [tuple(conv(x) for x in row) for row in states]
            # an all-ones array has no vartype of its own (infer_vartype -> None): taken as the problem's vartype, no conversion
            if form == 'array-other-vartype' and all(x == 1 for row in states for x in row):
                given = [tuple(row) for row in states]
            total = nr if nr is not None else m
            wantrows = [given[i % m] for i in range(total)] if total > m else given[:total]
            if trunc is not None:
                wantrows = wantrows[:trunc]
            gotrows = [tuple(int(x[v]) for v in cols) for x, _ in rows_of(ss)]
            if gotrows != wantrows:
                ctx.fail('property', site, cls + ': rows', f'rows {gotrows} over {cols!r}, the current initial states give {wantrows}',
                         repro=PRE + '\n'.join(lines) + f'\ngot = [tuple(int(s[v]) for v in {cols!r}) for s in ss.samples(sorted_by=None)]\nassert got == {wantrows!r}, got\n',
                         detail=dict(history='\n'.join(lines)))
                break


class _IndexLabelled(dimod.Sampler):
    """a sampler that needs index labels: `sample` wrapped by `dimod.decorators.bqm_index_labels`"""
    properties = None
    parameters = None

    def __init__(self):
        self.properties, self.parameters = {}, {}

    @dimod.decorators.bqm_index_labels
    def sample(self, bqm, **kw):
        assert list(bqm.variables) == list(range(bqm.num_variables)), list(bqm.variables)
        return dimod.ExactSolver().sample(bqm)


def section_tracking_and_index(ctx, r, corr):
    """(d) TrackingComposite's log: ONE composite called 2-4 times (sample / sample_ising / sample_qubo, copy False/True), the
    input mutated in place between the calls: `output` after each call is the returned answer (rows, energies of the CURRENT
    problem), `outputs` grows by one per call and every EARLIER logged output still carries the energies of the problem of
    ITS call, `clear()` empties both logs, `input` / `output` before any call raise ValueError.
    (e) a sampler decorated with `bqm_index_labels` through all three entry points: rows over the problem's own labels."""
    pool = ['a', 'b', 'c', 'z', 0, 1, 5, ('t', 1)]
    for hi in range(ctx.scale(150, 2500)):
        copy = r.random() < .5
        entry = r.choice(['sample', 'sample_ising', 'sample_qubo'])
        n = r.randint(1, 4)
        labels = r.sample(pool, n)
        spin = entry == 'sample_ising' or (entry == 'sample' and r.random() < .5)
        lin = {v: dy(r) for v in labels}
        quad = {p: dy(r) for p in itertools.combinations(labels, 2) if r.random() < .6}
        off = dy(r) if entry == 'sample' else F(0)
        lines = [f'S = dimod.TrackingComposite(dimod.ExactSolver(), copy={copy})']
        if entry == 'sample':
            lines.append(f'bqm = dimod.BinaryQuadraticModel({ {v: float(b) for v, b in lin.items()}!r}, { {k: float(b) for k, b in quad.items()}!r}, {float(off)!r}, {"SPIN" if spin else "BINARY"!r})')
            call = 'S.sample(bqm)'
        elif entry == 'sample_ising':
            lines += [f'h = { {v: float(b) for v, b in lin.items()}!r}', f'J = { {k: float(b) for k, b in quad.items()}!r}']
            call = 'S.sample_ising(h, J)'
        else:
            lines.append(f'Q = { {**{(v, v): float(b) for v, b in lin.items()}, **{k: float(b) for k, b in quad.items()}}!r}')
            call = 'S.sample_qubo(Q)'
        ns = {'dimod': dimod, 'np': np, 'F': F}
        for ln in lines:
            exec(ln, ns)
        S = ns['S']
        site = f'TrackingComposite.{entry}'
        for acc in ('input', 'output'):
            try:
                getattr(S, acc)
                ctx.fail('property', f'TrackingComposite.{acc}', 'before any call', 'no ValueError', repro=PRE + '\n'.join(lines) + f'\nS.{acc}\n')
            except ValueError:
                pass
        snapshots = []
        ok = True
        nsteps = r.choice([2, 3, 4])
        for step in range(nsteps):
            kind = None
            if step:
                kind = 'value'
                v = r.choice(labels)
                lin[v] += r.choice([F(1), F(-3, 2), F(5, 8), F(-7)])
                mut = {'sample': f'bqm.set_linear({v!r}, {_fl(lin[v])})', 'sample_ising': f'h[{v!r}] = {_fl(lin[v])}',
                       'sample_qubo': f'Q[({v!r}, {v!r})] = {_fl(lin[v])}'}[entry]
                lines.append(mut); exec(mut, ns)
            lines.append('ss = ' + call)
            cls = f'copy={copy}: ' + ('first call' if step == 0 else 'same composite object, input mutated in place (value)')
            ctx.tick(f'tracking log: {entry} copy={copy} call {step + 1}')
            ctx.case(('tracking-log', tuple(lines)), nontrivial=True)
            try:
                exec('ss = ' + call, ns)
            except Exception as e:  # noqa
                ctx.fail('property', site, cls, f'{type(e).__name__}: {e}', repro=PRE + '\n'.join(lines) + '\n'); ok = False
                break
            prob = _HistProb(labels, lin, quad, off, spin)
            snapshots.append(prob)
            what = None
            if len(S.outputs) != step + 1 or len(S.inputs) != step + 1:
                what = f'{len(S.inputs)} inputs / {len(S.outputs)} outputs logged after {step + 1} calls'
            else:
                for j, (p_j, out_j) in enumerate(zip(snapshots, S.outputs)):
                    f = predicate(out_j, p_j, cls, exact=list(labels))
                    if f is not None:
                        what = f'logged output of call {j + 1} (read after call {step + 1}): {f[1]}'
                        break
                if what is None and _rows_exp(rows_of(S.output)) != _rows_exp(rows_of(ns['ss'])):
                    what = 'S.output differs from the returned sample set'
                if what is None and copy and S.output is ns['ss']:
                    what = 'copy=True but the logged output is the returned object'
                if what is None:
                    # the logged input is the submitted problem (of that call when copied, the live object otherwise)
                    inp = S.input
                    if entry == 'sample':
                        got = {v: fr(b) for v, b in inp['bqm'].linear.items()}
                    elif entry == 'sample_ising':
                        got = {v: fr(b) for v, b in inp['h'].items()}
                    else:
                        got = {v: fr(inp['Q'][(v, v)]) for v in labels}
                    if got != lin:
                        what = f'S.input holds linear biases {got}, submitted {lin}'
            if what is not None:
                ctx.fail('property', site, cls + ': log', what, repro=PRE + '\n'.join(lines) + '\n' + _hist_energy_src(prob) +
                         'for s, e in zip(S.output.samples(sorted_by=None), S.output.record.energy):\n    assert F(float(e)) == energy({k: F(int(v)) for k, v in s.items()}), (dict(s), e)\n'
                         f'assert len(S.outputs) == {step + 1} == len(S.inputs)\n', detail=dict(history='\n'.join(lines)))
                ok = False
                break
        if ok:
            # the whole history against the model: one TrackingComposite folded over the submitted problems
            corr.add(f"track {entry.replace('sample_', '')} {int(spin)} ; " + ' ; '.join(wire_bqm(p_j) for p_j in snapshots),
                     '#'.join([str(len(S.outputs))] + [_rows_exp(rows_of(o)) for o in S.outputs] + [_rows_exp(rows_of(S.output))]),
                     'TrackingComposite log', '\n'.join(lines))
        if ok and r.random() < .5:
            S.clear()
            ctx.tick('tracking log: clear')
            if S.inputs or S.outputs:
                ctx.fail('property', 'TrackingComposite.clear', f'copy={copy}', f'{len(S.inputs)} inputs / {len(S.outputs)} outputs left',
                         repro=PRE + '\n'.join(lines) + '\nS.clear()\nassert not S.inputs and not S.outputs\n')
    # ---- (e) bqm_index_labels
    for pi in range(ctx.scale(200, 3000)):
        prob = BqmProblem(r, nmax=4)
        entry = r.choice(['sample', 'sample_ising', 'sample_qubo'])
        src = prob.src()
        S = _IndexLabelled()
        pre = ('class S(dimod.Sampler):\n    properties = {}\n    parameters = {}\n    @dimod.decorators.bqm_index_labels\n'
               '    def sample(self, bqm, **kw):\n        assert list(bqm.variables) == list(range(bqm.num_variables))\n        return dimod.ExactSolver().sample(bqm)\n')
        if entry == 'sample':
            call = 'S().sample(BQM)'
            go = lambda: S.sample(prob.bqm())  # noqa: E731
        elif entry == 'sample_ising':
            prob.spin = True; prob.off = F(0); src = prob.src()
            h = {v: float(b) for v, b in prob.lin.items()}; J = {k: float(b) for k, b in prob.quad.items()}
            call = f'S().sample_ising({h!r}, {J!r})'
            go = lambda: S.sample_ising(h, J)  # noqa: E731
        else:
            prob.spin = False; prob.off = F(0); src = prob.src()
            Q = {**{(v, v): float(b) for v, b in prob.lin.items()}, **{k: float(b) for k, b in prob.quad.items()}}
            call = f'S().sample_qubo({Q!r})'
            go = lambda: S.sample_qubo(Q)  # noqa: E731
        ctx.case(('index-labels', pi, entry, prob.vartype, tuple(prob.labels)), nontrivial=len(prob.labels) > 0); ctx.tick(f'bqm_index_labels:{entry}')
        try:
            ss = go()
        except Exception as e:  # noqa
            ctx.fail('property', 'bqm_index_labels', f'{entry} {type(e).__name__}', f'{type(e).__name__}: {e}', repro=PRE + pre + src + call + '\n')
            continue
        validate(ctx, ss, prob, 'bqm_index_labels', f'{entry} {prob.vartype}', pre + src, call, exact=prob.labels if prob.labels else None)


def section_hoc_initial_state_history(ctx, r, corr):
    """ONE HigherOrderComposite(child taking `initial_state`) called 2-3 times; between the calls the very same `initial_state`
    dict (a value flipped) or the very same polynomial (a term value) is mutated in place: the one returned row is the CURRENT
    initial state with the CURRENT polynomial's energy, penalties satisfied."""
    import inspect
    child_src = inspect.getsource(InitChild)
    pool = ['a', 'b', 'c', 'z', 0, 1, 5]
    for hi in range(ctx.scale(120, 2000)):
        n = r.randint(2, 4)
        labels = r.sample(pool, n)
        spin = r.random() < .5
        dom = (-1, 1) if spin else (0, 1)
        terms = {(v,): dy(r) for v in labels if r.random() < .8}
        for k in (2, 3):
            for t in itertools.combinations(labels, k):
                if r.random() < .5:
                    terms[t] = dy(r)
        for v in labels:
            if not any(v in t for t in terms):
                terms[(v,)] = F(1)
        init = {v: r.choice(dom) for v in labels}
        strength = float(r.choice([1, 2, F(1, 2), 4]))
        keep = r.random() < .5
        lines = ['S = dimod.HigherOrderComposite(InitChild())',
                 f'poly = BinaryPolynomial({ {t: float(b) for t, b in terms.items()}!r}, {"SPIN" if spin else "BINARY"!r})',
                 f'INIT = {init!r}']
        call = f'S.sample_poly(poly, initial_state=INIT, penalty_strength={strength!r}, keep_penalty_variables={keep})'
        ns = {'dimod': dimod, 'np': np, 'F': F, 'BinaryPolynomial': BinaryPolynomial, 'InitChild': InitChild}
        for ln in lines:
            exec(ln, ns)
        for step in range(r.choice([2, 3, 3])):
            kind = None
            if step:
                kind = r.choice(['initial_state value', 'initial_state value', 'term value'])
                if kind == 'term value':
                    t = r.choice(list(terms))
                    terms[t] += r.choice([F(1), F(-3, 2), F(5, 8), F(-7)])
                    mut = f'poly[{t!r}] = {_fl(terms[t])}'
                else:
                    v = r.choice(labels)
                    init[v] = [x for x in dom if x != init[v]][0]
                    mut = f'INIT[{v!r}] = {init[v]}'
                lines.append(mut); exec(mut, ns)
                ctx.tick(f'history(hoc initial_state): in-place {kind} before call {step + 1}')
            lines.append('ss = ' + call)
            cls = 'initial_state: ' + ('first call' if step == 0 else f'same composite object, input mutated in place ({kind})')
            ctx.case(('history-hoc-init', tuple(lines)), nontrivial=True); ctx.tick(f'history(hoc initial_state): call {step + 1}')
            site = 'HigherOrderComposite.sample_poly'
            repro_head = PRE + child_src + '\n' + '\n'.join(lines) + '\n'
            try:
                exec('ss = ' + call, ns)
            except Exception as e:  # noqa
                ctx.fail('property', site, cls, f'{type(e).__name__}: {e}', repro=repro_head)
                break
            ss = ns['ss']

            class P:
                pass
            cur = dict(terms)
            P.labels = list(labels)
            P.domain = staticmethod(lambda v: dom)

            def energy(x, cur=cur):
                tot = F(0)
                for t, b in cur.items():
                    pr = b
                    for v in t:
                        pr *= x[v]
                    tot += pr
                return tot
            P.energy = staticmethod(energy)
            aux = [v for v in ss.variables if v not in labels] if keep else []
            f = predicate(ss, P, cls, aux=aux, fixed={v: F(x) for v, x in init.items()})
            if f is None and (len(ss) != 1 or not all(ss.record.penalty_satisfaction)):
                f = (cls + ': rows', f'{len(ss)} rows / penalty flags {list(ss.record.penalty_satisfaction)}', 'assert len(ss) == 1 and all(ss.record.penalty_satisfaction)')
            if f is not None:
                ic, what, assertion = f
                ctx.fail('property', site, cls if ic == cls else cls + ': ' + ic, what,
                         repro=repro_head + f'TERMS = { {t: str(b) for t, b in terms.items()}!r}\nimport math\n'
                         'def energy(x):\n    return sum(F(b) * math.prod(x[v] for v in t) for t, b in TERMS.items())\n' + assertion + '\n',
                         detail=dict(history='\n'.join(lines)))
                break


def section_pcomp(ctx, r, corr):
    """PolyScaleComposite.sample_poly over the whole `scalar` axis (None, non-zero, and every spelling of zero: 0, 0.0, -0.0,
    False, numpy zeros) x ignored_terms x entry points: refused with ValueError exactly for a zero scalar — then the child is
    never called — otherwise every row carries the submitted polynomial's energy; outcome and rows against the total model
    (`pcomp` → polyScaleCompositeFull)."""
    zeros = [('0', 0), ('0.0', 0.0), ('-0.0', -0.0), ('False', False), ('np.float64(0)', np.float64(0)), ('np.int8(0)', np.int8(0))]
    nonzero = [2, 4, F(1, 2), F(1, 4), -1, -2, F(-1, 2)]

    class Counting(dimod.PolySampler):
        parameters = None
        properties = None

        def __init__(self):
            self.parameters, self.properties, self.calls = {}, {}, 0

        def sample_poly(self, poly, **kw):
            self.calls += 1
            return dimod.ExactPolySolver().sample_poly(poly)
    for pi in range(ctx.scale(400, 6000)):
        prob = PolyProblem(r, pow2=True)
        n = len(prob.labels)
        src = prob.src()
        mode = r.choice(['zero', 'zero', 'nonzero', 'nonzero', 'none'])
        keys = [k for k in prob.terms if len(k) > 0]
        ign = r.sample(keys, r.randint(1, min(2, len(keys)))) if keys and r.random() < .4 else []
        kw, kwsrc = {}, []
        if mode == 'zero':
            ztxt, z = r.choice(zeros)
            kw['scalar'] = z; kwsrc.append(f'scalar={ztxt}'); sc = '0'
        elif mode == 'nonzero':
            q = r.choice(nonzero)
            kw['scalar'] = float(q); kwsrc.append(f'scalar={float(q)!r}'); sc = rat(F(q))
        else:
            sc = '-'
        if ign:
            kw['ignored_terms'] = [tuple(k) for k in ign]; kwsrc.append(f'ignored_terms={kw["ignored_terms"]!r}')
        entry = r.choice(['sample_poly', 'sample_poly', 'sample_hising', 'sample_hubo'])
        if mode == 'none' or frozenset() in prob.terms and entry == 'sample_hising':
            entry = 'sample_poly'
        if entry == 'sample_hising' and not prob.spin or entry == 'sample_hubo' and prob.spin:
            entry = 'sample_poly'
        child = Counting()
        S = dimod.PolyScaleComposite(child)
        kws = ''.join(', ' + t for t in kwsrc)
        if entry == 'sample_poly':
            call = f'dimod.PolyScaleComposite(dimod.ExactPolySolver()).sample_poly(POLY{kws})'
            go = lambda: S.sample_poly(prob.poly(), **kw)  # noqa: E731
        elif entry == 'sample_hising':
            h = {next(iter(k)): float(b) for k, b in prob.terms.items() if len(k) == 1}
            J = {tuple(k): float(b) for k, b in prob.terms.items() if len(k) > 1}
            call = f'dimod.PolyScaleComposite(dimod.ExactPolySolver()).sample_hising({h!r}, {J!r}{kws})'
            go = lambda: S.sample_hising(h, J, **kw)  # noqa: E731
        else:
            H = {tuple(k): float(b) for k, b in prob.terms.items()}
            call = f'dimod.PolyScaleComposite(dimod.ExactPolySolver()).sample_hubo({H!r}{kws})'
            go = lambda: S.sample_hubo(H, **kw)  # noqa: E731
        site = 'PolyScaleComposite.sample_poly'
        ctx.case(('pcomp', pi, n, mode, entry, repr(kwsrc)), nontrivial=n > 0); ctx.tick(f'r8:pcomp {mode}' + (' ignored' if ign else '') + f' {entry}')
        import warnings
        try:
            with warnings.catch_warnings():
                warnings.simplefilter('ignore')
                ss = go()
            got = 'ok'
        except ValueError as e:
            ss, got = None, 'err value'
            if mode != 'zero' or innermost_dimod_frame(e) != 'sample_poly':
                ctx.fail('property', site, f'scalar {mode} ValueError', f'{call}: ValueError: {e}', repro=PRE + src + call + '\n')
                continue
        except Exception as e:  # noqa
            ctx.fail('property', site, f'scalar {mode} {type(e).__name__}', f'{call}: {type(e).__name__}: {e}', repro=PRE + src + call + '\n')
            continue
        if mode == 'zero':
            if ss is None:
                ctx.tick('r8:pcomp zero refused')
                if child.calls:
                    ctx.fail('property', site, 'scalar=0 refused after the child was called', f'{call}: child called {child.calls} time(s) before the refusal',
                             repro=PRE + src + 'assert False\n')
            else:
                # accepted: then every row must still carry the submitted polynomial's energy (nan is not it)
                fin = np.isfinite(ss.record.energy)
                if not fin.all():
                    i = int(np.flatnonzero(~fin)[0])
                    row = dict(zip(ss.variables, map(int, ss.record.sample[i])))
                    ctx.fail('property', site, 'energy', f'scalar=0 accepted: row {row} reported with energy {ss.record.energy[i]!r}, the submitted problem gives '
                             f'{prob.energy({v: F(row[v]) for v in prob.labels})}',
                             repro=PRE + src + 'import warnings, math\nwarnings.simplefilter("ignore")\ntry:\n    ss = ' + call + '\nexcept ValueError:\n    raise SystemExit(0)\n'
                             'assert all(math.isfinite(e) for e in ss.record.energy), list(ss.record.energy)\n')
                    continue
        if ss is not None:
            if child.calls != 1:
                ctx.fail('property', site, 'child calls', f'{call}: the child was called {child.calls} times', repro=PRE + src + 'assert False\n')
            if not validate(ctx, ss, prob, site, f'scalar {mode} {prob.vartype}' + (' ignored_terms' if ign else ''), src, call, exact=prob.labels if n else None):
                continue
        if n > 0 or ss is None:
            line = (f"pcomp {int(prob.spin)} {sc} 1 - ; " + ('|'.join('&'.join(lab(v) for v in k) for k in ign) or '-') + f' ; {prob.wire()}')
            corr.add(line, got if ss is None else 'ok ' + _rows_exp(rows_of(ss)), site, src + call)


def section_polyscale_zero(ctx):
    """PolyScaleComposite with scalar 0 (D73): refused, or every reported energy is the submitted polynomial's energy"""
    import warnings
    for vt in ('SPIN', 'BINARY'):
        for scalar in (0, 0.0):
            for ignored in (None, [('a', 'b')]):
                poly = dimod.BinaryPolynomial({('a',): 1, ('a', 'b'): -2, ('a', 'b', 'c'): .5, (): 1.5}, vt)
                kw = dict(scalar=scalar)
                if ignored is not None:
                    kw['ignored_terms'] = ignored
                ctx.case(('polyscale0', vt, repr(scalar), repr(ignored)), nontrivial=True)
                ctx.tick('polyscale scalar=0')
                try:
                    with warnings.catch_warnings():
                        warnings.simplefilter('ignore')
                        ss = dimod.PolyScaleComposite(dimod.ExactPolySolver()).sample_poly(poly, **kw)
                except ValueError:
                    ctx.tick('polyscale scalar=0 refused')
                    continue
                for smp, e in zip(ss.samples(sorted_by=None), ss.record.energy):
                    if not (e == poly.energy(dict(smp))):
                        ctx.fail('property', 'PolyScaleComposite.sample_poly', 'scalar=0',
                                 f'sample_poly(poly, {kw}) on a {vt} polynomial reports energy {e!r} for {dict(smp)}, the polynomial gives {poly.energy(dict(smp))!r}',
                                 repro=('import dimod, warnings\nwarnings.simplefilter("ignore")\n'
                                        f'p = dimod.BinaryPolynomial({{("a",): 1, ("a", "b"): -2, ("a", "b", "c"): .5, (): 1.5}}, {vt!r})\n'
                                        'try:\n    ss = dimod.PolyScaleComposite(dimod.ExactPolySolver()).sample_poly(p, ' + ', '.join(f'{k}={v!r}' for k, v in kw.items()) + ')\n'
                                        'except ValueError:\n    raise SystemExit(0)\n'
                                        'for s, e in zip(ss.samples(sorted_by=None), ss.record.energy):\n    assert e == p.energy(dict(s)), (dict(s), e)\n'))
                        break


def run(ctx):
    r = ctx.rng
    ctx.rule = ('random small problems (0-5 variables over mixed labels in non-sorted order, dyadic biases, constants, both vartypes) x '
                'sampler/composite stacks x entry points x option grids; a case = one returned sample set (or one direct call of a helper); '
                'non-trivial = the problem has variables; distinct by (problem, stack, entry, options)')
    corr = Corr()
    section_orders(ctx, r, corr)
    section_bqm(ctx, r, corr)
    section_poly(ctx, r, corr)
    section_initial_state(ctx, r, corr)
    section_post(ctx, r, corr)
    section_draws(ctx, r, corr)
    section_dqm(ctx, r, corr)
    section_cqm(ctx, r, corr)
    section_round7(ctx, r, corr)
    section_histories(ctx, r, corr)
    section_polyscale_zero(ctx)
    section_histories_models(ctx, r, corr)
    section_pcomp(ctx, r, corr)
    section_tracking_and_index(ctx, r, corr)
    section_hoc_initial_state_history(ctx, r, corr)
    got = run_driver('enumdriver', corr.lines)
    ctx.corr_lines += len(corr.lines)
    for i, ln in enumerate(corr.lines):
        g = got[i] if i < len(got) else 'MISSING'
        if g != corr.expect[i]:
            site, what = corr.meta[i]
            ctx.fail('correspondence', site, 'model vs implementation', f'`{ln[:300]}`: impl `{corr.expect[i][:300]}` model `{g[:300]}`', detail=dict(case=str(what)[:1500]))
