"""C03 — fixing a variable equals substituting its value everywhere.

(i)  correspondence with the Lean models (`DimodModel/Fix.lean`, driver `energydriver`): `abc.h::fix_variable` (`fix`),
     the generic Python path on the dict back-end (`lb … fix`), the CQM in-place path `substitute_variable(v,0,a)` +
     `remove_variable` (`cqmfix`), the copying path `fix_variables_expr` (`cqmfixcopy`) and the polynomial
     `fix_variables` of higherordercomposites (`polyfix`): the model's result equals the implementation's,
     coefficient for coefficient, on the same input.
(ii) property predicate on the real code, independent of the model: the result must be the original polynomial
     with the constant substituted for the variable (`GP.substitute` with (0, value), multiplied out) for the
     objective / the model and for every constraint's left-hand side; sense, right-hand side, weight, penalty and
     the constraint labels unchanged; remaining variables, their vartypes and bounds unchanged and in order; both
     CQM code paths give the same result; additionally every assignment of the remaining variables (n <= 4,
     INTEGER domain {-1, 0, 2}) is evaluated through the reported coefficients.
"""
import itertools
import textwrap
from fractions import Fraction

import numpy as np

import dimod
from dimod import (BinaryQuadraticModel as BQM, QuadraticModel as QM, ConstrainedQuadraticModel as CQM,  # noqa: F401
                   BinaryPolynomial, SampleSet)

from harness.common import lab, rat, run_driver
from harness.props.energy_common import (LABELS, Recipe, q8, F, fl, poly_value, rats, labs, qmb_tokens, parse_qmb, qmb_canon,
                                         model_canon, perm_of, exc_class, gen_bqm, gen_qm, edit_history)
from harness.props.c01 import Batch
from harness.props.c02 import GP, gen_cqm, cqm_tokens, cqm_canon_real, cqm_canon_tok, state_line

DOMS = {'SPIN': [-1, 1], 'BINARY': [0, 1], 'INTEGER': [-1, 0, 2], 'REAL': [-1.5, 0, 2]}


class Val(float):
    """a fix value that is handed to dimod as a NumPy scalar: behaves as its numeric value here, prints as its source"""

    def __new__(cls, x, src):
        o = float.__new__(cls, x)
        o.src = src
        return o

    def __repr__(self):
        return self.src

    __str__ = __repr__


def vrepr(a):
    return a.src if isinstance(a, Val) else fl(a)


# NumPy scalar types with magnitudes around the points where `value*value` leaves the type
NP_VALUES = [('np.int8', [11, 12, -12, 100, 127, -128]), ('np.uint8', [15, 16, 200, 255]),
             ('np.int16', [181, 182, -200, 32767]), ('np.int32', [46340, 46341, -46341, 65536]),
             ('np.int64', [46341, -65537, 1048577]), ('np.float32', [0.5, 12, -181.5, 4097]), ('np.float64', [1.25, -4097])]


def fix_value(r, vt, narrow=False, np_ok=True):
    """mostly a domain value, sometimes not (the API allows it); a third of the time a NumPy scalar of some width.
    `narrow`: the model stores float32 / objects — keep magnitudes small so that exact results still fit"""
    if np_ok and r.random() < .35:
        tname, vals = r.choice(NP_VALUES if not narrow else [('np.int8', [11, 12, -12]), ('np.uint8', [15, 16]), ('np.int16', [181, 182]),
                                                              ('np.int64', [12, -182]), ('np.float32', [0.5, 12])])
        x = r.choice(vals)
        return Val(x, f'{tname}({x!r})')
    if r.random() < .7:
        return r.choice(DOMS[vt])
    return r.choice([2, -3, 0.5, 0, 1.25, -1])


def representable(P, dtype):
    """every coefficient of the expected polynomial is exact in the model's dtype (cut the case otherwise)"""
    for c in P.t.values():
        if dtype == 'np.float32':
            if Fraction(float(np.float32(float(c)))) != c or abs(c) >= 2 ** 22:
                return False
        elif abs(c.numerator) >= 2 ** 50 or c.denominator > 2 ** 20:
            return False
    return True


def assignments(order, vts):
    return (dict(zip(order, vals)) for vals in itertools.product(*[DOMS[vts[v]] for v in order]))


# every form of `fixed` the API accepts ("dictionary or iterable of 2-tuples"); the one-shot forms can be read only once
FIXED_FORMS = ['dict', 'pairs', 'tuple of pairs', 'items()', 'zip', 'generator', 'iter(list)', 'Mapping subclass', 'map object']
ONE_SHOT = ('zip', 'generator', 'iter(list)', 'map object')

MAPPING_SRC = ('import collections.abc\n'
               'class FixedMap(collections.abc.Mapping):\n'
               '    """a Mapping that is not a dict: only __getitem__/__iter__/__len__ (items() comes from the ABC)"""\n'
               '    def __init__(self, pairs): self._p = list(pairs)\n'
               '    def __getitem__(self, k):\n'
               '        for a, b in self._p:\n'
               '            if a == k: return b\n'
               '        raise KeyError(k)\n'
               '    def __iter__(self): return iter([a for a, _ in self._p])\n'
               '    def __len__(self): return len(self._p)')


def fixed_src(r, R, fixed, forms=FIXED_FORMS):
    """(source text, form name) of `fixed` in one of the accepted forms; defines FixedMap in the recipe when needed"""
    form = r.choice(forms)
    pairs = '[' + ', '.join(f'({v!r}, {vrepr(a)})' for v, a in fixed) + ']'
    if form == 'dict':
        src = '{' + ', '.join(f'{v!r}: {vrepr(a)}' for v, a in fixed) + '}'
    elif form == 'pairs':
        src = pairs
    elif form == 'tuple of pairs':
        src = 'tuple(' + pairs + ')'
    elif form == 'items()':
        src = 'dict(' + pairs + ').items()'
    elif form == 'zip':
        src = f'zip({[v for v, _ in fixed]!r}, [' + ', '.join(vrepr(a) for _, a in fixed) + '])'
    elif form == 'generator':
        src = f'((v_, a_) for v_, a_ in {pairs})'
    elif form == 'iter(list)':
        src = f'iter({pairs})'
    elif form == 'map object':
        src = f'map(tuple, {pairs})'
    else:
        if 'FixedMap' not in R.ns:
            R.do(MAPPING_SRC)
        src = f'FixedMap({pairs})'
    return src, form


def items_tok(fixed):
    return ','.join(f'{lab(k)}={rat(F(v))}' for k, v in fixed) or '-'


# ------------------------------------------------------------------------------------------ BQM / QM

def case_model_fix(ctx, r, B):
    R = Recipe()
    if r.random() < .5:
        dtype = r.choice(['np.float64', 'np.float32', 'object'])
        labels, vt = gen_bqm(r, R, dtype=dtype, nmax=5)
        if labels and r.random() < .4:
            # "at any point of an edit history": the model that is fixed has been relabelled / contracted / copied / converted … before
            if edit_history(ctx, r, R, dtype, nops=r.randint(1, 3), tag='history op before fixing') is None:
                return
            labels, vt = list(R['m'].variables), R['m'].vartype.name
            if len(labels) > 5 or any(abs(F(b)) > 64 for _, b in R['m'].iter_linear()) or any(abs(F(b)) > 64 for _, _, b in R['m'].iter_quadratic()):
                return
            ctx.tick('fixed after an edit history')
        vts = {v: vt for v in labels}
        cls = 'BQM' + ('[object]' if dtype == 'object' else '[float32]' if dtype == 'np.float32' else '')
    else:
        dtype = 'qm'
        labels, vts = gen_qm(r, R, nmax=5)
        cls = 'QM'
    if not labels:
        return
    if cls == 'QM':
        for l in labels:     # squared terms on INTEGER variables, often
            if vts[l] == 'INTEGER' and r.random() < .5:
                R.do(f'm.add_quadratic({l!r}, {l!r}, {fl(q8(r))})')
    m = R['m']
    k = r.choice([1, 1, 2, len(labels)])
    narrow = dtype in ('np.float32', 'object') or (cls == 'QM' and m.dtype == np.float32)
    fixed = [(v, fix_value(r, vts[v], narrow=narrow, np_ok=(dtype != 'object'))) for v in r.sample(labels, min(k, len(labels)))]
    if not representable(GP.of_model(m).substitute({v: (Fraction(0), F(a)) for v, a in fixed}), 'np.float32' if narrow else 'np.float64'):
        ctx.tick('cut_for_precision')
        return
    many = len(fixed) > 1 or r.random() < .3
    R.do('n = m.copy()')
    form = None
    if many:
        fsrc, form = fixed_src(r, R, fixed)
        if form in ONE_SHOT:
            # keep the iterator object: the front makes ONE pass, so it is exhausted afterwards (Lean: qm_fix_variables_any_form)
            R.do(f'it_ = {fsrc}')
            call = 'n.fix_variables(it_)'
        else:
            call = f'n.fix_variables({fsrc})'
        ctx.tick(f'fixed given as {form}')
    else:
        call = f'n.fix_variable({fixed[0][0]!r}, {vrepr(fixed[0][1])})'
    R.do(call)
    if many and form in ONE_SHOT:
        left = list(R['it_'])
        ctx.tick('one-shot `fixed` left exhausted' if not left else 'one-shot `fixed` NOT exhausted')
        if left:
            ctx.fail('correspondence', 'QuadraticViewsMixin.fix_variables', 'fixed given as a one-shot iterable',
                     f'after an accepted call the iterator still yields {left}; the model of the front consumes it in one pass',
                     detail=dict(script=R.lines[4:]))
    for _, a in fixed:
        if isinstance(a, Val):
            ctx.tick('fix value: NumPy scalar ' + a.src.split('(')[0])
    nmod = R['n']
    site = f'{cls}.fix_variable' + ('s' if many else '')
    has_self = any(u == v for u, v, _ in m.iter_quadratic())
    ic = ('squared term; ' if has_self and any(m.degree(v) and (v, v) in [(a, b) for a, b, _ in m.iter_quadratic()] for v, _ in fixed) else '') + \
         ('every variable fixed' if len(fixed) == len(labels) else f'{len(fixed)} of {len(labels)} variables') + \
         ('; fixed given as a one-shot iterable' if form in ONE_SHOT else '')
    ctx.tick(site)
    ctx.case((site, tuple(R.lines[4:])), nontrivial=True, sample=dict(script=R.lines[4:]) if len(labels) == 3 else None)
    P = GP.of_model(m)
    expect = P.substitute({v: (Fraction(0), F(a)) for v, a in fixed})
    rest = [v for v in m.variables if v not in dict(fixed)]
    repro = R.script(textwrap.dedent(f'''
        import itertools
        fixed = {dict(fixed)!r}
        doms = {DOMS!r}
        rest = [v for v in m.variables if v not in fixed]
        assert list(n.variables) == rest, (list(n.variables), rest)
        for vals in itertools.product(*[doms[m.vartype(v).name if callable(m.vartype) else m.vartype.name] for v in rest]):
            x = dict(zip(rest, vals))
            assert poly_value(n, x) == poly_value(m, {{**x, **fixed}}), (x, poly_value(n, x), poly_value(m, {{**x, **fixed}}))
        '''))
    if list(nmod.variables) != rest:
        ctx.fail('property', site, ic, f'variables after fixing: {list(nmod.variables)}, expected {rest}', repro=repro)
        return
    if GP.of_model(nmod).nz() != expect.nz():
        ctx.fail('property', site, ic, f'coefficients {GP.of_model(nmod).nz()} differ from the substituted polynomial {expect.nz()}', repro=repro)
        return
    for x in assignments(rest, vts):
        if poly_value(nmod, x) != poly_value(m, {**x, **dict(fixed)}):
            ctx.fail('property', site, ic, f'energy differs at {x}', repro=repro)
            return
    if cls == 'QM':
        for v in rest:
            if nmod.vartype(v) != m.vartype(v) or nmod.lower_bound(v) != m.lower_bound(v) or nmod.upper_bound(v) != m.upper_bound(v):
                ctx.fail('property', site, ic, f'vartype/bounds of {v!r} changed', repro=repro)
                return
    # (i) model: one `fix` per variable on the index-based storage / the dict back-end
    if dtype == 'object':
        lines = ['lbnew ' + m.vartype.name]
        for v in m.variables:
            lines.append(f'lb {m.vartype.name} addlin {lab(v)} {rat(F(m.get_linear(v)))}')
        for u, v, b in m.iter_quadratic():
            lines.append(f'lb {m.vartype.name} addquad {lab(u)} {lab(v)} {rat(F(b))}')
        lines.append(f'lb {m.vartype.name} setoff {rat(F(m.offset))}')
        for v, a in fixed:
            lines.append(f'lb {m.vartype.name} fix {lab(v)} {rat(F(a))}')
        B.hist.append((lines, 'ok ' + state_line(nmod), site, ic, list(R.lines[4:])))
    else:
        order = list(m.variables)
        l, a_, o = qmb_tokens(m)
        cur = (l, a_, o)
        chain = []
        for v, a in fixed:
            chain.append((order.index(v), a))
            order.remove(v)
        B.chains.append((cur, chain, model_canon(nmod, list(nmod.variables)), site, ic, list(R.lines[4:])))
        # the same through the labelled model of the mixin code (label lookups, order of the pairs, vartype/bounds table)
        if cls == 'QM':
            info = ','.join(f'{m.vartype(v).name}~{rat(F(m.lower_bound(v)))}~{rat(F(m.upper_bound(v)))}' for v in m.variables) or '-'
            exp_info = ','.join(f'{nmod.vartype(v).name}~{rat(F(nmod.lower_bound(v)))}~{rat(F(nmod.upper_bound(v)))}' for v in nmod.variables) or '-'
        else:
            info = exp_info = '-'
        exp_c = model_canon(nmod, list(nmod.variables))
        exp_l = labs(nmod.variables)

        def same(g, exp_c=exp_c, exp_l=exp_l, exp_info=exp_info):
            p_ = g.split(' ')
            return p_[0] == 'ok' and qmb_canon(*parse_qmb(p_[1])) == exp_c and p_[2] == exp_info and p_[3] == exp_l
        B.add(f'qmfixl {l} {a_} {o} {info} {labs(m.variables)} {items_tok(fixed)}', '', site + ' vs QuadraticViewsMixin model', ic,
              'fix_variable(s) by label', detail=dict(script=R.lines[4:]), on_mismatch=same)


def flush_chains(ctx, B):
    """sequences of `fix` requests where each request uses the previous answer"""
    pending = [(cur, list(chain), exp, site, ic, script) for cur, chain, exp, site, ic, script in B.chains]
    while pending:
        lines = []
        for cur, chain, exp, site, ic, script in pending:
            v, a = chain[0]
            lines.append(f'fix {cur[0]} {cur[1]} {cur[2]} {v} {rat(F(a))}')
        got = run_driver('energydriver', lines)
        ctx.corr_lines += len(lines)
        nxt = []
        for (cur, chain, exp, site, ic, script), g in zip(pending, got):
            chain = chain[1:]
            if chain:
                nxt.append((tuple(g.split('|')), chain, exp, site, ic, script))
            elif qmb_canon(*parse_qmb(g)) != exp:
                ctx.fail('correspondence', site + ' vs abc.h::fix_variable model', ic, f'implementation {exp} model `{g}`', detail=dict(script=script))
        pending = nxt
    hs = B.hist
    lines = [ln for h in hs for ln in h[0]]
    if lines:
        got = run_driver('energydriver', lines)
        ctx.corr_lines += len(lines)
        i = 0
        for hl, expect, site, ic, script in hs:
            g = got[i + len(hl) - 1]
            if g != expect:
                ctx.fail('correspondence', site + ' vs dict back-end model', ic, f'implementation `{expect}` model `{g}`', detail=dict(script=script))
            i += len(hl)


# ------------------------------------------------------------------------------------------ CQM

def attrs(c):
    out = []
    for lbl in c.constraint_labels:
        k = c.constraints[lbl]
        out.append((lbl, k.sense.value, F(k.rhs), None if not k.lhs.is_soft() else F(k.lhs.weight()), k.lhs.penalty()))
    return out


def case_cqm_fix(ctx, r, B):
    R = Recipe()
    labels, vts = gen_cqm(r, R, vartypes=('BINARY', 'SPIN', 'INTEGER', 'INTEGER', 'REAL'), nmax=4)
    c = R['c']
    k = r.choice([1, 1, 2, len(labels)])
    fixed = [(v, fix_value(r, vts[v])) for v in r.sample(labels, min(k, len(labels)))]
    if any(isinstance(a, Val) for _, a in fixed):
        ctx.tick('fix value: NumPy scalar (CQM)')
    for _name, _e in [('objective', c.objective)] + [(l_, c.constraints[l_].lhs) for l_ in c.constraint_labels]:
        if not representable(GP.of_model(_e).substitute({v: (Fraction(0), F(a)) for v, a in fixed}), 'np.float64'):
            ctx.tick('cut_for_precision')
            return
    tok0 = cqm_tokens(c)
    labs0, clabs0 = labs(c.variables), labs(c.constraint_labels)
    many = len(fixed) > 1 or r.random() < .4
    R.do('import copy; a = copy.deepcopy(c)')
    form_a = None
    if many:
        fsrc, form_a = fixed_src(r, R, fixed)
        ctx.tick(f'fixed given as {form_a} (CQM in place)')
        R.do(f'a.fix_variables({fsrc}, inplace=True)')
    else:
        R.do(f'a.fix_variable({fixed[0][0]!r}, {vrepr(fixed[0][1])})')
    fsrc, form_b = fixed_src(r, R, fixed)
    ctx.tick(f'fixed given as {form_b} (CQM copying)')
    R.do(f'b = c.fix_variables({fsrc}, inplace=False)')
    a, b = R['a'], R['b']
    rest = [v for v in c.variables if v not in dict(fixed)]
    exprs = [('objective', lambda q: q.objective)] + [(f'constraint {lbl!r}', (lambda q, lbl=lbl: q.constraints[lbl].lhs)) for lbl in c.constraint_labels]
    selfloop = any(u == v and u in dict(fixed) for _, get in exprs for u, v, _ in get(c).iter_quadratic())
    _mi = {v: i for i, v in enumerate(c.variables)}
    if any([_mi[v] for v in get(c).variables] != list(range(len(get(c).variables))) and any(v in dict(fixed) for v in get(c).variables)
           for _, get in exprs):
        ctx.tick('CQM fix: expression whose local variable order differs from the model order, a variable of it fixed')
    partial = any(0 < sum(1 for v in get(c).variables if v in dict(fixed)) for _, get in exprs) and any(
        any(v not in get(c).variables for v, _ in fixed) for _, get in exprs)
    allfixed = any(len(get(c).variables) and all(v in dict(fixed) for v in get(c).variables) for _, get in exprs)
    ic = ('squared term of a fixed variable' if selfloop else 'every variable of an expression fixed' if allfixed else
          'variable in only some expressions' if partial else 'general')
    repro = R.script(textwrap.dedent(f'''
        import itertools
        fixed = {dict(fixed)!r}
        doms = {DOMS!r}
        rest = [v for v in c.variables if v not in fixed]
        for name, q in (('in place', a), ('copy', b)):
            assert list(q.variables) == rest, (name, list(q.variables), rest)
            assert list(q.constraint_labels) == list(c.constraint_labels)
            for vals in itertools.product(*[doms[c.vartype(v).name] for v in rest]):
                x = dict(zip(rest, vals)); full = {{**x, **fixed}}
                assert poly_value(q.objective, x) == poly_value(c.objective, full), (name, 'objective', x, poly_value(q.objective, x), poly_value(c.objective, full))
                for lbl in c.constraint_labels:
                    assert poly_value(q.constraints[lbl].lhs, x) == poly_value(c.constraints[lbl].lhs, full), (name, lbl, x)
                    assert q.constraints[lbl].rhs == c.constraints[lbl].rhs and q.constraints[lbl].sense == c.constraints[lbl].sense
        '''))
    ic0 = ic
    for path, q in (('in place', a), ('copying', b)):
        site = 'CQM.fix_variable' + ('s' if many or path == 'copying' else '') + f' ({path})'
        ic = ic0 + ('; fixed given as a one-shot iterable' if (form_a if path == 'in place' else form_b) in ONE_SHOT else '')
        ctx.tick(site)
        ctx.case((site, tuple(R.lines[4:])), nontrivial=True, sample=dict(script=R.lines[4:]) if len(labels) == 3 and path == 'copying' else None)
        if list(q.variables) != rest:
            ctx.fail('property', site, ic, f'variables {list(q.variables)}, expected {rest}', repro=repro)
            return
        if attrs(q) != attrs(c):
            ctx.fail('property', site, ic, f'constraint attributes changed: {attrs(q)} vs {attrs(c)}', repro=repro)
            return
        # round 8: every read accessor of every expression of the result reports one polynomial (the energy checks below read
        # through iter_linear / iter_quadratic only)
        from harness.props import accessors as ACC
        for ename, get in exprs:
            try:
                bad, _ = ACC.disagreements(get(q))
            except Exception as e:  # noqa
                bad = [('reading', f'{type(e).__name__}: {e}')]
            ctx.tick(f'{site}: read accessors compared')
            if bad:
                tgt = ('a' if path == 'in place' else 'b') + ('.objective' if ename == 'objective' else f'.constraints[{ename[len("constraint "):]}].lhs')
                ctx.fail('property', site, ic + f'; read accessors; accessor={bad[0][0].split("(")[0].strip()}', f'{ename}: {bad[0][0]}: {bad[0][1]}',
                         repro=R.script(ACC.repro_src(tgt)))
                return
        for v in rest:
            if q.vartype(v) != c.vartype(v) or q.lower_bound(v) != c.lower_bound(v) or q.upper_bound(v) != c.upper_bound(v):
                ctx.fail('property', site, ic, f'vartype/bounds of {v!r} changed', repro=repro)
                return
        for name, get in exprs:
            expect = GP.of_model(get(c)).substitute({v: (Fraction(0), F(x)) for v, x in fixed})
            if GP.of_model(get(q)).nz() != expect.nz():
                ctx.fail('property', site, ic, f'{name}: {GP.of_model(get(q)).nz()} differs from the substituted polynomial {expect.nz()}', repro=repro)
                return
            if any(v in dict(fixed) for v in get(q).variables):
                ctx.fail('property', site, ic, f'{name}: still mentions a fixed variable', repro=repro)
                return
        for x in assignments(rest, vts):
            full = {**x, **dict(fixed)}
            for name, get in exprs:
                if poly_value(get(q), x) != poly_value(get(c), full):
                    ctx.fail('property', site, ic, f'{name}: value differs at {x}', repro=repro)
                    return
    ic = ic0
    # (i) both models
    exp_a = (cqm_canon_real(a), labs(a.variables))
    exp_b = (cqm_canon_real(b), labs(b.variables))

    def same(g, exp):
        p = g.split(' ')
        return p[0] == 'ok' and (cqm_canon_tok(*p[1:4]), p[4]) == exp
    B.add(f'cqmfix {tok0} {labs0} {clabs0} {items_tok(fixed)}', '', 'CQM.fix_variable (in place) vs model', ic, 'substitute_variable(v,0,a)+remove_variable',
          detail=dict(script=R.lines[4:]), on_mismatch=lambda g, e=exp_a: same(g, e))
    B.add(f'cqmfixcopy {tok0} {labs0} {clabs0} {items_tok(fixed)}', '', 'CQM.fix_variables (copying) vs model', ic, 'fix_variables_expr',
          detail=dict(script=R.lines[4:]), on_mismatch=lambda g, e=exp_b: same(g, e))


# ------------------------------------------------------------------------------------------ polynomial

def case_poly_fix(ctx, r, B):
    from dimod.reference.composites.higherordercomposites import fix_variables
    R = Recipe()
    R.do('from dimod.reference.composites.higherordercomposites import fix_variables')
    vt = r.choice(['SPIN', 'BINARY'])
    n = r.choice([1, 2, 3, 4, 5])
    labels = r.sample(LABELS, n)
    terms = {}
    for _ in range(r.choice([1, 2, 3, 5])):
        t = tuple(r.sample(labels, min(r.choice([0, 0, 1, 2, 2, 3, 4]), n)))
        terms[t] = q8(r)
    R.do(f'p = BinaryPolynomial({terms!r}, {vt!r})')
    k = r.choice([0, 1, 1, 2, n])
    fixed = {v: r.choice(DOMS[vt]) for v in r.sample(labels, min(k, n))}
    R.do(f'n = fix_variables(p, {fixed!r})')
    p, nmod = R['p'], R['n']
    site = 'higherordercomposites.fix_variables'
    ic = ('constant term present' if () in p else 'no constant term') + ('; every variable fixed' if len(fixed) == n else '')
    ctx.tick(site)
    ctx.case((site, tuple(R.lines[4:])), nontrivial=bool(fixed), sample=dict(script=R.lines[4:]) if n == 3 else None)
    P = GP({tuple(t): b for t, b in p.items()})
    expect = P.substitute({v: (Fraction(0), F(a)) for v, a in fixed.items()})
    got = GP({tuple(t): b for t, b in nmod.items()})
    rest = [v for v in labels if v not in fixed]
    repro = R.script(textwrap.dedent(f'''
        import itertools
        fixed = {fixed!r}
        rest = {rest!r}
        for vals in itertools.product({DOMS[vt]!r}, repeat=len(rest)):
            x = dict(zip(rest, vals))
            assert poly_sum(n, x) == poly_sum(p, {{**x, **fixed}}), (x, poly_sum(n, x), poly_sum(p, {{**x, **fixed}}))
        '''))
    if got.nz() != expect.nz():
        ctx.fail('property', site, ic, f'{got.nz()} differs from the substituted polynomial {expect.nz()}', repro=repro)
        return
    idx = {l: i for i, l in enumerate(labels)}
    tok = ';'.join('.'.join(str(i) for i in sorted(idx[v] for v in t)) + '=' + rat(F(b)) for t, b in p.items()) or '-'
    ftok = ','.join(f'{idx[v]}={rat(F(a))}' for v, a in fixed.items()) or '-'
    exp = {tuple(sorted(idx[v] for v in t)): F(b) for t, b in nmod.items()}

    def same(g, exp=exp):
        d = {}
        if g != '-':
            for e in g.split(';'):
                kk, b = e.split('=')
                key = tuple(int(x) for x in kk.split('.')) if kk else ()
                d[key] = d.get(key, 0) + Fraction(b)
        return {k: v for k, v in d.items() if v != 0 or k in exp} == {k: v for k, v in exp.items()} or \
            {k: v for k, v in d.items() if v != 0} == {k: v for k, v in exp.items() if v != 0}
    B.add(f'polyfix {tok} {ftok}', '', site + ' vs model', ic, 'fix_variables', detail=dict(script=R.lines[4:]), on_mismatch=same)
    # through the composite: reported energies are the original polynomial's at the extended sample
    if r.random() < .4 and len(rest) <= 4 and rest:
        site2 = 'PolyFixedVariableComposite.sample_poly'
        R.do(f'ss = dimod.PolyFixedVariableComposite(dimod.ExactPolySolver()).sample_poly(p, fixed_variables={fixed!r})')
        ss = R['ss']
        ctx.tick(site2)
        ctx.case((site2, tuple(R.lines[4:])), nontrivial=True)
        bad = None
        if len(ss) != 2 ** len([v for v in rest if v in nmod.variables]) and len(ss) != 2 ** len(rest):
            pass
        for s, e in ss.data(['sample', 'energy']):
            s = dict(s)
            full = {**{v: 0 if vt == 'BINARY' else 1 for v in labels}, **s}
            if any(s.get(v) != a for v, a in fixed.items()):
                bad = f'sample {s} does not carry the fixed values'
                break
            if any(v not in s for v in p.variables):
                bad = f'sample {s} lacks a variable of the polynomial'
                break
            if F(e) != P.eval({v: full[v] for v in labels}):
                bad = f'energy {e} of {s} but the polynomial gives {P.eval({v: full[v] for v in labels})}'
                break
        if bad:
            ctx.fail('property', site2, ic, bad, repro=R.script(
                'for s, e in ss.data(["sample", "energy"]):\n    s = dict(s)\n    assert F(e) == poly_sum(p, s), (s, e, poly_sum(p, s))\n'))


# ------------------------------------------------------------------------------------------ histories on ONE object (round 7)

RECORDER_SRC = ('class Recorder(dimod.PolySampler):\n'
                '    """exact child that remembers every polynomial it was asked to sample"""\n'
                '    parameters = {}\n'
                '    properties = {}\n'
                '    def __init__(self):\n'
                '        self.seen = []\n'
                '    def sample_poly(self, poly, **kwargs):\n'
                '        self.seen.append(BinaryPolynomial(poly, poly.vartype))\n'
                '        return dimod.ExactPolySolver().sample_poly(poly)')


def case_composite_history(ctx, r, B):
    """ONE PolyFixedVariableComposite object is called 2-4 times: the same polynomial object, an equal copy, the polynomial edited
    in place between the calls, or another polynomial; the same set of fixed variables with other values, the same values, another
    set, none.  After every call: the polynomial the child received is the original with the values substituted (coefficient for
    coefficient, hence at every assignment of the rest) and every returned row carries the original polynomial's energy."""
    R = Recipe()
    R.do(RECORDER_SRC)
    vt = r.choice(['SPIN', 'BINARY'])
    n = r.choice([2, 3, 3, 4, 5])
    labels = r.sample(LABELS, n)

    def rand_terms():
        terms = {}
        for _ in range(r.choice([2, 3, 5])):
            t = tuple(r.sample(labels, min(r.choice([0, 1, 2, 2, 3, 4]), n)))
            if not any(set(t) == set(k_) for k_ in terms):
                terms[t] = q8(r)
        return terms
    R.do(f'p = BinaryPolynomial({rand_terms()!r}, {vt!r})')
    R.do('child = Recorder(); comp = dimod.PolyFixedVariableComposite(child)')
    site = 'PolyFixedVariableComposite.sample_poly'
    prev_fixed = None
    ncalls = r.randint(2, 4)
    for ci in range(ncalls):
        what_poly = 'same object'
        if ci:
            wp = r.choice(['same', 'same', 'same', 'copy', 'edit', 'other'])
            if wp == 'copy':
                R.do('p = BinaryPolynomial(dict(p), p.vartype)'); what_poly = 'an equal copy'
            elif wp == 'edit':
                t = tuple(r.sample(labels, r.choice([1, 2])))
                R.do(f'p[{t!r}] = {fl(q8(r))}'); what_poly = 'the object edited in place'
            elif wp == 'other':
                R.do(f'p = BinaryPolynomial({rand_terms()!r}, {vt!r})'); what_poly = 'another polynomial'
        p = R['p']
        if prev_fixed is not None and r.random() < .7 and prev_fixed:
            # the same variables as in the previous call, other values (at least one differs when possible)
            fixed = {v: r.choice(DOMS[vt]) for v in prev_fixed}
            if fixed == prev_fixed and r.random() < .8:
                v = r.choice(list(fixed))
                fixed[v] = [a for a in DOMS[vt] if a != fixed[v]][0]
            if r.random() < .3:
                fixed = dict(perm_of(r, list(fixed.items())))
            what_fixed = 'the same fixed variables with ' + ('the same values' if fixed == prev_fixed else 'other values')
        else:
            k = r.choice([0, 1, 1, 2, 2, n - 1])
            fixed = {v: r.choice(DOMS[vt]) for v in r.sample(labels, min(k, n - 1))}
            what_fixed = 'no fixed variables' if not fixed else 'first call' if prev_fixed is None else 'another set of fixed variables'
        entry = r.choice(['sample_poly', 'sample_poly', 'sample_hising', 'sample_hubo']) if len(p) else 'sample_poly'
        if entry == 'sample_hising' and vt == 'SPIN':
            R.do('h_, J_, off_ = p.to_hising()')
            R.do(f'ss = comp.sample_hising(h_, J_, fixed_variables={fixed!r})')
        elif entry == 'sample_hubo' and vt == 'BINARY':
            R.do('H_, off_ = p.to_hubo()')
            R.do(f'ss = comp.sample_hubo(H_, fixed_variables={fixed!r})')
        else:
            entry = 'sample_poly'
            R.do(f'ss = comp.sample_poly(p, fixed_variables={fixed!r})')
        ss, child = R['ss'], R['child']
        P = GP({tuple(t): b for t, b in p.items()})
        if entry != 'sample_poly':
            P.t.pop((), None)      # sample_hising / sample_hubo submit the terms without the offset
        ic = (f'call {ci + 1} on one composite object: ' + (what_poly if ci else 'fresh') + ', ' + what_fixed) if ci else \
            ('single call' + ('; no fixed variables' if not fixed else ''))
        ctx.tick(f'{site}: {"repeated call on one object" if ci else "first call"} ({entry})')
        if ci:
            ctx.tick(f'composite history: {what_poly}, {what_fixed}')
        ctx.case((site, tuple(R.lines[4:])), nontrivial=bool(fixed))
        repro = R.script('\n'.join([
            'import itertools, math',
            f'fixed = {fixed!r}',
            f'orig = {dict(P.t)!r}    # the terms submitted in the last call',
            'reduced = child.seen[-1]',
            'rest = sorted({v for t in orig for v in t} - set(fixed), key=repr)',
            f'for vals in itertools.product({DOMS[vt]!r}, repeat=len(rest)):',
            '    x = dict(zip(rest, vals)); full = {**x, **fixed}',
            '    want = sum(Fraction(c) * math.prod(full[v] for v in k) for k, c in orig.items())',
            '    got = poly_sum(reduced, {**{v: 0 for v in reduced.variables}, **x})',
            '    assert got == want, (fixed, x, got, want)', '']))
        expect = P.substitute({v: (Fraction(0), F(a)) for v, a in fixed.items()})
        if not child.seen:
            ctx.fail('property', site, ic, 'child was not called', repro=repro)
            return
        got = GP({tuple(t): b for t, b in child.seen[-1].items()})
        if got.nz() != expect.nz():
            ctx.fail('property', site, ic, f'polynomial handed to the child {got.nz()} differs from the substituted polynomial {expect.nz()} '
                     f'(fixed {fixed}); calls: {[ln for ln in R.lines if "comp.sample" in ln]}', repro=repro, detail=dict(script=R.lines[4:]))
            return
        for s_, e_ in ss.data(['sample', 'energy']):
            s_ = dict(s_)
            full = {**{v: DOMS[vt][0] for v in labels}, **s_}
            if any(s_.get(v) != a for v, a in fixed.items()) or F(e_) != P.eval(full):
                ctx.fail('property', site, ic, f'row {s_} energy {e_}: fixed values {fixed}, the polynomial gives {P.eval(full)}', repro=repro,
                         detail=dict(script=R.lines[4:]))
                return
        prev_fixed = dict(fixed)


def case_fix_twice(ctx, r, B):
    """two fixing calls on ONE model object with different arguments: the copying CQM path twice on the same source (same variables,
    other values / other order / another subset), and the in-place paths (CQM, BQM, QM) applied twice in sequence"""
    R = Recipe()
    which = r.choice(['cqm-copy', 'cqm-copy', 'cqm-inplace', 'model'])
    if which == 'model':
        if r.random() < .5:
            dtype = r.choice(['np.float64', 'object'])
            labels, vt = gen_bqm(r, R, dtype=dtype, nmax=5)
            vts = {v: vt for v in labels}
            cls = 'BQM' + ('[object]' if dtype == 'object' else '')
        else:
            labels, vts = gen_qm(r, R, nmax=5, dtype='np.float64')
            cls = 'QM'
        if len(labels) < 2:
            return
        m0 = R['m']
        k1 = r.randint(1, len(labels) - 1)
        f1 = [(v, r.choice(DOMS[vts[v]])) for v in r.sample(labels, k1)]
        rest1 = [v for v in labels if v not in dict(f1)]
        f2 = [(v, r.choice(DOMS[vts[v]])) for v in r.sample(rest1, r.randint(1, len(rest1)))]
        R.do('n = m.copy()')
        s1, _ = fixed_src(r, R, f1)
        s2, _ = fixed_src(r, R, f2)
        R.do(f'n.fix_variables({s1})')
        R.do(f'n.fix_variables({s2})')
        site, ic = f'{cls}.fix_variables', 'two calls in sequence on one object'
        ctx.tick(site + ' (twice on one object)')
        ctx.case((site, 'twice', tuple(R.lines[4:])), nontrivial=True)
        both = dict(f1 + f2)
        expect = GP.of_model(m0).substitute({v: (Fraction(0), F(a)) for v, a in both.items()})
        nmod = R['n']
        rest = [v for v in m0.variables if v not in both]
        if list(nmod.variables) != rest or GP.of_model(nmod).nz() != expect.nz():
            ctx.fail('property', site, ic, f'{GP.of_model(nmod).nz()} over {list(nmod.variables)} differs from the substituted polynomial {expect.nz()} over {rest}',
                     repro=R.script(f'fixed = {both!r}\nimport itertools\nrest = [v for v in m.variables if v not in fixed]\n'
                                    f'doms = {DOMS!r}\nvt = lambda v: (m.vartype(v).name if callable(m.vartype) else m.vartype.name)\n'
                                    'for vals in itertools.product(*[doms[vt(v)] for v in rest]):\n    x = dict(zip(rest, vals))\n'
                                    '    assert poly_value(n, x) == poly_value(m, {**x, **fixed}), x\n'))
        return
    labels, vts = gen_cqm(r, R, vartypes=('BINARY', 'SPIN', 'INTEGER', 'INTEGER'), nmax=4)
    c = R['c']
    if len(labels) < 2:
        return
    exprs = [('objective', lambda q: q.objective)] + [(f'constraint {lbl!r}', (lambda q, lbl=lbl: q.constraints[lbl].lhs)) for lbl in c.constraint_labels]

    def check(q, fixed, site, ic, name):
        both = dict(fixed)
        rest = [v for v in c.variables if v not in both]
        repro = R.script('\n'.join([
            'import itertools', f'fixed = {both!r}', f'doms = {DOMS!r}', f'q = {name}', 'rest = [v for v in c.variables if v not in fixed]',
            'assert list(q.variables) == rest, (list(q.variables), rest)',
            'for vals in itertools.product(*[doms[c.vartype(v).name] for v in rest]):',
            '    x = dict(zip(rest, vals)); full = {**x, **fixed}',
            '    assert poly_value(q.objective, x) == poly_value(c.objective, full), ("objective", x)',
            '    for lbl in c.constraint_labels:',
            '        assert poly_value(q.constraints[lbl].lhs, x) == poly_value(c.constraints[lbl].lhs, full), (lbl, x)', '']))
        if list(q.variables) != rest:
            ctx.fail('property', site, ic, f'variables {list(q.variables)}, expected {rest}', repro=repro)
            return False
        if attrs(q) != attrs(c):
            ctx.fail('property', site, ic, f'constraint attributes changed: {attrs(q)} vs {attrs(c)}', repro=repro)
            return False
        for nm, get in exprs:
            expect = GP.of_model(get(c)).substitute({v: (Fraction(0), F(x)) for v, x in both.items()})
            if GP.of_model(get(q)).nz() != expect.nz():
                ctx.fail('property', site, ic, f'{nm}: {GP.of_model(get(q)).nz()} differs from the substituted polynomial {expect.nz()} (fixed {both})',
                         repro=repro, detail=dict(script=R.lines[4:]))
                return False
        return True
    k = r.randint(1, len(labels))
    vs = r.sample(labels, k)
    f1 = [(v, r.choice(DOMS[vts[v]])) for v in vs]
    if which == 'cqm-copy':
        how = r.choice(['other values', 'other values', 'other order', 'another subset'])
        if how == 'another subset':
            f2 = [(v, r.choice(DOMS[vts[v]])) for v in r.sample(labels, r.randint(1, len(labels)))]
        else:
            f2 = [(v, (r.choice(DOMS[vts[v]]) if how == 'other values' else a)) for v, a in perm_of(r, f1)]
        s1, _ = fixed_src(r, R, f1)
        s2, _ = fixed_src(r, R, f2)
        R.do(f'b1 = c.fix_variables({s1}, inplace=False)')
        R.do(f'b2 = c.fix_variables({s2}, inplace=False)')
        site = 'CQM.fix_variables (copying)'
        ic = f'second call on one source object: {how}'
        ctx.tick(site + f' (twice on one object: {how})')
        ctx.case((site, 'twice', tuple(R.lines[4:])), nontrivial=True)
        if check(R['b2'], f2, site, ic, 'b2'):
            check(R['b1'], f1, site, 'first result after a second call on the same source', 'b1')
    else:
        rest1 = [v for v in labels if v not in dict(f1)]
        if not rest1:
            return
        f2 = [(v, r.choice(DOMS[vts[v]])) for v in r.sample(rest1, r.randint(1, len(rest1)))]
        s1, _ = fixed_src(r, R, f1)
        s2, _ = fixed_src(r, R, f2)
        R.do('import copy; a = copy.deepcopy(c)')
        R.do(f'a.fix_variables({s1}, inplace=True)')
        R.do(f'a.fix_variables({s2}, inplace=True)')
        site = 'CQM.fix_variables (in place)'
        ctx.tick(site + ' (twice on one object)')
        ctx.case((site, 'twice', tuple(R.lines[4:])), nontrivial=True)
        check(R['a'], f1 + f2, site, 'two calls in sequence on one object', 'a')


# ------------------------------------------------------------------------------------------ in-place fixing, private orders (round 8)

def case_cqm_fix_history(ctx, r, B):
    """ONE CQM whose objective / constraints list their variables in private orders (descending, interleaved, successor first,
    rotated, random; handed over as models or built through the views), then 1-4 in-place `fix_variable` / `fix_variables`
    (mapping, pairs, iterator) / `remove_variable` calls.  After every call, for every expression:
      the property itself — the energy at every checked assignment x' of the remaining variables equals the energy a deep copy
      taken BEFORE the call gives at x' extended by the fixed values (0 for a removed variable);
      and every read accessor reports the substituted polynomial (tracked independently in exact fractions).
    The history runs in a forked copy first, so an assertion of the code under test is a finding, not a dead harness."""
    from harness.props import cqm_history as HIST
    dead = HIST.canary(lambda: cqm_fix_history_body(ctx, r, HIST.LoggedRecipe()))
    if dead is not None:
        sig, lines = dead
        last = lines[-1] if lines else '?'
        m = __import__('re').search(r'\.(\w+)\(', last)
        ctx.case(('CQM fix history', 'killed', tuple(lines)), nontrivial=True)
        ctx.fail('crash', 'CQM.' + (m.group(1) if m else 'history'),
                 'in-place fixing on one CQM whose expressions list their variables in a private order',
                 f'the interpreter was killed by signal {sig} in `{last}` (failed assertion / memory error in the code under test)',
                 repro='\n'.join(list(HIST.HEADER) + lines) + '\n', detail=dict(script=lines))
        for _ in range(40):
            r.random()
        return
    R = Recipe()
    try:
        cqm_fix_history_body(ctx, r, R)
    except Exception as e:  # noqa
        if not R.ns.get('c'):
            raise
        ctx.fail('property', 'CQM.fix_variable (in place)', 'expressions in a private variable order; reading the fixed model raised',
                 f'{type(e).__name__}: {e} after `{R.lines[-1]}`', repro=R.script('for t in [c.objective] + [c.constraints[k].lhs for k in c.constraints]:\n'
                                                                                  '    list(t.variables); dict(t.linear); dict(t.quadratic)\n'))


def cqm_fix_history_body(ctx, r, R):
    from harness.props import cqm_history as HIST, accessors as ACC
    from harness.props.energy_common import domain, dict_lit
    R.do('import copy')
    st = HIST.build(r, R)
    for k in range(r.randint(1, 4)):
        if not len(R['c'].variables):
            break
        R.do('c0 = copy.deepcopy(c)   # the model before the call')
        res = HIST.step(r, R, st, ops=HIST.FIX_OPS)
        if res is None or not st.get('last'):
            break
        what, facts = res
        fixed = st['last']
        c, c0 = R['c'], R['c0']
        mv = list(c.variables)
        vts = {v: c.vartype(v).name for v in mv}
        fact_txt = ''.join(f'; {f}' for f, on in sorted(facts.items()) if on)
        site = 'CQM.remove_variable' if what == 'remove_variable' else f'CQM.{what.split("[")[0]} (in place)'
        for target in st['targets']:
            ic = f'call {k + 1} on one CQM; expression written in {st["styles"][target]} order{fact_txt}'
            ctx.tick(f'{site}: {st["styles"][target]}{fact_txt}')
            t = R.ev(target)
            t0 = R.ev(target.replace('c.', 'c0.', 1))
            rows = [{l: r.choice(domain(vts[l])) for l in mv} for _ in range(3)]
            ctx.case((site, tuple(R.lines[4:]), target), nontrivial=any(v in list(t0.variables) for v in fixed))
            for row in rows:
                full = dict(row)
                full.update(fixed)
                try:
                    e1, e0 = F(t.energy(row)), F(t0.energy(full))
                except Exception as e:  # noqa
                    e1, e0 = f'{type(e).__name__}: {e}', None
                if e1 != e0:
                    ctx.fail('property', site, ic, f'{target}: energy {e1} at {row}, but the model before the call gives {e0} at the same assignment '
                             f'extended by {fixed}', repro=R.script(f'row = {row!r}\nfull = dict(row); full.update({fixed!r})\n'
                                                                    f'assert F({target}.energy(row)) == F({target.replace("c.", "c0.", 1)}.energy(full)), '
                                                                    f'({target}.energy(row), {target.replace("c.", "c0.", 1)}.energy(full))\n'))
                    return
            bad, ref = ACC.disagreements(t)
            exp = st['refs'][target].poly()
            if bad or ref != exp:
                txt = (f'{bad[0][0]}: {bad[0][1]}' if bad else f'every accessor reports {ACC.show(ref)} but substituting {fixed} gives {ACC.show(exp)}')
                ctx.fail('property', site, ic + '; coefficients reported afterwards', f'{target}: {txt}',
                         repro=R.script(ACC.repro_src(target) + f'assert ref == {exp!r}, (ref, {exp!r})\n'))
                return


def run(ctx):
    r = ctx.rng
    B = Batch(ctx)
    B.chains = []
    B.hist = []
    n = ctx.scale(4000, 50000)
    ctx.rule = ('random BQM (three back-ends) / QM / CQM (objective + 1-3 constraints over differing variable subsets, squared INTEGER terms, '
                'constants, soft constraints) / BinaryPolynomial x random subset of variables x values (30 % outside the domain) x '
                'fix_variable, fix_variables(fixed) with `fixed` in every accepted form (dict, list/tuple of pairs, items(), Mapping subclass, and the '
                'one-shot iterables zip / generator / iter / map), CQM in place and copying; a case = one fixing call; results compared '
                'coefficient-wise with polynomial substitution and on every assignment of the remaining variables')
    for i in range(n):
        kind = r.choice(['model', 'model', 'cqm', 'cqm', 'cqm', 'poly', 'poly', 'comphist', 'twice', 'fixhist'])
        ctx.tick('kind:' + kind)
        if kind == 'model':
            case_model_fix(ctx, r, B)
        elif kind == 'cqm':
            case_cqm_fix(ctx, r, B)
        elif kind == 'comphist':
            case_composite_history(ctx, r, B)
        elif kind == 'twice':
            case_fix_twice(ctx, r, B)
        elif kind == 'fixhist':
            case_cqm_fix_history(ctx, r, B)
        else:
            case_poly_fix(ctx, r, B)
        if len([f for f in ctx.failures if f['kind'] == 'property']) >= 12:
            break
    flush_chains(ctx, B)
    B.flush()
