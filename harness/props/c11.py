"""C11 — serializable / JSON / pickle / copy round trips reproduce BQMs and sample sets.

(i)  correspondence: the real `pack_samples` / `unpack_samples` / `serialize_ndarray` /
     `SampleSet.to_serializable` / `BQM.to_serializable` / label (de)serialisation / COO writer vs the Lean
     model `DimodModel/Pack.lean` through the compiled driver `packdriver`;
(ii) property predicate on the real code: every route (to_serializable -> json text -> from_serializable,
     DimodEncoder/DimodDecoder, bytes payload, pickle, copy.deepcopy) must give back an object with the
     same labelled values (compared through plain Python dicts / lists built from the public accessors,
     never through the model).
"""
import copy
import json
import pickle
import warnings
from fractions import Fraction as F

import numpy as np

import dimod
from dimod import BinaryQuadraticModel, SampleSet
from dimod.serialization import coo
from dimod.serialization.json import DimodDecoder, DimodEncoder
from dimod.serialization.utils import (deserialize_ndarray, pack_samples, serialize_ndarray, unpack_samples)
from dimod.variables import Variables, iter_deserialize_variables
from harness.common import rat, run_driver

PRE = '''import numpy as np, dimod, json, pickle, copy, warnings
from fractions import Fraction as F
from dimod.serialization.json import DimodEncoder, DimodDecoder
from dimod.serialization import coo
warnings.simplefilter('ignore')
def bqm_table(b):
    """(vartype, offset, {label: linear}, {frozenset pair: quadratic}) through the public accessors"""
    return (b.vartype.name, F(float(b.offset)), {v: F(float(x)) for v, x in b.linear.items()},
            {frozenset((u, v)): F(float(x)) for (u, v), x in b.quadratic.items()})
def deep(x):
    """info with arrays made comparable: arrays become ('array', dtype, shape, values)"""
    if isinstance(x, np.ndarray):
        return ('array', x.dtype.name, tuple(x.shape), x.tolist())
    if isinstance(x, dict):
        return {k: deep(v) for k, v in x.items()}
    if isinstance(x, (list, tuple)):
        return [deep(v) for v in x]
    return x
def ss_table(ss):
    """(vartype, {label: column}, every data vector, info) of a sample set, exact"""
    rec = ss.record; vs = list(ss.variables)
    return (ss.vartype.name, {v: [F(float(x)) for x in rec.sample[:, j]] for j, v in enumerate(vs)},
            {f: np.asarray(rec[f]).tolist() for f in rec.dtype.names if f != 'sample'}, deep(ss.info))
def table(x):
    """a plain comparable value for every kind of object reachable from a model or a sample set: models and their vartype views,
    Linear / Quadratic / Adjacency views, Variables, sample sets, records, arrays, Sample tuples, containers"""
    import collections.abc as abc
    if isinstance(x, dimod.SampleSet):
        return ('SampleSet',) + ss_table(x)
    if isinstance(x, dimod.BinaryQuadraticModel):
        return ('BQM', x.dtype.name) + bqm_table(x)         # pickle re-orders the variables (sorted labels): order is not compared
    if isinstance(x, dimod.QuadraticModel):
        return ('QM', x.dtype.name, [(v, x.vartype(v).name, F(float(x.get_linear(v))), F(float(x.lower_bound(v))), F(float(x.upper_bound(v)))) for v in x.variables],
                {frozenset((u, v)) if u != v else (u,): F(float(b)) for u, v, b in x.iter_quadratic()}, F(float(x.offset)))
    if isinstance(x, dimod.variables.Variables):
        return ('Variables', list(x))
    if isinstance(x, np.ndarray) and x.dtype.names:
        return ('record', tuple(x.shape), {f: table(np.array(x[f]).view(np.ndarray)) for f in x.dtype.names})
    if isinstance(x, np.ndarray):
        return ('array', str(x.dtype), tuple(x.shape), x.tolist())
    if isinstance(x, np.generic):
        return ('scalar', x.dtype.name, x.item())
    if type(x).__name__ == 'Quadratic':
        return ('Quadratic', {frozenset(k): F(float(b)) for k, b in x.items()})
    if isinstance(x, abc.Mapping):
        return ('map', type(x).__name__ if not isinstance(x, dict) else 'dict', {k: table(v) for k, v in x.items()})
    if isinstance(x, (list, tuple)):
        return ('seq', type(x).__name__, [table(v) for v in x])
    if isinstance(x, (int, float)) and not isinstance(x, bool):
        return F(x) if x == x and x not in (float('inf'), float('-inf')) else repr(x)
    return x
'''
_env = {}
exec(PRE, _env)
bqm_table, ss_table, deep, table = _env['bqm_table'], _env['ss_table'], _env['deep'], _env['table']

BIG_INTEGRAL = [2.0 ** 63, -2.0 ** 63, 1e19, 3e19, -2e19, 2.0 ** 64, 1e20, -3e25, 2.0 ** 63 + 2048.0, 7.0, -5.0, 0.0, 4.0]     # all integer valued


def big_row(r, k):
    """k integer-valued floats, at least one of magnitude >= 2**63 (when k > 0)"""
    xs = [r.choice(BIG_INTEGRAL) for _ in range(k)]
    if xs:
        xs[r.randrange(k)] = r.choice(BIG_INTEGRAL[:9])
    return xs


LABEL_POOLS = [
    [0, 1, 2, 3, 4],
    [5, 2, 0, 7, 3],
    ['a', 'b', 'c', 'ab', 'x1'],
    [('a', 1), ('a', 0), ('b', 2), ('c', 5)],
    [('a', (1, 2)), ('a', (0, 2)), ('b', (1, (2, 3))), ('t', ())],       # nested tuples (D13)
    [0, 'a', ('b', 1), 2, ('c', (0, 1))],                                  # mixed: unsortable
    [1.5, 2.5, -0.25, 7.0, 0.5],                                           # floats
    [0, 1.5, 'a', ('n', (1.5, 'z')), 3],
    # NumPy scalars / Fractions *inside* tuple labels (np.nonzero coordinates, measured values); every shape has its own leading
    # string, so NumPy's `==` is never asked to compare a scalar with a tuple
    [('p2', np.int64(0), np.int64(3)), ('p2', np.int64(1), np.int64(2)), ('p2', np.int64(1), np.int64(0)), ('p1', np.int32(7)),
     ('qf', np.float32(1.5)), ('qf', np.float64(-0.25))],
    [('qn', (np.int64(1), np.int64(2))), ('qn', (np.int64(0), np.int64(5))), ('qm', ('w', (np.int8(3), np.float32(0.5)))),
     ('fr', F(1, 2)), ('fr', F(-3, 4)), ('fn', (F(5, 8), np.int64(2)))],
]


# ------------------------------------------------------------------ wire text for labels / values (own protocol of packdriver)

def pv(x):
    """value tree text: i<int> | f<num>/<den> | s<hex> | b0/b1 | n | T(..,..) | L(..,..)"""
    if x is None:
        return 'n'
    if isinstance(x, (bool, np.bool_)):
        return 'b1' if x else 'b0'
    if isinstance(x, (int, np.integer)):
        return f'i{int(x)}'
    if isinstance(x, (float, np.floating, F)):
        fr = F(x) if isinstance(x, F) else F(float(x))
        return f'f{fr.numerator}/{fr.denominator}'
    if isinstance(x, str):
        return 's' + x.encode().hex()
    if isinstance(x, tuple):
        return 'T(' + ','.join(pv(v) for v in x) + ')'
    if isinstance(x, list):
        return 'L(' + ','.join(pv(v) for v in x) + ')'
    raise TypeError(repr(x))


def has_inner(labels):
    """some tuple label holds a NumPy scalar or a Fraction (possibly one level deeper)"""
    def inner(x):
        return isinstance(x, (np.generic, F)) or isinstance(x, tuple) and any(inner(y) for y in x)
    return any(isinstance(v, tuple) and any(inner(x) for x in v) for v in labels)


def lsrc(x):
    """Python source of a label / container of labels that keeps NumPy scalars and Fractions what they are"""
    if isinstance(x, np.generic):
        return f'np.{type(x).__name__}({x.item()!r})'
    if isinstance(x, F):
        return f'F({x.numerator}, {x.denominator})'
    if isinstance(x, tuple):
        return '(' + ''.join(lsrc(v) + ', ' for v in x) + ')'
    if isinstance(x, list):
        return '[' + ', '.join(lsrc(v) for v in x) + ']'
    if isinstance(x, dict):
        return '{' + ', '.join(f'{lsrc(k)}: {lsrc(v)}' for k, v in x.items()) + '}'
    return repr(x)


def ratl(xs):
    return ','.join(rat(x) for x in xs) or '-'


# ------------------------------------------------------------------ generators

def gen_bqm_src(r):
    vt = r.choice(['SPIN', 'BINARY'])
    pool = r.choice(LABEL_POOLS)
    n = r.choice([0, 1, 2, 3, 4, min(5, len(pool))])
    labels = r.sample(pool, n)
    cls = r.choice(['BinaryQuadraticModel', 'BinaryQuadraticModel', 'Float32BQM', 'DictBQM'])
    lin = {v: r.randint(-24, 24) / 8 for v in labels if r.random() < .8}
    quad = {}
    for i in range(n):
        for j in range(i + 1, n):
            if r.random() < .5:
                u, v = (labels[i], labels[j]) if r.random() < .5 else (labels[j], labels[i])
                quad[(u, v)] = r.choice([0.0, 0.125, -1.5, 2.0, 0.75, -3.25])
    off = r.choice([0.0, 0.0, 1.5, -2.25, 7.0])
    src = f'bqm = dimod.{cls}({lsrc(lin)}, {lsrc(quad)}, {off!r}, {vt!r})'
    extra = [v for v in labels if v not in lin and not any(v in k for k in quad)]
    for v in extra:
        src += f'\nbqm.add_variable({lsrc(v)})'
    return src, cls


def gen_info(r, depth=0):
    k = r.random()
    if depth > 2 or k < .35:
        return r.choice(["1", "2.5", "'txt'", "None", "-0.125", "[]", "{}", "7"])
    if k < .55:
        dt = r.choice(['int8', 'int64', 'float32', 'float64', 'bool', 'uint32'])
        shape = r.choice([(0,), (3,), (2, 2), (1, 3), (2, 0), ()])
        cnt = int(np.prod(shape))
        vals = [r.randint(0, 1) if dt == 'bool' else (r.randint(0, 9) if dt.startswith(('int', 'uint')) and dt != 'int8' and r.random() < .5 else
                                                      r.randint(-9, 9) if dt.startswith('int') else r.randint(0, 9) if dt == 'uint32' else r.randint(-16, 16) / 4)
                for _ in range(cnt)]
        if dt.startswith('float') and r.random() < .3:
            vals = big_row(r, cnt)
        layout = r.choice(['', '', '.T', '.T', '[::-1]', '.copy(order=\'F\')']) if len(shape) == 2 else r.choice(['', '', '[::-1]', '[::2]']) if len(shape) == 1 else ''
        return f"np.array({vals!r}, dtype='{dt}').reshape({shape!r}){layout}"
    if k < .8:
        return '[' + ', '.join(gen_info(r, depth + 1) for _ in range(r.randint(1, 3))) + ']'
    return '{' + ', '.join(f"'{key}': {gen_info(r, depth + 1)}" for key in r.sample(['t', 'u', 'k', 'arr'], r.randint(1, 3))) + '}'


def gen_ss_src(r):
    vt = r.choice(['SPIN', 'BINARY', 'INTEGER', 'REAL', 'DISCRETE'])
    pool = r.choice(LABEL_POOLS)
    n = r.choice([0, 1, 2, 3, 4, 5, 33, 40][:6] + [33, 64, 65] * (r.random() < .15))
    if n > len(pool):
        labels = list(range(n)) if r.random() < .5 else [('q', i) for i in range(n)]
    else:
        labels = r.sample(pool, n)
    m = r.choice([0, 1, 2, 3, 5])
    if vt == 'SPIN':
        dom = [-1, 1]; dts = ['int8', 'int32', 'int64', 'float32', 'float64']
    elif vt == 'BINARY':
        dom = [0, 1]; dts = ['int8', 'int16', 'uint8', 'int64', 'float32', 'float64', 'bool']
    elif vt == 'REAL':
        dom = [3.5, -2.0, 0.0, 0.125, 1.0, -0.75]; dts = ['float32', 'float64']
    else:
        dom = [-3, 0, 1, 2, 7, 100]; dts = ['int8', 'int32', 'int64', 'float64']
    dt = r.choice(dts)
    rows = [[r.choice(dom) for _ in range(n)] for _ in range(m)]
    en = [r.randint(-40, 40) / 8 for _ in range(m)]
    occ = [r.randint(1, 4) for _ in range(m)]
    vec = ''
    big = r.random() < .2                 # integer-valued floats beyond the int64 range in energies / extra vectors / REAL samples
    if big and vt == 'REAL' and r.random() < .6:
        rows = [big_row(r, n) for _ in range(m)]
    if big and r.random() < .4:
        vec += f", wt=np.array({big_row(r, m)!r}, dtype='{r.choice(['float32', 'float64'])}')"
    if big and r.random() < .3:
        vec += f", wm=np.array({[big_row(r, 2) for _ in range(m)]!r}, dtype=float).reshape({m}, 2)"
    if r.random() < .5:
        vec += f", ex=np.array({[r.randint(-5, 5) for _ in range(m)]!r}, dtype='{r.choice(['int8', 'int64', 'float64'])}')"
    if r.random() < .3:
        vec += f", flag=np.array({[bool(r.randint(0, 1)) for _ in range(m)]!r}, dtype=bool)"
    if r.random() < .3:
        vec += f", ev=np.array({[[r.randint(-8, 8) / 4, r.randint(0, 3)] for _ in range(m)]!r}, dtype=float).reshape({m}, 2)"
    info = '{' + ', '.join(f"'{key}': {gen_info(r)}" for key in r.sample(['timing', 'msg', 'data', 'n'], r.randint(0, 3))) + '}'
    endt = r.choice(['float', 'float', 'float32', 'int'])
    if big and r.random() < .7:
        en = big_row(r, m); endt = r.choice(['float', 'float32'])
    if endt == 'int':
        en = [int(e) for e in en]
    src = (f"ss = dimod.SampleSet.from_samples((np.array({rows!r}, dtype='{dt}').reshape({m}, {n}), {lsrc(labels)}), {vt!r}, "
           f"energy=np.array({en!r}, dtype='{endt}'), num_occurrences=np.array({occ!r}, dtype='{r.choice(['int', 'int32'])}'), "
           f"sort_labels={r.random() < .5}, info={info}{vec})")
    return src, vt, dt, m, n


# ------------------------------------------------------------------ routes

BQM_ROUTES = [
    ('json', 'new = dimod.BinaryQuadraticModel.from_serializable(json.loads(json.dumps(bqm.to_serializable())))'),
    ('DimodEncoder/Decoder', 'new = json.loads(json.dumps(bqm.to_serializable(), cls=DimodEncoder), cls=DimodDecoder)'),
    ('bytes payload', 'new = dimod.BinaryQuadraticModel.from_serializable(bqm.to_serializable(use_bytes=True))'),
    ('bytes payload via pickle', 'new = dimod.BinaryQuadraticModel.from_serializable(pickle.loads(pickle.dumps(bqm.to_serializable(use_bytes=True))))'),
    ('pickle', 'new = pickle.loads(pickle.dumps(bqm))'),
    ('pickle protocol 2', 'new = pickle.loads(pickle.dumps(bqm, protocol=2))'),
    ('deepcopy', 'new = copy.deepcopy(bqm)'),
    ('copy', 'new = bqm.copy()'),
]
SS_ROUTES = [
    ('json', 'new = dimod.SampleSet.from_serializable(json.loads(json.dumps(ss.to_serializable())))'),
    ('json unpacked', 'new = dimod.SampleSet.from_serializable(json.loads(json.dumps(ss.to_serializable(pack_samples=False))))'),
    ('DimodEncoder/Decoder', 'new = json.loads(json.dumps(ss, cls=DimodEncoder), cls=DimodDecoder)'),
    ('nested in a document', "new = json.loads(json.dumps({'a': [1, ss]}, cls=DimodEncoder), cls=DimodDecoder)['a'][1]"),
    ('bytes payload', 'new = dimod.SampleSet.from_serializable(ss.to_serializable(use_bytes=True))'),
    ('bytes payload unpacked', 'new = dimod.SampleSet.from_serializable(pickle.loads(pickle.dumps(ss.to_serializable(use_bytes=True, pack_samples=False))))'),
    ('pickle', 'new = pickle.loads(pickle.dumps(ss))'),
    ('deepcopy', 'new = copy.deepcopy(ss)'),
]


def run_route(src, code):
    env = {}
    with warnings.catch_warnings():
        warnings.simplefilter('ignore')
        exec(PRE + src + '\n' + code, env)
    return env


def check_bqm(ctx, r, lines, expect, meta):
    src, cls = gen_bqm_src(r)
    env = run_route(src, 'pass')
    bqm = env['bqm']
    want = bqm_table(bqm)
    nested = any(isinstance(v, tuple) and any(isinstance(x, tuple) for x in v) for v in bqm.variables)
    for name, code in BQM_ROUTES:
        if cls == 'DictBQM' and 'bytes' in name:
            continue       # object-dtype biases have no byte representation
        ok = True
        try:
            new = run_route(src, code)['new']
            got = bqm_table(new)
        except Exception as e:  # noqa
            ok = False; err = e
        ctx.tick('bqm ' + name + ('' if ok else ':raises'))
        ctx.case(('bqm', name, src), nontrivial=len(bqm.variables) > 0, sample=dict(source=src, route=code) if name == 'json' and nested else None)
        cls_in = 'tuple labels holding NumPy scalars / Fractions' if has_inner(bqm.variables) else 'nested tuple labels' if nested else 'labels'
        if not ok:
            ctx.fail('property', 'BQM ' + name, cls_in, f'{type(err).__name__}: {err}', repro=PRE + src + '\n' + code + '\nassert bqm_table(new) == bqm_table(bqm)',
                     detail=dict(source=src, route=code))
        elif got != want or not (new == bqm):
            ctx.fail('property', 'BQM ' + name, cls_in, f'round trip changed the model: {got!r} != {want!r}',
                     repro=PRE + src + '\n' + code + '\nassert bqm_table(new) == bqm_table(bqm) and new == bqm, (bqm_table(new), bqm_table(bqm))',
                     detail=dict(source=src, route=code))
    # the vartype view (`.spin` / `.binary`) serialises through the Python fallback of to_numpy_vectors
    other = 'SPIN' if bqm.vartype is dimod.BINARY else 'BINARY'
    vcode = (f"view = bqm.{other.lower()}\nnew = dimod.BinaryQuadraticModel.from_serializable(json.loads(json.dumps(view.to_serializable())))\n"
             f"want = bqm.change_vartype({other!r}, inplace=False)")
    try:
        envv = run_route(src, vcode)
        okv = bqm_table(envv['new']) == bqm_table(envv['want'])
        whatv = f"{bqm_table(envv['new'])!r} != {bqm_table(envv['want'])!r}"
    except Exception as e:  # noqa
        okv = False; whatv = f'{type(e).__name__}: {e}'
    ctx.tick('bqm vartype view json'); ctx.case(('bqm view', src), nontrivial=len(bqm.variables) > 0)
    if not okv:
        ctx.fail('property', 'BQM vartype view json', 'tuple labels holding NumPy scalars / Fractions' if has_inner(bqm.variables) else 'nested tuple labels' if nested else 'labels',
                 whatv, repro=PRE + src + '\n' + vcode + '\nassert bqm_table(new) == bqm_table(want), (bqm_table(new), bqm_table(want))', detail=dict(source=src, route=vcode))
    else:
        view = envv['view']
        vdoc = view.to_serializable()
        vlabs = list(view.variables)
        vorder = [vlabs.index(v) for v in iter_deserialize_variables(vdoc['variable_labels'])]
        vquad = [(max(vlabs.index(u), vlabs.index(v)), min(vlabs.index(u), vlabs.index(v)), b) for u, v, b in view.iter_quadratic()]
        lines.append('bqmvec 1 ' + (','.join(map(str, vorder)) or '-') + ' ' + ratl([view.get_linear(v) for v in vlabs]) + ' '
                     + (';'.join(f'{a}:{b}:{rat(c)}' for a, b, c in vquad) or '-'))
        expect.append('ok ' + ratl(vdoc['linear_biases']) + ' '
                      + (';'.join(f'{a}:{b}:{rat(c)}' for a, b, c in zip(vdoc['quadratic_head'], vdoc['quadratic_tail'], vdoc['quadratic_biases'])) or '-'))
        meta.append(('BQM vartype view vectors (Python fallback)', src))
    # (i) the vectors form against the model
    doc = bqm.to_serializable()
    labs = list(bqm.variables)
    doc_labels = list(iter_deserialize_variables(doc['variable_labels']))
    order = [labs.index(v) for v in doc_labels]
    lin = [bqm.get_linear(v) for v in labs]
    quad = [(max(labs.index(u), labs.index(v)), min(labs.index(u), labs.index(v)), b) for u, v, b in bqm.iter_quadratic()]
    lines.append(f"bqmvec {int(cls == 'DictBQM')} " + (','.join(map(str, order)) or '-') + ' ' + ratl(lin) + ' ' + (';'.join(f'{a}:{b}:{rat(c)}' for a, b, c in quad) or '-'))
    expect.append('ok ' + ratl(doc['linear_biases']) + ' '
                  + (';'.join(f'{a}:{b}:{rat(c)}' for a, b, c in zip(doc['quadratic_head'], doc['quadratic_tail'], doc['quadratic_biases'])) or '-'))
    meta.append(('BQM.to_serializable vectors', src))
    # the tuple `cyBQM.__reduce__` hands to pickle (`DimodModel/PickleReduce.lean`): callable, vectors, vartype, labels
    if type(bqm.data).__name__.startswith('cyBQM'):
        fn, args = bqm.data.__reduce__()
        ld, (ir, ic, qd), off_, vt_, labels_ = args
        ctx.tick('bqm __reduce__ tuple'); ctx.case(('bqm reduce', src), nontrivial=len(labs) > 0)
        rebuilt = fn(*args)
        if (getattr(fn, '__name__', '') != 'from_numpy_vectors' or vt_ is not bqm.vartype or F(float(off_)) != F(float(bqm.offset)) or sorted(map(repr, labels_)) != sorted(map(repr, labs))
                or {v: F(float(rebuilt.get_linear(v))) for v in rebuilt.variables} != {v: F(float(bqm.get_linear(v))) for v in labs}
                or {frozenset((u, v)): F(float(b)) for u, v, b in rebuilt.iter_quadratic()} != {frozenset((u, v)): F(float(b)) for u, v, b in bqm.iter_quadratic()}):
            ctx.fail('property', 'BQM pickle', 'the __reduce__ tuple', f'`fn(*args)` of `bqm.data.__reduce__()` does not rebuild the model: {args!r}',
                     repro=PRE + src + '\nfn, args = bqm.data.__reduce__()\nnew = dimod.BinaryQuadraticModel(bqm.vartype); new.data = fn(*args)\nassert bqm_table(new) == bqm_table(bqm), args', detail=dict(source=src))
        else:
            rorder = [labs.index(v) for v in labels_]
            lines.append('cyreduce ' + (','.join(map(str, rorder)) or '-') + ' ' + ratl(lin) + ' ' + (';'.join(f'{a}:{b}:{rat(c)}' for a, b, c in quad) or '-'))
            expect.append('ok ' + ratl(ld) + ' ' + (';'.join(f'{a}:{b}:{rat(c)}' for a, b, c in zip(ir.tolist(), ic.tolist(), qd.tolist())) or '-')
                          + ' ' + (','.join(map(str, rorder)) or '-'))
            meta.append(('cyBQM.__reduce__ vectors', src))
    # the label order of the document is the sorted one whenever the labels are mutually comparable
    try:
        comparable = all((a < b) or True for a in labs for b in labs)
    except TypeError:
        comparable = False
    if comparable and labs:
        lines.append('sortlabels ' + ','.join(pv(v) for v in labs))
        expect.append('ok ' + ','.join(map(str, order)))
        meta.append(('BQM.to_serializable label order', src))


SIZE_CLASS = 'sparse model at an index-width boundary (255..300 / 65535..65537 variables)'


def check_bqm_sizes(ctx):
    """Deterministic size-boundary class (r9f): sparse BQMs whose variable count straddles 2**8 (thorough tier: 2**16),
    where some interaction reaching the highest index sorts BEFORE the last one, through every serialisation route.
    Predicate only (implementation vs original, field by field): these sizes are not fed to the Lean driver."""
    sizes = [255, 256, 257, 300] + ([65535, 65536, 65537] if ctx.scale(0, 1) else [])
    shapes = [
        ('far-first', '{(0, n - 1): 1.5, (5, 10): -2.0}'),
        ('several far', '{(0, n - 1): 1.5, (3, n - 2): -0.75, (7, n - 3): 2.0, (20, 30): 0.125, (40, 41): -3.25}'),
        ('far given high-low', '{(n - 1, 0): -1.5, (n - 2, 1): 0.75, (10, 5): 2.0}'),
        ('far star', '{(1, n - 1): 0.5, (1, n - 2): -0.5, (1, 2): 2.0, (2, 3): -1.0, (2, n - 3): 0.25, (9, 8): 4.0}'),
        ('chain at the top', '{(0, 1): 0.5, (n - 4, n - 3): -1.5, (n - 3, n - 2): 2.0, (n - 2, n - 1): 0.75}'),
        ('chain at the bottom', '{(0, 1): 0.5, (1, 2): -1.5, (2, 3): 2.0, (3, 4): 0.75, (4, 5): -0.125}'),
    ]
    labelings = [('range labels', 'list(range(n))'), ('permuted labels', '[(i * 7 + 3) % n for i in range(n)]')]
    for n in sizes:
        large = n > 1000
        for cls in (['BinaryQuadraticModel', 'Float32BQM'] if large else ['BinaryQuadraticModel', 'Float32BQM', 'DictBQM']):
            for lname, lcode in labelings:
                for vt, (sname, scode) in zip(['SPIN', 'BINARY'] * 3, shapes):
                    src = (f'n = {n}\nlabels = {lcode}\n'
                           f'bqm = dimod.{cls}({{v: (v % 5 - 2) / 4 for v in labels}}, {scode}, -2.25, {vt!r})')
                    bqm = run_route(src, 'pass')['bqm']
                    want = bqm_table(bqm)
                    for name, code in BQM_ROUTES[:4]:        # the to_serializable routes: json text, encoder/decoder, bytes payload, bytes payload pickled
                        if cls == 'DictBQM' and 'bytes' in name:
                            continue       # object-dtype biases have no byte representation
                        rp = PRE + src + '\n' + code + '\nassert bqm_table(new) == bqm_table(bqm) and new == bqm, sorted(set(bqm_table(new)[3].items()) ^ set(bqm_table(bqm)[3].items()), key=repr)'
                        ok = True
                        try:
                            new = run_route(src, code)['new']
                            got = bqm_table(new)
                        except Exception as e:  # noqa
                            ok = False; err = e
                        ctx.tick('bqm size-boundary ' + name + ('' if ok else ':raises'))
                        ctx.case(('bqm size', n, cls, lname, sname, name), nontrivial=True)
                        if not ok:
                            ctx.fail('property', 'BQM ' + name, SIZE_CLASS, f'{type(err).__name__}: {err} ({n} variables, {cls}, {lname}, interactions {scode})',
                                     repro=rp, detail=dict(source=src, route=code))
                        elif got != want or not (new == bqm):
                            fields = [f for f, a, b in zip(('vartype', 'offset', 'linear biases', 'interactions'), got, want) if a != b] or ['`new == bqm`']
                            miss = sorted(tuple(sorted(k)) for k in want[3] if got[3].get(k) != want[3][k])
                            extra = sorted(tuple(sorted(k)) for k in got[3] if k not in want[3])
                            ctx.fail('property', 'BQM ' + name, SIZE_CLASS,
                                     f'round trip changed the model ({n} variables, {cls}, {vt}, {lname}, interactions {scode}): {", ".join(fields)} differ; '
                                     f'interactions not reproduced {miss[:8]!r}, unexpected {extra[:8]!r}; {len(got[2])} variables came back',
                                     repro=rp, detail=dict(source=src, route=code))


def check_ss(ctx, r, lines, expect, meta):
    src, vt, dt, m, n = gen_ss_src(r)
    env = run_route(src, 'pass')
    ss = env['ss']
    want = ss_table(ss)
    for name, code in SS_ROUTES:
        ok = True
        try:
            new = run_route(src, code)['new']
            got = ss_table(new)
        except Exception as e:  # noqa
            ok = False; err = e
        ctx.tick('ss ' + name + ('' if ok else ':raises'))
        ctx.case(('ss', name, src), nontrivial=m > 0 and n > 0, sample=dict(source=src, route=code) if name == 'json' and vt == 'REAL' and m else None)
        icls = f'{vt} samples' if vt in ('REAL', 'INTEGER', 'DISCRETE') else 'samples'
        if not ok:
            if '.reshape(())' in src and isinstance(err, TypeError):
                icls = 'info with a 0-d array'
            elif has_inner(ss.variables):
                icls = 'tuple labels holding NumPy scalars / Fractions'
            ctx.fail('property', 'SampleSet ' + name, icls, f'{type(err).__name__}: {err}',
                     repro=PRE + src + '\n' + code + '\nassert ss_table(new) == ss_table(ss)', detail=dict(source=src, route=code))
            continue
        what = None
        if got[0] != want[0]:
            what = f'vartype {got[0]} != {want[0]}'
        elif got[1] != want[1]:
            v = next((v for v in want[1] if got[1].get(v) != want[1][v]), None)
            what = f'values of variable {v!r}: {got[1].get(v)} != {want[1].get(v)}' if v is not None else f'variables {list(got[1])} != {list(want[1])}'
            icls = icls if vt in ('REAL', 'INTEGER', 'DISCRETE') else 'sample values'
        elif got[2] != want[2]:
            what = f'data vectors {got[2]!r} != {want[2]!r}'; icls = 'data vectors'
        elif got[3] != want[3]:
            what = f'info {got[3]!r} != {want[3]!r}'; icls = 'info'
        if what:
            ctx.fail('property', 'SampleSet ' + name, icls, what, repro=PRE + src + '\n' + code + '\nassert ss_table(new) == ss_table(ss), (ss_table(new), ss_table(ss))',
                     detail=dict(source=src, route=code))
    # (i) to_serializable against the model: packing decision, packed words / plain data, labels
    for packflag in (True, False):
        try:
            doc = ss.to_serializable(pack_samples=packflag)
        except TypeError:
            break       # already reported above as a property failure of the routes
        isint = 'b' if ss.record.sample.dtype == np.bool_ else 'i' if np.issubdtype(ss.record.sample.dtype, np.integer) else 'f'
        rows = '|'.join(ratl(row) for row in ss.record.sample) or '-'
        lines.append(f'sser {ss.vartype.name} {int(packflag)} {isint} {len(ss.variables)} {len(ss)} {rows}')
        sd = doc['sample_data']
        expect.append(f"ok packed={int(doc['sample_packed'])} shape={','.join(map(str, sd['shape']))} data={pv(sd['data'])}")
        meta.append(('SampleSet.to_serializable', src))
        back = SampleSet.from_serializable(json.loads(json.dumps(doc)))
        lines.append(f"ssde {ss.vartype.name} {int(doc['sample_packed'])} {len(ss.variables)} {','.join(map(str, sd['shape']))} {pv(json.loads(json.dumps(sd['data'])))}")
        # from_serializable sorts the labels; compare in the document's own label order
        order = [list(back.variables).index(v) for v in iter_deserialize_variables(doc['variable_labels'])] if len(back.variables) else []
        expect.append('ok ' + ('|'.join(ratl([row[j] for j in order]) for row in back.record.sample) or '-'))
        meta.append(('SampleSet.from_serializable', src))


def info_pv(x):
    """an info tree (or its serialised document) in the value-tree syntax of the driver"""
    if isinstance(x, np.ndarray):
        k = 0 if x.dtype == np.bool_ else 1 if np.issubdtype(x.dtype, np.integer) else 2
        return f"T(s{'A'.encode().hex()},i{k},L({','.join('i%d' % d for d in x.shape)}),L({','.join(pv(v) for v in x.ravel().tolist())}))"
    if isinstance(x, dict):
        if x.get('type') == 'array' and 'data_type' in x:
            dt = np.dtype(x['data_type'])
            k = 0 if dt == np.bool_ else 1 if np.issubdtype(dt, np.integer) else 2
            return f"T(s{'A'.encode().hex()},i{k},L({','.join('i%d' % d for d in x['shape'])}),{pv_nested(x['data'])})"
        return 'T(s' + 'D'.encode().hex() + ''.join(f',T(s{k.encode().hex()},{info_pv(v)})' for k, v in x.items()) + ')'
    if isinstance(x, list):
        return 'L(' + ','.join(info_pv(v) for v in x) + ')'
    return pv(x)


def pv_nested(x):
    return 'L(' + ','.join(pv_nested(v) for v in x) + ')' if isinstance(x, list) else pv(x)


def check_info(ctx, r, lines, expect, meta):
    from dimod.serialization.utils import serialize_ndarrays, deserialize_ndarrays
    src = 'info = {' + ', '.join(f"'{key}': {gen_info(r)}" for key in r.sample(['timing', 'msg', 'data', 'n'], r.randint(0, 4))) + '}'
    env = {}
    exec('import numpy as np\n' + src, env)
    info = env['info']
    ctx.tick('serialize_ndarrays'); ctx.case(('info', src), nontrivial=bool(info))
    rp = (PRE + 'from dimod.serialization.utils import serialize_ndarrays, deserialize_ndarrays\n' + src +
          '\nback = deserialize_ndarrays(json.loads(json.dumps(serialize_ndarrays(info))))\nassert deep(back) == deep(info), deep(back)')
    try:
        doc = serialize_ndarrays(info)
        back = deserialize_ndarrays(json.loads(json.dumps(doc)))
    except Exception as e:  # noqa
        ctx.fail('property', 'serialize_ndarrays', 'info with a 0-d array' if '.reshape(())' in src else 'info', f'{type(e).__name__}: {e}', repro=rp, detail=dict(source=src))
        return
    if deep(back) != deep(info):
        ctx.fail('property', 'serialize_ndarrays', 'info', f'{deep(info)!r} came back as {deep(back)!r}',
                 repro=PRE + 'from dimod.serialization.utils import serialize_ndarrays, deserialize_ndarrays\n' + src +
                 '\nback = deserialize_ndarrays(json.loads(json.dumps(serialize_ndarrays(info))))\nassert deep(back) == deep(info), deep(back)', detail=dict(source=src))
    lines.append('infoser ' + info_pv(info)); expect.append('ok ' + info_pv(doc)); meta.append(('serialize_ndarrays', src))


def check_pack(ctx, r, lines, expect, meta):
    """pack_samples / unpack_samples at bit level, incl. empty shapes and widths around multiples of 32"""
    n = r.choice([0, 1, 2, 7, 8, 9, 31, 32, 33, 63, 64, 65, 95, 96, 100])
    m = r.choice([0, 1, 2, 3])
    bits = [[r.randint(0, 1) for _ in range(n)] for _ in range(m)]
    arr = np.array(bits, dtype=r.choice([bool, np.int8, np.int64])).reshape(m, n)
    packed = pack_samples(arr)
    back = unpack_samples(packed, n=n, dtype=np.int8)
    ctx.tick('pack_samples'); ctx.case(('pack', m, n, tuple(map(tuple, bits))), nontrivial=m > 0 and n > 0)
    if back.shape != (m, n) or (back != arr).any():
        code = f'from dimod.serialization.utils import pack_samples, unpack_samples\nimport numpy as np\na = np.array({bits!r}, dtype=np.int8).reshape({m}, {n})\nb = unpack_samples(pack_samples(a), n={n}, dtype=np.int8)\nassert b.shape == a.shape and (a == b).all(), b'
        ctx.fail('property', 'pack_samples/unpack_samples', f'width {n}', f'unpack(pack(x)) != x: {back.tolist()}', repro=code, detail=dict(bits=bits))
    lines.append(f'pack {n} {m} ' + ('|'.join(''.join(map(str, row)) or '-' for row in bits) or '-'))
    expect.append('ok shape=' + ','.join(map(str, packed.shape)) + ' ' + ('|'.join(','.join(str(int(w)) for w in row) or '-' for row in packed) or '-'))
    meta.append(('pack_samples', repr(bits)))
    # unpack arbitrary words
    k = r.choice([1, 2, 3]); mm = r.choice([1, 2])
    words = [[r.getrandbits(32) for _ in range(k)] for _ in range(mm)]
    nn = r.randint(0, 32 * k)
    un = unpack_samples(np.array(words, dtype=np.uint32), n=nn, dtype=np.int8)
    lines.append(f'unpack {nn} ' + '|'.join(','.join(map(str, row)) for row in words))
    expect.append('ok ' + ('|'.join(''.join(str(int(b)) for b in row) or '-' for row in un) or '-'))
    meta.append(('unpack_samples', repr(words)))
    ctx.tick('unpack_samples')


def check_ndarray(ctx, r, lines, expect, meta):
    dt = r.choice(['bool', 'int8', 'int32', 'int64', 'uint8', 'uint32', 'float32', 'float64'])
    shape = r.choice([(0,), (1,), (4,), (2, 3), (3, 0), (0, 2), (2, 2, 2), ()])
    cnt = int(np.prod(shape))
    if dt == 'bool':
        vals = [r.randint(0, 1) for _ in range(cnt)]
    elif dt.startswith('uint'):
        bits = 8 * np.dtype(dt).itemsize
        vals = [r.choice([r.randint(0, 200), 2 ** bits - 1, r.randint(0, 2 ** bits - 1)]) for _ in range(cnt)]
    elif dt.startswith('int'):
        bits = 8 * np.dtype(dt).itemsize
        vals = [r.choice([r.randint(-100, 100), -2 ** (bits - 1), 2 ** (bits - 1) - 1, -1, r.randint(-2 ** (bits - 1), 2 ** (bits - 1) - 1)]) for _ in range(cnt)]
    elif r.random() < .25:
        vals = big_row(r, cnt)
    else:
        vals = [r.choice([0.0, 1.0, -2.0, 3.5, -0.125, 100.0, 2.75]) for _ in range(cnt)]
    layout = (r.choice(['', '', '.T', '[::-1]', ".copy(order='F')", '[:, ::-1]', '[::2]']) if len(shape) == 2 else
              r.choice(['', '[::-1]', '[::2]']) if len(shape) == 1 else r.choice(['', '.transpose(2, 0, 1)', ".copy(order='F')"]) if len(shape) == 3 else '')
    src = f"a = np.array({vals!r}, dtype='{dt}').reshape({shape!r}){layout}"
    env = {}
    exec('import numpy as np\n' + src, env)
    a = env['a']
    for ub in (False, True):
        ctx.tick('ndarray ' + ('bytes' if ub else 'json')); ctx.case(('ndarray', dt, shape, layout, tuple(vals), ub), nontrivial=cnt > 0)
        try:
            doc = serialize_ndarray(a, use_bytes=ub)
            doc2 = doc if ub else json.loads(json.dumps(doc))
            b = deserialize_ndarray(doc2)
        except Exception as e:  # noqa
            ctx.fail('property', 'serialize_ndarray', f'{"0-d " if shape == () else ""}{"float" if dt.startswith("float") else dt} array {"bytes" if ub else "json"}',
                     f'{type(e).__name__}: {e} for {a!r}',
                     repro='import numpy as np, json\nfrom dimod.serialization.utils import serialize_ndarray, deserialize_ndarray\n' + src +
                     f'\nd = serialize_ndarray(a, use_bytes={ub})\nb = deserialize_ndarray(d if {ub} else json.loads(json.dumps(d)))\nassert b.dtype == a.dtype and b.shape == a.shape and (a == b).all(), b', detail=dict(source=src))
            continue
        if b.dtype != a.dtype or b.shape != a.shape or not np.array_equal(a, b):
            ctx.fail('property', 'serialize_ndarray', f'{dt} {"bytes" if ub else "json"}', f'{a!r} came back as {b!r}',
                     repro='import numpy as np, json\nfrom dimod.serialization.utils import serialize_ndarray, deserialize_ndarray\n' + src +
                     f'\nd = serialize_ndarray(a, use_bytes={ub})\nb = deserialize_ndarray(d if {ub} else json.loads(json.dumps(d)))\nassert b.dtype == a.dtype and b.shape == a.shape and (a == b).all(), b', detail=dict(source=src))
        if ub and not dt.startswith('float'):
            # the bytes payload against the model (integer-like dtypes; IEEE payloads are opaque to the model)
            sz = a.dtype.itemsize; sg = int(dt.startswith('int'))
            flat = [int(x) for x in a.ravel().tolist()]
            lines.append(f"tobytes {sz} {sg} " + (','.join(map(str, flat)) or '-'))
            expect.append('ok ' + (','.join(str(b) for b in doc['data']) or '-')); meta.append(('serialize_ndarray bytes', src))
            lines.append(f"frombytes {sz} {sg} {len(flat)} " + (','.join(str(b) for b in doc['data']) or '-'))
            expect.append('ok ' + (','.join(str(int(x)) for x in b.ravel().tolist()) or '-')); meta.append(('deserialize_ndarray bytes', src))
        if not dt.startswith('float') and dt != 'bool':
            # the whole document (keys, branch selection of deserialize_ndarray) against `DimodModel/BytesDoc.lean`; also with a
            # truncated buffer, which `np.frombuffer` / `reshape` must refuse
            sz = a.dtype.itemsize; sg = int(dt.startswith('int'))
            flat = [int(x) for x in a.ravel().tolist()]
            for drop in ((0, sz) if ub and cnt else (0,)):
                doc3 = dict(doc)
                if drop:
                    doc3['data'] = doc['data'][:len(doc['data']) - drop]
                try:
                    b3 = deserialize_ndarray(doc3 if ub else json.loads(json.dumps(doc3)))
                    back = 'some ' + (','.join(map(str, b3.shape)) or '-') + ' ' + (','.join(str(int(x)) for x in b3.ravel().tolist()) or '-')
                except Exception:  # noqa
                    back = 'none'
                payload = ('B' + (','.join(str(x) for x in doc['data']) or '-')) if ub else ('L' + pv(doc['data']))
                lines.append(f"bytesdoc {sz} {sg} " + (','.join(map(str, a.shape)) or '-') + ' ' + (','.join(map(str, flat)) or '-') + f' {int(ub)} {drop}')
                expect.append(f"ok type={doc['type']} size={np.dtype(doc['data_type']).itemsize} signed={int(np.dtype(doc['data_type']).kind == 'i')} "
                              f"shape={(','.join(map(str, doc['shape'])) or '-')} use_bytes={int(doc['use_bytes'])} data={payload} back={back}")
                meta.append(('serialize_ndarray document', src)); ctx.tick('ndarray document ' + ('bytes' if ub else 'json') + (' truncated' if drop else ''))
        if not ub:
            cls = 'b' if dt == 'bool' else 'f' if dt.startswith('float') else 'i'
            lines.append(f'serarr {cls} ' + (','.join(map(str, a.shape)) or '-') + ' ' + ratl(a.ravel().tolist()))
            expect.append('ok ' + pv(doc['data']))
            meta.append(('serialize_ndarray', src))


def check_labels(ctx, r, lines, expect, meta):
    pool = r.choice(LABEL_POOLS)
    labels = r.sample(pool, r.randint(0, len(pool)))
    if r.random() < .3 and not any(isinstance(v, tuple) and any(isinstance(x, tuple) for x in v) for v in labels):
        labels = [np.int64(v) if isinstance(v, int) else np.float32(v) if isinstance(v, float) else v for v in labels]
    src = f'vs = dimod.variables.Variables({lsrc(labels)})'
    rp = (PRE + 'from dimod.variables import iter_deserialize_variables\n' + src +
          '\nback = dimod.variables.Variables(iter_deserialize_variables(json.loads(json.dumps(vs.to_serializable()))))\nassert list(back) == list(vs), list(back)')
    inner = any(isinstance(v, tuple) and any(isinstance(x, (np.generic, F)) or isinstance(x, tuple) and any(isinstance(y, (np.generic, F, tuple)) for y in x) for x in v) for v in labels)
    icls = 'tuple labels holding NumPy scalars / Fractions' if inner else 'labels'
    vs = Variables(labels)
    ctx.tick('Variables.to_serializable'); ctx.case(('labels', lsrc(labels)), nontrivial=bool(labels))
    try:
        ser = vs.to_serializable()
        text = json.dumps(ser)
        text2 = json.dumps(ser, cls=DimodEncoder)
        back = Variables(iter_deserialize_variables(json.loads(text)))
    except Exception as e:  # noqa
        ctx.fail('property', 'Variables.to_serializable', icls, f'{type(e).__name__}: {e} for {list(vs)!r}', repro=rp, detail=dict(source=src))
        return
    if list(back) != list(vs) or text != text2 or any(isinstance(a, tuple) != isinstance(b, tuple) or isinstance(a, str) != isinstance(b, str) for a, b in zip(back, vs)):
        ctx.fail('property', 'Variables.to_serializable', icls, f'{list(vs)!r} came back as {list(back)!r}', repro=rp, detail=dict(source=src))
    lines.append('labels ' + (','.join(pv(v.item() if isinstance(v, np.generic) else v) for v in labels) or '-'))
    expect.append('ok ' + pv(json.loads(text)) + ' ' + (','.join(pv(v) for v in back) or '-'))
    meta.append(('labels', src))


def check_coo(ctx, r, lines, expect, meta):
    vt = r.choice(['SPIN', 'BINARY'])
    n = r.randint(0, 5)
    labels = r.sample(r.choice([[0, 1, 2, 3, 5, 8, 13], [3, 4, 7, 10, 11, 20], [1, 2, 4, 100, 101, 7], [5, 6, 7, 8, 9, 10]]), n)      # gaps, not starting at 0
    lin = {v: r.choice([0.0, 0.125, -1.5, 2.0, 0.75, -3.25, 1e-7]) for v in labels if r.random() < .8}
    quad = {}
    for i in range(n):
        for j in range(i + 1, n):
            if r.random() < .5:
                quad[(labels[i], labels[j]) if r.random() < .5 else (labels[j], labels[i])] = r.choice([0.0, 0.125, -1.5, 2.0, 0.75, 1.000001])
    src = f'bqm = dimod.BinaryQuadraticModel({lin!r}, {quad!r}, {r.choice([0.0, 1.5])!r}, {vt!r})'
    hdr = r.random() < .5
    code = f"new = coo.loads(coo.dumps(bqm, vartype_header={hdr}){'' if hdr else ', vartype=bqm.vartype'})"
    if r.random() < .4:
        # r8f: the file-object pair `dump` / `load` (a text stream), which must read back what `dumps` / `loads` do
        code = (f"import io\nfp = io.StringIO()\ncoo.dump(bqm, fp, vartype_header={hdr})\nfp.seek(0)\n"
                f"new = coo.load(fp{'' if hdr else ', vartype=bqm.vartype'})\nassert fp.getvalue().rstrip('\\n') == coo.dumps(bqm, vartype_header={hdr}).rstrip('\\n')")
        ctx.tick('coo dump/load through a text stream')
    env = run_route(src, code)
    bqm, new = env['bqm'], env['new']
    ctx.tick('coo'); ctx.case(('coo', src, hdr), nontrivial=bool(lin or quad))
    rnd = lambda x: F(round(float(x) * 10 ** 6), 10 ** 6)
    want_l = {v: rnd(b) for v, b in bqm.linear.items() if b}
    want_q = {frozenset(k): rnd(b) for k, b in bqm.quadratic.items()}
    got_l = {v: rnd(b) for v, b in new.linear.items() if b}
    got_q = {frozenset(k): rnd(b) for k, b in new.quadratic.items()}
    want_l = {v: b for v, b in want_l.items() if b}
    if new.vartype is not bqm.vartype or got_l != want_l or {k: v for k, v in got_q.items() if v} != {k: v for k, v in want_q.items() if v}:
        ctx.fail('property', 'coo.dumps/loads', 'round trip', f'{bqm!r} came back as {new!r}',
                 repro=PRE + src + '\n' + code + '\nR = lambda x: round(float(x), 6)\n'
                 'assert new.vartype is bqm.vartype and {v: R(b) for v, b in new.linear.items() if R(b)} == {v: R(b) for v, b in bqm.linear.items() if R(b)} '
                 'and {frozenset(k): R(b) for k, b in new.quadratic.items() if R(b)} == {frozenset(k): R(b) for k, b in bqm.quadratic.items() if R(b)}, new',
                 detail=dict(source=src))
    # the vartype header / argument logic against the model, incl. a disagreeing argument and a missing vartype
    for arg in (None, 'SPIN', 'BINARY'):
        for h in (True, False):
            text = coo.dumps(bqm, vartype_header=h)
            try:
                got_vt = 'ok ' + coo.loads(text, vartype=arg).vartype.name
            except ValueError:
                got_vt = 'err'
            want_vt = ('err' if (arg is None and not h) or (arg is not None and h and arg != vt) else 'ok ' + (arg or vt))
            ctx.tick('coo vartype header')
            if got_vt != want_vt:
                ctx.fail('property', 'coo.loads', f'vartype argument {arg} / header {h}', f'{got_vt} but expected {want_vt}',
                         repro=PRE + src + f"\ntry:\n    r = 'ok ' + coo.loads(coo.dumps(bqm, vartype_header={h}), vartype={arg!r}).vartype.name\nexcept ValueError:\n    r = 'err'\nassert r == {want_vt!r}, r",
                         detail=dict(source=src))
            lines.append(f"coovt {arg or '-'} {vt if h else '-'}"); expect.append(got_vt); meta.append(('coo vartype header', src))
    # writer against the model: the triplets (u, v, millionths)
    text = coo.dumps(bqm)
    trip = []
    for ln in text.split('\n'):
        if ln:
            u, v, b = ln.split()
            trip.append(f'{u}:{v}:{round(float(b) * 10 ** 6)}')
    labs = sorted(bqm.variables)
    lines.append('coo ' + (','.join(map(str, labs)) or '-') + ' ' + (','.join(str(round(float(bqm.linear[v]) * 10 ** 6)) for v in labs) or '-') + ' ' + (','.join(str(int(bool(bqm.linear[v]))) for v in labs) or '-') + ' '
                 + (';'.join(f'{u}:{v}:{round(float(b) * 10 ** 6)}' for (u, v), b in bqm.quadratic.items()) or '-'))
    exp_l = {v: round(float(b) * 10 ** 6) for v, b in new.linear.items()}
    expect.append('ok ' + (';'.join(trip) or '-'))
    meta.append(('coo.dumps', src))


# ------------------------------------------------------------------ COO at text level (DimodModel/CooText.lean)
COO_BIASES = [0.0, 0.125, -1.5, 2.0, 0.75, -3.25, 1e-7, -1e-7, 0.1, -0.3, 1 / 128, 3 / 128, -1 / 128, 5 / 2 ** 20, 123456.7890625, 1e15,
              0.9999995, 0.9999996, 2.5e-6, 1.5e-6, 0.5 ** 21, 33.0000005, 7.0, -0.000001, 1e-6, 4503599627370497.0]
COO_NUMS = ['1', '-1', '+1', '1.5', '.5', '5.', '-.25', '+0.125', '1e5', '1E-2', '', '+', '-', '.', '0x10', '1_000', '00012.500', 'inf', 'nan',
            '-0.000000', '1.2.3', '--1', '2.000000', '0.250000']
COO_SEPS = [' ', '  ', '\t', ' \t ', '\x0c', '\x1c', '\xa0', '\x85', '\r', '\x0b']
COO_HDRS = ['# vartype=SPIN', '#vartype=BINARY', '  # comment vartype: SPIN trailing', '\t#vartype=  BINARY', '# vartype=INTEGER', '# vartype=FOO',
            '# vartype SPIN', '#vartype=', '# vartypevartype=SPIN', '# Vartype=SPIN', 'x # vartype=SPIN', '\x0c# xx vartype:\tBINARY=3',
            '# vartype=DISCRETE', '# vartype=spin', '#  vartype = SPIN', '# vartype=REAL', '\x0b# vartype=SPIN', '# vartype=-_.', '# vartype=SPIN!']


def frs(x):
    f = F(x)
    return str(f.numerator) if f.denominator == 1 else f'{f.numerator}/{f.denominator}'


def coo_view(text, arg):
    """what `coo.loads` builds: ('err', exception class) or (vartype, variables in order, linear, quadratic) as exact doubles"""
    try:
        with warnings.catch_warnings():
            warnings.simplefilter('ignore')
            b = coo.loads(text, vartype=arg)
    except Exception as e:  # noqa: every exception class is a refusal of the text
        return 'err'
    return (b.vartype.name, list(b.variables), {v: float(x) for v, x in b.linear.items()}, {frozenset(k): float(x) for k, x in b.quadratic.items()})


def coo_model_view(out):
    if not out.startswith('ok '):
        return out
    _, vt, vs, ls, qs = out.split(' ')
    vs = [] if vs == '-' else [int(x) for x in vs.split(',')]
    ls = [] if ls == '-' else [float(F(x)) for x in ls.split(',')]      # the binary64 nearest to the model's decimal value
    q = {}
    if qs != '-':
        for t in qs.split(';'):
            u, v, b = t.split(':')
            q[frozenset((int(u), int(v)))] = float(F(b))
    return (vt, vs, dict(zip(vs, ls)), q)


def check_coo_text(ctx, r, tlines, texpect, tmeta):
    """writer: the model's text vs `coo.dumps` character for character; reader: the model's loader vs `coo.loads` on the written text
    and on hand-mutated lines; property: the loaded biases are the written ones to their printed precision (computed here from
    the exact value of the double by integer arithmetic, round-half-even)"""
    vt = r.choice(['SPIN', 'BINARY'])
    n = r.randint(0, 5)
    labels = r.sample(r.choice([[0, 1, 2, 3, 5, 8, 13], [3, 4, 7, 10, 11, 20], [1, 2, 4, 100, 101, 7], [5, 6, 7, 8, 9, 1000000]]), n)
    lin = {v: r.choice(COO_BIASES) for v in labels if r.random() < .8}
    quad = {}
    for i in range(n):
        for j in range(i + 1, n):
            if r.random() < .5:
                quad[(labels[i], labels[j]) if r.random() < .5 else (labels[j], labels[i])] = r.choice(COO_BIASES)
    src = f'bqm = dimod.BinaryQuadraticModel({lin!r}, {quad!r}, 0.0, {vt!r})'
    bqm = dimod.BinaryQuadraticModel(lin, quad, 0.0, vt)
    hdr = r.random() < .5
    arg = None if (hdr and r.random() < .6) else vt
    text = coo.dumps(bqm, vartype_header=hdr)
    ctx.tick('coo text: written'); ctx.case(('coo text', src, hdr, arg), nontrivial=bool(text))
    if any(abs(b) >= 1e15 for b in list(lin.values()) + list(quad.values())):
        ctx.tick('coo text: bias >= 1e15')
    labs = list(bqm.variables)
    tlines.append(f"coodump {int(hdr)} {vt} {','.join(map(str, labs)) or '-'} {','.join(frs(bqm.linear[v]) for v in labs) or '-'} "
                  + (';'.join(f'{u}:{v}:{frs(b)}' for (u, v), b in bqm.quadratic.items()) or '-'))
    texpect.append('ok ' + text.encode().hex() + '.'); tmeta.append(('coo.dumps text', src, None))
    # property on the real code: every bias comes back as the written one rounded to 6 decimals
    def r6(x):
        fx = F(x) * 10 ** 6
        fl = fx.numerator // fx.denominator
        rem = fx - fl
        return fl + (1 if rem > F(1, 2) or (rem == F(1, 2) and fl % 2) else 0)
    want_l = {v: float(F(r6(b), 10 ** 6)) for v, b in bqm.linear.items() if b}
    want_q = {frozenset(k): float(F(r6(b), 10 ** 6)) for k, b in bqm.quadratic.items()}
    got = coo_view(text, arg)
    ok = got != 'err' and got[0] == vt and {v: b for v, b in got[2].items() if v in want_l or b} == want_l and got[3] == want_q \
        and set(got[1]) == set(want_l) | {v for k in want_q for v in k}
    if not ok:
        ctx.fail('property', 'coo.dumps/loads', 'text round trip', f'{bqm!r} through {text!r} came back as {got!r}',
                 repro=PRE + src + f"\nnew = coo.loads(coo.dumps(bqm, vartype_header={hdr}), vartype={arg!r})\n"
                 "R = lambda x: round(float(x), 6)\n"
                 "assert new.vartype is bqm.vartype and {v: R(b) for v, b in new.linear.items() if R(b)} == {v: R(b) for v, b in bqm.linear.items() if R(b)} "
                 "and {frozenset(k): R(b) for k, b in new.quadratic.items()} == {frozenset(k): R(b) for k, b in bqm.quadratic.items()}, new",
                 detail=dict(source=src, text=text))
    tlines.append(f"cooload {arg or '-'} {text.encode().hex()}."); texpect.append(got); tmeta.append(('coo.loads of written text', src, text))
    # mutated texts: acceptance / refusal and the loaded values must correspond
    L = []
    for _ in range(r.randint(0, 4)):
        if r.random() < .25:
            L.append(r.choice(COO_HDRS)); ctx.tick('coo text: header variant')
        else:
            u = r.choice(['0', '1', '2', '01', '10', '007', '7'])
            v = r.choice(['0', '1', '2', '01', '10', '007', '7'])
            L.append(r.choice(['', ' ', '\t', '']) + u + r.choice(COO_SEPS + ['', ',']) + v + r.choice(COO_SEPS + [''])
                     + r.choice(COO_NUMS) + r.choice(['', ' ', '\r', ' x', '\t\t', ' 3']))
    if r.random() < .3:
        L = text.split('\n') + L if r.random() < .5 else L + text.split('\n')
    mtext = '\n'.join(L)
    marg = r.choice([None, None, 'SPIN', 'BINARY'])
    got = coo_view(mtext, marg)
    ctx.tick('coo text: mutated ' + ('refused' if got == 'err' else 'accepted, empty' if not got[1] else 'accepted'))
    ctx.case(('coo mutated', mtext, marg), nontrivial=bool(L))
    tlines.append(f"cooload {marg or '-'} {mtext.encode().hex()}."); texpect.append(got); tmeta.append(('coo.loads of mutated text', repr(mtext), mtext))


# ------------------------------------------------------------------ object graphs: views, expression views, held aliases

GRAPH_ROUTES = [('deepcopy', 'new = copy.deepcopy(box)'), ('pickle', 'new = pickle.loads(pickle.dumps(box))'),
                ('pickle protocol 2', 'new = pickle.loads(pickle.dumps(box, protocol=2))')]


def check_graph(ctx, r):
    """ONE copy.deepcopy / pickle call over a container holding several objects reachable from one model (the model, its
    other-vartype view, the view's view back (= the model), Linear / Quadratic / Adjacency / Variables of either) or from one
    sample set (record, variables, info, data vectors, first), in any order, and copy.copy / deepcopy / pickle of each such object
    alone, also after the attribute caches (`_spin` / `_binary`) were filled: every member of the result must reproduce its
    original, the originals must read as before, members that were one object stay one object, and a round-tripped model must
    still own its vartype view (an edit of the copy shows in the copy's view)."""
    if r.random() < .65:
        src, cls = gen_bqm_src(r)
        vt = 'SPIN' if "'SPIN')" in src.split('\n')[0] else 'BINARY'
        o, same = ('binary', 'spin') if vt == 'SPIN' else ('spin', 'binary')
        pool = ['bqm', f'bqm.{o}', f'bqm.{o}', f'bqm.{same}', f'bqm.{o}.{same}', 'bqm.linear', 'bqm.quadratic', 'bqm.adj', 'bqm.variables',
                f'bqm.{o}.linear', f'bqm.{o}.quadratic', f'bqm.{o}.adj', f'bqm.{o}.variables', f'bqm.{o}.{o}']
        kind = 'BQM'
        if r.random() < .5:
            src += f'\n_ = bqm.{o}.offset'        # fill the attribute cache before anything is copied
    else:
        src, vt, dt, m, n = gen_ss_src(r)
        pool = ['ss', 'ss', 'ss.record', 'ss.variables', 'ss.info', 'ss.record.sample', 'ss.record.energy', 'ss.data_vectors'] + (['ss.first'] if m else [])
        kind = 'SampleSet'; o = None
    k = r.choice([1, 1, 2, 2, 2, 3, 4])
    exprs = [r.choice(pool) for _ in range(k)]
    if kind == 'BQM' and k >= 2 and r.random() < .5:
        exprs[r.randrange(k)] = 'bqm'; exprs[r.randrange(k)] = f'bqm.{o}'      # the model AND its view in one call (either order)
    rname, rcode = r.choice(GRAPH_ROUTES)
    if k == 1 and r.random() < .5:
        rname, rcode = ('copy.copy', 'new = [copy.copy(box[0])]')
    if rname.startswith('pickle'):
        exprs = [e for e in exprs if e != 'ss.first'] or ['ss']        # the Sample namedtuple is not importable: pickle refuses it
    shape = r.choice(['list', 'tuple', 'dict']) if rname != 'copy.copy' else 'list'
    if shape == 'dict':
        box = 'box = {' + ', '.join(f"'k{i}': {e}" for i, e in enumerate(exprs)) + '}'
        items = [f"'k{i}'" for i in range(len(exprs))]
    else:
        box = 'box = ' + ('[' if shape == 'list' else '(') + ', '.join(exprs) + (',' if len(exprs) == 1 else '') + (']' if shape == 'list' else ')')
        items = [str(i) for i in range(len(exprs))]
    code = (box + '\nbefore = [table(box[i]) for i in (' + ', '.join(items) + ',)]\n' + rcode +
            '\nafter = [table(box[i]) for i in (' + ', '.join(items) + ',)]\ngot = [table(new[i]) for i in (' + ', '.join(items if rname != 'copy.copy' else ['0']) + ',)]'
            '\nalias = [(i, j) for i in (' + ', '.join(items) + ',) for j in (' + ', '.join(items) + ',) if box[i] is box[j] and new[i] is not new[j]]' if rname != 'copy.copy' else
            box + '\nbefore = [table(box[0])]\n' + rcode + '\nafter = [table(box[0])]\ngot = [table(new[0])]\nalias = []')
    site = f'{kind} object graph {rname}'
    icls = ('model together with its vartype view' if kind == 'BQM' and 'bqm' in exprs and f'bqm.{o}' in exprs else
            'vartype view' if kind == 'BQM' and any(e.startswith(f'bqm.{o}') for e in exprs) else 'objects reachable from one ' + kind)
    rp = PRE + src + '\n' + code + '\nassert got == before == after and not alias, (got, before, after, alias)'
    ctx.tick(f'graph {kind} {rname}: ' + icls)
    for e in set(exprs):
        ctx.tick('graph member ' + (e.replace('binary', 'VIEW').replace('spin', 'VIEW') if kind == 'BQM' and e.startswith(f'bqm.{o}') else e.replace('.binary', '.SELF').replace('.spin', '.SELF')))
    ctx.case(('graph', src, code), nontrivial=k >= 1, sample=dict(source=src, route=code) if icls.startswith('model together') else None)
    try:
        env = run_route(src, code)
        env['got'] != env['before']
    except Exception as e:  # noqa
        ctx.fail('property', site, icls, f'{type(e).__name__}: {e} for {exprs}', repro=rp, detail=dict(source=src, route=code))
        return
    if env['got'] != env['before']:
        i = next(i for i in range(len(env['got'])) if env['got'][i] != env['before'][i])
        ctx.fail('property', site, icls, f'member {exprs[i]} of {exprs} came back as {env["got"][i]!r}, was {env["before"][i]!r}', repro=rp, detail=dict(source=src, route=code))
    elif env['after'] != env['before']:
        ctx.fail('property', site, icls, f'the round trip changed the original {exprs}', repro=rp, detail=dict(source=src, route=code))
    elif env['alias']:
        ctx.fail('property', site, icls, f'one object held twice came back as two objects: {env["alias"]} of {exprs}', repro=rp, detail=dict(source=src, route=code))
    elif kind == 'BQM' and 'bqm' in exprs and rname != 'copy.copy':
        # the round-tripped model owns its own view: edit the copy, its view follows and the original's view does not
        i = items[exprs.index('bqm')]
        code2 = (code + f'\nc = new[{i}]\nwant_old = table(bqm.{o})\nc.offset += 2\nfor v in list(c.variables)[:1]:\n    c.add_linear(v, 1.5)\n'
                 f'view_ok = table(c.{o}) == table(c.change_vartype({o.upper()!r}, inplace=False)) and table(bqm.{o}) == want_old')
        ctx.tick('graph BQM: view of the round-tripped model after an edit')
        try:
            ok2 = run_route(src, code2)['view_ok']
        except Exception as e:  # noqa
            ok2 = False
        if not ok2:
            ctx.fail('property', site, 'vartype view of the round-tripped model (attribute cache)', f'after an edit of the copy its .{o} view does not show the copy (or the original\'s view changed); members {exprs}',
                     repro=PRE + src + '\n' + code2 + '\nassert view_ok', detail=dict(source=src, route=code2))


# ------------------------------------------------------------------ r8f: round trip -> in-place mutation -> round trip again, on ONE object

def check_history(ctx, r):
    """A serialiser / pickler / copier that keeps anything on the object (a cached document, label list, packed words, reduce tuple)
    answers from a stale state once the object has been edited in place.  One object, 2-4 rounds of (route, in-place edit); after every
    route the result must reproduce the object AS IT IS NOW (public accessors), and the object itself must be as the edits left it."""
    kind = r.choice(['bqm', 'ss'])
    if kind == 'bqm':
        src, cls = gen_bqm_src(r)
        name, routes, tab = 'bqm', [x for x in BQM_ROUTES if not (cls == 'DictBQM' and 'bytes' in x[0])], bqm_table
    else:
        src = gen_ss_src(r)
        src = src[0] if isinstance(src, tuple) else src
        name, routes, tab = 'ss', SS_ROUTES, ss_table
    try:
        env = run_route(src, 'pass')
    except Exception:  # noqa
        return
    obj = env[name]
    hist = [src]
    for step in range(r.randint(2, 4)):
        rname, code = r.choice(routes)
        before = tab(obj)
        try:
            with warnings.catch_warnings():
                warnings.simplefilter('ignore')
                exec(code, env)
            got = tab(env['new']); err = None
        except Exception as e:  # noqa
            got = None; err = e
        ctx.tick(f'history {kind} {rname}' + (' after in-place edits' if step else ''))
        ctx.case(('history', kind, rname, step, '\n'.join(hist)), nontrivial=step > 0 and len(obj.variables) > 0)
        site = ('BQM ' if kind == 'bqm' else 'SampleSet ') + rname
        if got != before or tab(obj) != before:
            what = (f'{type(err).__name__}: {err}' if err is not None else
                    f'round trip after in-place edits gives {got!r}, the object holds {before!r}' if got != before else f'the route changed the object: {before!r} -> {tab(obj)!r}')
            tname = 'bqm_table' if kind == 'bqm' else 'ss_table'
            ctx.fail('property', site, 'one object: round trip, in-place edit, round trip again', what,
                     repro=PRE + '\n'.join(hist) + f'\nbefore = {tname}({name})\n' + code + f'\nassert {tname}(new) == before == {tname}({name}), ({tname}(new), before)',
                     detail=dict(source='\n'.join(hist), route=code))
            return
        hist.append(code)
        labs = list(obj.variables)
        v = r.choice(labs) if labs else 'zz'
        w = r.choice(labs) if labs else 'zz'
        if kind == 'bqm':
            other = 'SPIN' if obj.vartype is dimod.BINARY else 'BINARY'
            edits = [f"bqm.relabel_variables({{{lsrc(v)}: 'RL{step}'}}, inplace=True)", f"bqm.relabel_variables({{{lsrc(v)}: {lsrc(w)}, {lsrc(w)}: {lsrc(v)}}}, inplace=True)",
                     f"bqm.add_variable('NV{step}', 1.5)", f'bqm.add_quadratic({lsrc(v)}, {lsrc(w)}, 0.25)', f'bqm.remove_variable({lsrc(v)})',
                     f'bqm.change_vartype({other!r}, inplace=True)', 'bqm.offset += 0.5', 'bqm.scale(2)', f'bqm.fix_variable({lsrc(v)}, 1)', f'bqm.flip_variable({lsrc(v)})',
                     f'bqm.set_linear({lsrc(v)}, 3.0)', f'bqm.remove_interaction({lsrc(v)}, {lsrc(w)})', 'bqm.relabel_variables_as_integers(inplace=True)',
                     f'bqm.linear[{lsrc(v)}] = -2.5', f'bqm.add_linear_from({{{lsrc(v)}: 1.0}})', f'bqm.contract_variables({lsrc(v)}, {lsrc(w)})']
        else:
            other = {'SPIN': 'BINARY', 'BINARY': 'SPIN'}.get(obj.vartype.name, obj.vartype.name)
            edits = [f"ss.relabel_variables({{{lsrc(v)}: 'RL{step}'}}, inplace=True)", f"ss.relabel_variables({{{lsrc(v)}: {lsrc(w)}, {lsrc(w)}: {lsrc(v)}}}, inplace=True)",
                     f'ss.change_vartype({other!r}, inplace=True)', f'ss.change_vartype({other!r}, energy_offset=1.5, inplace=True)', 'ss.record.energy[0] += 1.0',
                     'ss.record.sample[0, 0] = 1', 'ss.record.num_occurrences[-1] += 2', f"ss.info['added{step}'] = [1, 2]", 'ss.record.sample[:, -1] = 1']
        for e in r.sample(edits, r.randint(1, 2)):
            try:
                with warnings.catch_warnings():
                    warnings.simplefilter('ignore')
                    exec(e, env)
                hist.append(e)
            except Exception:  # noqa: not applicable to this object
                hist.append(f'try:\n    {e}\nexcept Exception:\n    pass')
        obj = env[name]


def run(ctx):
    r = ctx.rng
    ctx.rule = ('random BQMs (3 classes, 8 label pools incl. nested tuples, floats and unsortable mixes, isolated variables, zero biases) x 8 routes; deterministic sparse BQMs with 255/256/257/300 (thorough: 65535/65536/65537) variables, 6 interaction shapes whose far-reaching coupler sorts before the last one, range and permuted labels, 3 classes x the 4 to_serializable routes (predicate only); '
                'random sample sets (5 vartypes, 7 sample dtypes, widths up to 65, 0 rows / 0 columns, int/float/bool/2-d data vectors, nested info '
                'with arrays) x 8 routes; bit packing for widths around multiples of 32; ndarray (de)serialisation for 8 dtypes and 8 shapes; '
                'labels; COO (triples, and at text level: written text character for character, loader on written and hand-mutated lines).  A case = one object through one route; non-trivial = the object is not empty')
    lines, expect, meta = [], [], []
    # r8f: quick-tier volumes trimmed by a quarter (79 s wall on the merged tree); every generator still runs, the volume lives in the thorough tier
    for _ in range(ctx.scale(450, 8000)):
        check_bqm(ctx, r, lines, expect, meta)
    check_bqm_sizes(ctx)
    for _ in range(ctx.scale(450, 8000)):
        check_ss(ctx, r, lines, expect, meta)
    for _ in range(ctx.scale(600, 8000)):
        check_pack(ctx, r, lines, expect, meta)
    for _ in range(ctx.scale(600, 8000)):
        check_ndarray(ctx, r, lines, expect, meta)
    for _ in range(ctx.scale(600, 8000)):
        check_labels(ctx, r, lines, expect, meta)
    for _ in range(ctx.scale(400, 8000)):
        check_info(ctx, r, lines, expect, meta)
    for _ in range(ctx.scale(600, 8000)):
        check_coo(ctx, r, lines, expect, meta)
    for _ in range(ctx.scale(900, 12000)):
        check_graph(ctx, r)
    for _ in range(ctx.scale(400, 6000)):
        check_history(ctx, r)
    tlines, texpect, tmeta = [], [], []
    for _ in range(ctx.scale(600, 8000)):
        check_coo_text(ctx, r, tlines, texpect, tmeta)
    try:
        got = run_driver('packdriver', lines)
    except RuntimeError as e:
        ctx.notes.append(f'model driver unavailable: {e}')
        return
    ctx.corr_lines += len(lines)
    try:
        tgot = run_driver('packdriver', tlines)
    except RuntimeError as e:
        ctx.notes.append(f'model driver unavailable: {e}')
        return
    ctx.corr_lines += len(tlines)
    for i, ln in enumerate(tlines):
        g = tgot[i] if i < len(tgot) else 'MISSING'
        same = (g == texpect[i]) if ln.startswith('coodump') else (coo_model_view(g) == texpect[i])
        if not same:
            if ln.startswith('coodump') and g.startswith('ok '):
                g = repr(bytes.fromhex(g[3:-1]).decode()); e = repr(bytes.fromhex(texpect[i][3:-1]).decode())
            else:
                g = repr(coo_model_view(g)); e = repr(texpect[i])
            ctx.fail('correspondence', tmeta[i][0] + ' vs CooText model', tmeta[i][0], f'`{ln[:200]}`: impl {e[:300]} model {g[:300]}',
                     detail=dict(source=tmeta[i][1]))
            break
    prop_sites = {f['site'] for f in ctx.failures if f['kind'] == 'property'}
    for i, ln in enumerate(lines):
        g = got[i] if i < len(got) else 'MISSING'
        if g != expect[i]:
            if meta[i][0].startswith('SampleSet') and any(s.startswith('SampleSet') for s in prop_sites):
                continue    # the model follows the repaired packing decision (D14); the property failure above is the finding
            ctx.fail('correspondence', meta[i][0] + ' vs Pack model', meta[i][0], f'line {i} `{ln[:300]}`: impl `{expect[i][:300]}` model `{g[:300]}`', detail=dict(source=meta[i][1]))
            break
