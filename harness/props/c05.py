"""C05 — a CQM keeps every expression attached to the right variables under any history.

(i)  correspondence: real `dimod.ConstrainedQuadraticModel` vs the Lean model `Cqm`
     (`lean/DimodModel/Cqm.lean`, driver `cqmdriver`): after every operation the whole observable
     state (variables with type and bounds, objective and every constraint with their *private*
     variable order, linear / lower-triangle terms, offset, sense, rhs, weight, penalty, discrete and
     one-hot flags) and which calls raise (and with which exception class);
(ii) property predicate on the real object: the same state must equal what the history produces on
     `Ref` below — a plain list of label-keyed polynomials with exact `Fraction` coefficients, which
     has no indices at all (so "removing a variable only shifts indices" = nothing else changes).
     A call that raises must leave the state unchanged.  Deep copies must be equal and independent,
     views taken earlier must keep pointing at their constraint.
"""
import copy
import itertools
import os
import warnings
from fractions import Fraction as F

import numpy as np

import dimod
from dimod import BinaryQuadraticModel as BQM, ConstrainedQuadraticModel as CQM, QuadraticModel as QM
from harness.common import lab, rat, run_driver

warnings.simplefilter('ignore')

KIND = {'x': 'BINARY', 'y': 'BINARY', 'z': 'BINARY', 'w': 'BINARY', ('a', 1): 'BINARY', 0: 'BINARY',
        's': 'SPIN', 't': 'SPIN', 1: 'SPIN', 'i': 'INTEGER', 'j': 'INTEGER', 2: 'INTEGER', 'r': 'REAL'}
NEWLABS = ['q', 'p', 7, ('b', (1, 2))]
BOUNDS = {'BINARY': (0, 1), 'SPIN': (-1, 1), 'INTEGER': (-2, 3), 'REAL': (-1.5, 2.5)}
VTMIN = {'BINARY': 0, 'SPIN': -1, 'INTEGER': -(2 ** 53 - 1), 'REAL': -1e30}
VTMAX = {'BINARY': 1, 'SPIN': 1, 'INTEGER': 2 ** 53 - 1, 'REAL': 1e30}
DEFMIN = {'BINARY': 0, 'SPIN': -1, 'INTEGER': 0, 'REAL': 0}
ERRCLS = {ValueError: 'value', TypeError: 'type', KeyError: 'index', IndexError: 'index', RuntimeError: 'runtime'}
SENSES = ['<=', '>=', '==']


def fr(x):
    return F(x) if not isinstance(x, float) else F(x)


def dy(r, lo=-16, hi=16, den=4):
    return r.randint(lo, hi) / den


# ------------------------------------------------------------------------------------------------
# the specification: label-keyed polynomials, no indices

class Poly:
    def __init__(self):
        self.order = []      # labels in order of first mention (the expression's private order)
        self.lin = {}
        self.quad = {}       # frozenset({u, v}) or frozenset({u}) -> Fraction (present even when 0)
        self.off = F(0)

    def copy(self):
        p = Poly(); p.order = list(self.order); p.lin = dict(self.lin); p.quad = dict(self.quad); p.off = self.off
        return p

    def enforce(self, v):
        if v not in self.lin:
            self.order.append(v); self.lin[v] = F(0)

    def add_linear(self, v, b):
        self.enforce(v); self.lin[v] += b

    def set_linear(self, v, b):
        self.enforce(v); self.lin[v] = b

    def add_quadratic(self, u, v, b, vt):
        self.enforce(u); self.enforce(v)
        if u == v:
            if vt == 'BINARY':
                self.lin[u] += b; return
            if vt == 'SPIN':
                self.off += b; return
        k = frozenset((u, v))
        self.quad[k] = self.quad.get(k, F(0)) + b

    def substitute(self, v, m, c):
        """x_v := m * x_v + c"""
        if v not in self.lin:
            return
        kvv = frozenset((v,))
        qvv = self.quad.get(kvv, F(0))
        self.off += self.lin[v] * c + qvv * c * c
        self.lin[v] = m * self.lin[v] + 2 * qvv * m * c
        for k in list(self.quad):
            if v in k and k != kvv:
                (w,) = k - {v}
                self.lin[w] += self.quad[k] * c
                self.quad[k] *= m
        if kvv in self.quad:
            self.quad[kvv] *= m * m

    def drop(self, v):
        if v in self.lin:
            self.order.remove(v); del self.lin[v]
            for k in [k for k in self.quad if v in k]:
                del self.quad[k]

    def remove_interaction(self, u, v):
        self.quad.pop(frozenset((u, v)), None)

    def relabel(self, f):
        self.order = [f(v) for v in self.order]
        self.lin = {f(v): b for v, b in self.lin.items()}
        self.quad = {frozenset(f(v) for v in k): b for k, b in self.quad.items()}

    def show(self, canon=False):
        order = sorted(self.order, key=lab) if canon else self.order
        pos = {v: i for i, v in enumerate(order)}
        q = []
        for k, b in self.quad.items():
            ps = sorted(pos[v] for v in k)
            q.append((ps[-1], ps[0], b))
        q.sort()
        return '[' + '|'.join([','.join(lab(v) for v in order), ','.join(rat(self.lin[v]) for v in order),
                               ','.join(f'{u}:{v}:{rat(b)}' for u, v, b in q), rat(self.off)]) + ']'


class RCon:
    _n = itertools.count()

    def __init__(self, poly, sense, rhs):
        self.p, self.sense, self.rhs = poly, sense, F(rhs)
        self.weight, self.quadratic, self.marked = None, False, False
        self.uid = next(RCon._n)

    def copy(self):
        c = RCon(self.p.copy(), self.sense, self.rhs)
        c.weight, c.quadratic, c.marked, c.uid = self.weight, self.quadratic, self.marked, self.uid
        return c


class Bad(Exception):
    """the specification rejects the call (it must raise and change nothing)"""
    def __init__(self, cls='value'):
        self.cls = cls


class Ref:
    def __init__(self):
        self.vars = {}     # label -> [vt, lb, ub]   (insertion ordered)
        self.obj = Poly()
        self.cons = {}     # label -> RCon           (insertion ordered)

    def copy(self):
        r = Ref(); r.vars = {k: list(v) for k, v in self.vars.items()}; r.obj = self.obj.copy()
        r.cons = {k: c.copy() for k, c in self.cons.items()}
        return r

    # ---- observations
    def onehot(self, c):
        p = c.p
        return (not p.quad and len(p.order) >= 2 and c.sense == '==' and p.off == 0
                and all(self.vars[v][0] == 'BINARY' for v in p.order) and all(p.lin[v] == c.rhs for v in p.order))

    def discrete(self, c):
        return c.marked and self.onehot(c)

    def show(self, canon=True):
        vs = ','.join(f'{lab(v)}:{i[0]}:{rat(i[1])}:{rat(i[2])}' for v, i in self.vars.items())
        cs = []
        for l, c in self.cons.items():
            w = 'inf' if c.weight is None else rat(c.weight)
            cs.append(f'{lab(l)}{c.sense}{rat(c.rhs)};{w};{str(c.weight is not None and c.quadratic).lower()};'
                      f'{str(self.discrete(c)).lower()};{str(self.onehot(c)).lower()};{c.p.show(canon)}')
        return f'{vs} # {self.obj.show(canon)} # {" ".join(cs)}'

    def exprs(self):
        return [self.obj] + [c.p for c in self.cons.values()]

    # ---- operations
    def add_variable(self, vt, v, lb, ub):
        lbg = vt in ('SPIN', 'BINARY') or lb is not None
        ubg = vt in ('SPIN', 'BINARY') or ub is not None
        lbv = F(BOUNDS[vt][0]) if vt in ('SPIN', 'BINARY') else (F(DEFMIN[vt]) if lb is None else F(lb))
        ubv = F(BOUNDS[vt][1]) if vt in ('SPIN', 'BINARY') else (F(VTMAX[vt]) if ub is None else F(ub))
        if lbv < F(VTMIN[vt]) or ubv > F(VTMAX[vt]) or lbv > ubv:
            raise Bad()
        if v is not None and v in self.vars:
            i = self.vars[v]
            if i[0] != vt or (lbg and i[1] != lbv) or (ubg and i[2] != ubv):
                raise Bad()
            return
        if v is None:
            n = len(self.vars)
            if n in self.vars:
                n = 0
                while n in self.vars:
                    n += 1
            v = n
        self.vars[v] = [vt, lbv, ubv]

    def check_model(self, md):
        for (v, vt, lb, ub) in md['vars']:
            if v in self.vars and self.vars[v] != [vt, F(lb), F(ub)]:
                raise Bad()

    def poly_of_model(self, md):
        for (v, vt, lb, ub) in md['vars']:
            if v not in self.vars:
                self.vars[v] = [vt, F(lb), F(ub)]
        p = Poly()
        names = [t[0] for t in md['vars']]
        for v, b in zip(names, md['lin']):
            p.add_linear(v, F(b))
        for iu, iv, b in md['quad']:
            p.add_quadratic(names[iu], names[iv], F(b), self.vars[names[iu]][0])
        p.off += F(md['off'])
        return p

    def poly_of_terms(self, terms, into=None):
        """returns (poly, ok): stops at the first bad term"""
        p = Poly() if into is None else into
        for *vs, b in terms:
            if len(vs) > 2 or any(v not in self.vars for v in vs):
                return p, False
            if len(vs) == 0:
                p.off += F(b)
            elif len(vs) == 1:
                p.add_linear(vs[0], F(b))
            else:
                p.add_quadratic(vs[0], vs[1], F(b), self.vars[vs[0]][0])
        return p, True

    def check_weight(self, p, weight, penalty):
        if weight is None:
            return
        if not weight > 0 or penalty not in ('linear', 'quadratic'):
            raise Bad()
        if penalty == 'quadratic' and any(self.vars[v][0] not in ('BINARY', 'SPIN') for v in p.order):
            raise Bad()

    def push(self, p, sense, rhs, label, weight, penalty):
        self.check_weight(p, weight, penalty)
        c = RCon(p, sense, rhs)
        if weight is not None:
            c.weight, c.quadratic = F(weight), penalty == 'quadratic'
        self.cons[label] = c

    def add_constraint_model(self, md, sense, rhs, label, weight, penalty):
        if label in self.cons:
            raise Bad()
        self.check_model(md)
        # the weight is validated against the model's own variable types
        if weight is not None:
            if not weight > 0 or penalty not in ('linear', 'quadratic'):
                raise Bad()
            if penalty == 'quadratic' and any(t[1] not in ('BINARY', 'SPIN') for t in md['vars']):
                raise Bad()
        self.push(self.poly_of_model(md), sense, rhs, label, weight, penalty)

    def add_constraint_terms(self, terms, sense, rhs, label, weight, penalty):
        if label in self.cons:
            raise Bad()
        p, ok = self.poly_of_terms(terms)
        if not ok:
            raise Bad()
        self.push(p, sense, rhs, label, weight, penalty)

    def set_objective_terms(self, terms):
        p, ok = self.poly_of_terms(terms)
        if not ok:
            raise Bad()
        self.obj = p

    def in_discrete(self, v):
        return any(self.discrete(c) and v in c.p.lin for c in self.cons.values())

    def add_discrete_model(self, md, label, check, sense='==', rhs=1):
        if sense != '==' or F(rhs) != 1 or md['quad']:
            raise Bad()
        for (v, vt, lb, ub), b in zip(md['vars'], md['lin']):
            if v in self.vars:
                if (check and self.in_discrete(v)) or self.vars[v][0] != 'BINARY':
                    raise Bad()
            elif vt != 'BINARY':
                raise Bad()
            if F(b) != 1:
                raise Bad()
        self.add_constraint_model(md, '==', 1, label, None, 'linear')
        self.cons[label].marked = True

    def add_discrete_vars(self, vs, label, check):
        if label in self.cons:
            raise Bad()
        for v in vs:
            if v in self.vars and ((check and self.in_discrete(v)) or self.vars[v][0] != 'BINARY'):
                raise Bad()
        uniq = list(dict.fromkeys(vs))
        md = dict(vars=[(v, 'BINARY', 0, 1) for v in uniq], lin=[1] * len(uniq), quad=[], off=0)
        self.add_constraint_model(md, '==', 1, label, None, 'linear')
        self.cons[label].marked = True

    def need(self, v):
        if v not in self.vars:
            raise Bad()

    def drop_var(self, v):
        for p in self.exprs():
            p.drop(v)
        del self.vars[v]

    def remove_variable(self, v):
        self.need(v)
        if self.in_discrete(v):
            raise Bad()
        self.drop_var(v)

    def fix_variable(self, v, a):
        self.need(v)
        a = F(a)
        # the discrete mark is an attribute of the constraint and stays; `is_discrete` = marked and one-hot
        for p in self.exprs():
            p.substitute(v, F(0), a)
        self.drop_var(v)

    def fix_copy(self, fixed):
        for v, _ in fixed:
            self.need(v)
        n = self.copy()
        for v, a in dict(fixed).items():
            for p in n.exprs():
                p.substitute(v, F(0), F(a))
            n.drop_var(v)
        for c in n.cons.values():
            c.marked = c.marked and n.onehot(c)
        return n

    def flip(self, v):
        self.need(v)
        vt = self.vars[v][0]
        if vt == 'SPIN':
            for p in self.exprs():
                p.substitute(v, F(-1), F(0))
        elif vt == 'BINARY':
            for p in self.exprs():
                p.substitute(v, F(-1), F(1))
            self.flip_outcomes = []
            for c in self.cons.values():
                if c.marked and v in c.p.lin:
                    self.flip_outcomes.append('mark cleared (one-hot after the substitution)' if self.discrete(c) else 'mark kept (not one-hot after the substitution)')
                if self.discrete(c) and v in c.p.lin:
                    c.marked = False
        else:
            raise Bad()

    def change_vartype(self, vt, v):
        self.need(v)
        src = self.vars[v][0]
        if src == vt:
            return
        if src == 'SPIN' and vt in ('BINARY', 'INTEGER'):
            for p in self.exprs():
                p.substitute(v, F(2), F(-1))
            self.vars[v] = [vt, F(0), F(1)]
        elif src == 'BINARY' and vt == 'SPIN':
            for p in self.exprs():
                p.substitute(v, F(1, 2), F(1, 2))
            self.vars[v] = ['SPIN', F(-1), F(1)]
        elif src == 'BINARY' and vt == 'INTEGER':
            self.vars[v][0] = 'INTEGER'
        else:
            raise Bad('type')

    def remove_constraint(self, label, cascade):
        if label not in self.cons:
            raise Bad('index' if cascade else 'value')
        c = self.cons.pop(label)
        if cascade:
            for v in c.p.order:
                if all(v not in p.lin for p in self.exprs()):
                    self.drop_var(v)

    @staticmethod
    def relabel_keys(d, mp):
        """`Variables._relabel` on an insertion-ordered dict's keys (C13's list semantics)"""
        news = list(mp.values())
        if len(set(news)) < len(news):
            raise Bad()
        mp = {k: v for k, v in mp.items() if k in d}
        for new in mp.values():
            if new in d and new not in mp:
                raise Bad()
        return {mp.get(k, k): v for k, v in d.items()}

    def relabel_variables(self, mp):
        # absent keys are ignored (D8 repair); targets must stay distinct
        news = list(mp.values())
        if len(set(news)) < len(news):
            raise Bad()
        eff = {k: v for k, v in mp.items() if k in self.vars}
        for k, new in mp.items():
            if new in self.vars and new not in mp:
                raise Bad()
        f = lambda v: eff.get(v, v)  # noqa: E731
        self.vars = {f(k): i for k, i in self.vars.items()}
        for p in self.exprs():
            p.relabel(f)

    def relabel_constraints(self, mp):
        news = list(mp.values())
        if len(set(news)) < len(news):
            raise Bad()
        for k, new in mp.items():
            if new in self.cons and new not in mp:
                raise Bad()
        eff = {k: v for k, v in mp.items() if k in self.cons}
        self.cons = {eff.get(k, k): c for k, c in self.cons.items()}

    def set_bound(self, v, x, upper):
        self.need(v)
        vt, lb, ub = self.vars[v]
        x = F(x)
        if vt in ('BINARY', 'SPIN'):
            raise Bad()
        if upper:
            if x > F(VTMAX[vt]) or x < lb:
                raise Bad()
            if vt == 'INTEGER' and -(-lb.numerator // lb.denominator) > x.numerator // x.denominator:
                raise Bad()
            self.vars[v][2] = x
        else:
            if x < F(VTMIN[vt]) or x > ub:
                raise Bad()
            if vt == 'INTEGER' and -(-x.numerator // x.denominator) > ub.numerator // ub.denominator:
                raise Bad()
            self.vars[v][1] = x

    def view(self, which):
        if which is None:
            return self.obj
        if which not in self.cons:
            raise Bad('index')
        return self.cons[which].p


# ------------------------------------------------------------------------------------------------
# observation of the real object

def show_expr(e, canon=False):
    """canon=False: the expression's private order and C++ iteration order (for the model);
    canon=True: variables sorted by label, terms sorted (for the list-of-polynomials predicate)"""
    vs = list(e.variables)
    if canon:
        vs.sort(key=lab)
    pos = {v: k for k, v in enumerate(vs)}
    quad = [(max(pos[u], pos[v]), min(pos[u], pos[v]), b) for u, v, b in e.iter_quadratic()]
    if canon:
        quad.sort()
    quad = [f'{u}:{v}:{rat(b)}' for u, v, b in quad]
    return '[' + '|'.join([','.join(lab(v) for v in vs), ','.join(rat(e.get_linear(v)) for v in vs), ','.join(quad), rat(e.offset)]) + ']'


def state(cqm, canon=False):
    vars_ = ','.join(f'{lab(v)}:{cqm.vartype(v).name}:{rat(cqm.lower_bound(v))}:{rat(cqm.upper_bound(v))}' for v in cqm.variables)
    cons = []
    for l, c in cqm.constraints.items():
        w = c.lhs.weight(); ws = 'inf' if w == float('inf') else rat(w)
        cons.append(f'{lab(l)}{c.sense.value}{rat(c.rhs)};{ws};{str(c.lhs.penalty() == "quadratic").lower()};'
                    f'{str(bool(c.lhs.is_discrete())).lower()};{str(bool(c.lhs.is_onehot())).lower()};{show_expr(c.lhs, canon)}')
    return f'{vars_} # {show_expr(cqm.objective, canon)} # {" ".join(cons)}'


# ------------------------------------------------------------------------------------------------
# generators

def pick_kind(r, ref, v):
    if v in ref.vars:
        return ref.vars[v]
    vt = KIND.get(v) or r.choice(['BINARY', 'SPIN', 'INTEGER'])
    lo, hi = BOUNDS[vt]
    return [vt, F(lo), F(hi)]


def rand_model(r, ref, force_kind=None, conflict=False):
    """a QM/BQM over a random subset of the existing variables plus possibly new labels.
    returns (python source building it, description)"""
    cur = list(ref.vars)
    pool = cur + [v for v in list(KIND) + NEWLABS if v not in ref.vars]
    k = r.randint(0, 4)
    labs = []
    for _ in range(k):
        v = r.choice(cur) if cur and r.random() < .7 else r.choice(pool)
        if v not in labs:
            labs.append(v)
    if len(cur) >= 2 and r.random() < .3:
        # round 8: a window of consecutive model variables in DESCENDING model order (new labels, if any, stay in front)
        n = r.randint(2, min(len(cur), 4)); s0 = r.randint(0, len(cur) - n)
        labs = [v for v in labs if v not in cur][:1] + cur[s0:s0 + n][::-1]
    info = [pick_kind(r, ref, v) for v in labs]
    if force_kind:
        labs = [v for v, i in zip(labs, info) if i[0] == force_kind]
        info = [i for i in info if i[0] == force_kind]
    if conflict and labs:
        j = r.randrange(len(labs))
        i = list(info[j])
        if r.random() < .5 or i[0] in ('BINARY', 'SPIN'):
            i = [r.choice([t for t in ('BINARY', 'SPIN', 'INTEGER') if t != i[0]]), None, None]
            i[1], i[2] = F(BOUNDS[i[0]][0]), F(BOUNDS[i[0]][1])
        else:
            i[2] = i[2] - 1 if i[2] - 1 >= i[1] else i[2] + 1
        info[j] = i
    lin = [F(r.randint(-8, 8), 4) if r.random() < .75 else F(0) for _ in labs]
    quad = {}
    for _ in range(r.randint(0, 4) if labs else 0):
        a, b = r.randrange(len(labs)), r.randrange(len(labs))
        if info[a][0] == 'REAL' or info[b][0] == 'REAL':
            continue
        if a == b and info[a][0] != 'INTEGER':
            continue
        key = (max(a, b), min(a, b))
        quad[key] = quad.get(key, F(0)) + F(r.randint(-8, 8), 4)
    off = F(r.randint(-4, 4), 2)
    kinds = {i[0] for i in info}
    as_bqm = len(kinds) <= 1 and kinds <= {'BINARY', 'SPIN'} and r.random() < .5
    if as_bqm:
        vt = next(iter(kinds)) if kinds else r.choice(['BINARY', 'SPIN'])
        dt = r.choice(['np.float64', 'np.float32'])
        src = f'BQM({vt!r}, dtype={dt})\n'
        for v, b in zip(labs, lin):
            src += f'_m.add_variable({v!r}, {float(b)!r})\n'
        for (a, b), x in quad.items():
            src += f'_m.add_quadratic({labs[a]!r}, {labs[b]!r}, {float(x)!r})\n'
    else:
        src = 'QM()\n'
        for v, i, b in zip(labs, info, lin):
            if i[0] in ('BINARY', 'SPIN'):
                src += f'_m.add_variable({i[0]!r}, {v!r})\n'
            else:
                src += f'_m.add_variable({i[0]!r}, {v!r}, lower_bound={float(i[1])!r}, upper_bound={float(i[2])!r})\n'
            src += f'_m.set_linear({v!r}, {float(b)!r})\n'
        for (a, b), x in quad.items():
            src += f'_m.add_quadratic({labs[a]!r}, {labs[b]!r}, {float(x)!r})\n'
    src += f'_m.offset = {float(off)!r}\n'
    return '_m = ' + src


def build(src):
    ns = dict(BQM=BQM, QM=QM, np=np)
    exec(src, ns)
    return ns['_m']


def describe(qm):
    """what the model holds, read back from the object (order, types, bounds, terms in iteration order)"""
    vs = list(qm.variables); pos = {v: k for k, v in enumerate(vs)}
    if isinstance(qm, BQM):
        vt = qm.vartype.name
        info = [(v, vt, BOUNDS[vt][0], BOUNDS[vt][1]) for v in vs]
    else:
        info = [(v, qm.vartype(v).name, F(float(qm.lower_bound(v))), F(float(qm.upper_bound(v)))) for v in vs]
    return dict(vars=info, lin=[F(float(qm.get_linear(v))) for v in vs],
                quad=[(pos[u], pos[v], F(float(b))) for u, v, b in qm.iter_quadratic()], off=F(float(qm.offset)))


def model_args(md):
    a = ','.join(f'{lab(v)}~{vt}~{rat(lb)}~{rat(ub)}' for v, vt, lb, ub in md['vars']) or '-'
    b = ','.join(rat(x) for x in md['lin']) or '-'
    c = ','.join(f'{u}:{v}:{rat(x)}' for u, v, x in md['quad']) or '-'
    return f'{a} {b} {c} {rat(md["off"])}'


def rand_terms(r, ref, bad=False):
    cur = list(ref.vars)
    ts = []
    mode = r.random()
    if len(cur) >= 2 and mode < .45:
        # round 8: the expression mentions its variables in DESCENDING or INTERLEAVED model order (a window of consecutive
        # model indices mostly): one linear term per variable fixes the private order, then products among them
        n = r.randint(2, min(len(cur), 5))
        if r.random() < .7:
            s0 = r.randint(0, len(cur) - n); sel = cur[s0:s0 + n]
        else:
            sel = [cur[i] for i in sorted(r.sample(range(len(cur)), n))]
        sel.reverse()
        if mode < .15 and n >= 3:
            sel = (sel[n // 2:] + sel[:n // 2]) if r.random() < .5 else [sel[i ^ 1] if (i ^ 1) < n else sel[i] for i in range(n)]
        for v in sel:
            ts.append((v, dy(r) if r.random() < .85 else 0.0))
        for _ in range(r.randint(0, 3)):
            u, v = r.choice(sel), r.choice(sel)
            if ref.vars[u][0] == 'REAL' or ref.vars[v][0] == 'REAL':
                continue
            ts.append((u, v, dy(r)))
        if r.random() < .3:
            ts.append((dy(r, -8, 8, 2),))
    for _ in range(r.randint(0, 5) if not ts else r.randint(0, 1)):
        k = r.choice([0, 1, 1, 2, 2]) if cur else 0
        if k == 0:
            ts.append((dy(r, -8, 8, 2),))
        elif k == 1:
            ts.append((r.choice(cur), dy(r)))
        else:
            u, v = r.choice(cur), r.choice(cur)
            if ref.vars[u][0] == 'REAL' or ref.vars[v][0] == 'REAL':
                continue
            ts.append((u, v, dy(r)))
    if bad and ts:
        ts.insert(r.randrange(len(ts) + 1), r.choice([('nope', 1.0), ('nope', cur[0] if cur else 'zz', 1.0)]))
    elif bad:
        ts.append(('nope', 1.0))
    return ts


def terms_arg(ts):
    return ','.join('&'.join(lab(v) for v in t[:-1]) + '@' + rat(t[-1]) for t in ts) or '-'


PEN = {'linear': 0, 'quadratic': 1}


def errcls(e):
    for k, v in ERRCLS.items():
        if isinstance(e, k):
            return v
    return type(e).__name__


# ------------------------------------------------------------------------------------------------

PRELUDE = ('import copy, warnings\nwarnings.simplefilter("ignore")\nimport numpy as np\n'
           'from dimod import BinaryQuadraticModel as BQM, ConstrainedQuadraticModel as CQM, QuadraticModel as QM\n'
           'cqm = CQM()\n')


def repro_of(hist, expect, what):
    body = PRELUDE
    for h in hist:
        body += 'try:\n' + ''.join('    ' + ln + '\n' for ln in h.splitlines()) + 'except (ValueError, TypeError, KeyError) as e: print("raised", repr(e))\n'
    body += SHOW_SRC
    body += f'expected = {expect!r}\nprint("state   ", state(cqm))\nprint("expected", expected)\nassert state(cqm) == expected, {what!r}\n'
    return body


def repro_unexpected(hist):
    """script that fails iff the last call of the history raises something else than the documented exceptions"""
    body = PRELUDE
    for h in hist:
        body += 'try:\n' + ''.join('    ' + ln + '\n' for ln in h.splitlines()) + 'except (ValueError, TypeError, KeyError, IndexError, RuntimeError) as e: print("raised", repr(e))\n'
    return body


def repro_watch(hist, name, expect):
    """script that fails iff the object bound to `name` along the history is not in the state `expect` (canonical) at the end"""
    body = PRELUDE
    for h in hist:
        body += 'try:\n' + ''.join('    ' + ln + '\n' for ln in h.splitlines()) + 'except (ValueError, TypeError, KeyError) as e: print("raised", repr(e))\n'
    body += SHOW_SRC
    body += (f'expected = {expect!r}\nprint("watched ", state({name}))\nprint("expected", expected)\n'
             f'assert state({name}) == expected, "a model was changed by operations performed on another model object"\n')
    return body


_INFLIGHT = os.path.join(os.environ.get('VERIF_SCRATCH', '/var/tmp/dimod-verif'), f'c05-inflight-{os.getpid()}.py')


def inflight(ctx, hist, doing='about to run'):
    """the history that is running, as a script, kept in a file the crash handler of `harness/main.py` turns into the repro: if the
    interpreter dies inside the call (abort / failed assertion / segfault in the native code) the concrete failing input is not lost"""
    try:
        with open(_INFLIGHT, 'w') as fh:
            fh.write('# the interpreter died while running (or reading the model after) the LAST call of this history\n' + repro_unexpected(hist)
                     + 'print("survived")\n')
        ctx.mark(f'inflight-script: {_INFLIGHT} | {doing} `{hist[-1].splitlines()[-1][:300]}` (step {len(hist)} of a history on one CQM)')
    except OSError:
        pass


def check_watched(ctx, orig, hist):
    """`orig` = (object, state, name in the repro script, canonical state, site, input class): it must still be in that state"""
    if orig is None or state(orig[0]) == orig[1]:
        return True
    name = orig[2] if len(orig) > 2 else None
    ctx.fail('property', orig[4] if name else 'CQM.__deepcopy__', orig[5] if name else 'original changed',
             ('a model and the copy returned for it are not independent: operations on one changed the other' if name else
              'mutating a deep copy changed the model it was copied from'),
             repro=repro_watch(hist, name, orig[3]) if name else None, detail=dict(history=list(hist), original=orig[1], now=state(orig[0])))
    return False


SHOW_SRC = '''
from fractions import Fraction
import numpy as _np
def rat(x):
    f = Fraction(float(x)); return str(f.numerator) if f.denominator == 1 else f"{f.numerator}/{f.denominator}"
def lab(l):
    if isinstance(l, (bool, int, _np.integer)): return f"i:{int(l)}"
    if isinstance(l, float) and l.is_integer(): return f"i:{int(l)}"
    if isinstance(l, str): return "s:" + l.encode().hex()
    return "t:[" + "+".join(lab(x) for x in l) + "]"
def show_expr(e):
    vs = sorted(e.variables, key=lab); pos = {v: k for k, v in enumerate(vs)}
    quad = sorted((max(pos[u], pos[v]), min(pos[u], pos[v]), b) for u, v, b in e.iter_quadratic())
    quad = [f"{u}:{v}:{rat(b)}" for u, v, b in quad]
    return "[" + "|".join([",".join(lab(v) for v in vs), ",".join(rat(e.get_linear(v)) for v in vs), ",".join(quad), rat(e.offset)]) + "]"
def state(cqm):
    vars_ = ",".join(f"{lab(v)}:{cqm.vartype(v).name}:{rat(cqm.lower_bound(v))}:{rat(cqm.upper_bound(v))}" for v in cqm.variables)
    cons = []
    for l, c in cqm.constraints.items():
        w = c.lhs.weight(); ws = "inf" if w == float("inf") else rat(w)
        cons.append(f"{lab(l)}{c.sense.value}{rat(c.rhs)};{ws};{str(c.lhs.penalty() == 'quadratic').lower()};"
                    f"{str(bool(c.lhs.is_discrete())).lower()};{str(bool(c.lhs.is_onehot())).lower()};{show_expr(c.lhs)}")
    return f"{vars_} # {show_expr(cqm.objective)} # {' '.join(cons)}"
'''

# ------------------------------------------------------------------------------------------------
# every READ accessor of an expression view (round 8): the same source is executed here and in the repro scripts

ACC_SRC = """
def accessors(e, allvars):
    def num(f):
        try:
            return rat(f())
        except (ValueError, KeyError, IndexError) as ex:
            return type(ex).__name__
    vs = list(e.variables)
    out = {}
    out["variables"] = sorted(lab(v) for v in vs)
    out["num_variables"] = e.num_variables
    out["num_interactions"] = e.num_interactions
    out["shape"] = tuple(e.shape)
    out["is_linear"] = bool(e.is_linear())
    out["offset"] = rat(e.offset)
    out["get_linear"] = {lab(v): num(lambda: e.get_linear(v)) for v in allvars}
    lin = e.linear
    out["linear.items"] = sorted((lab(v), rat(b)) for v, b in lin.items())
    out["len(linear)"] = len(lin)
    out["linear[v]"] = {lab(v): num(lambda: lin[v]) for v in allvars}
    out["iter_linear"] = sorted((lab(v), rat(b)) for v, b in e.iter_linear())
    quad = e.quadratic
    out["quadratic.items"] = sorted((tuple(sorted((lab(u), lab(v)))), rat(b)) for (u, v), b in quad.items())
    out["len(quadratic)"] = len(quad)
    out["iter_quadratic"] = sorted((tuple(sorted((lab(u), lab(v)))), rat(b)) for u, v, b in e.iter_quadratic())
    near = vs + [v for v in allvars if v not in vs][:1]
    out["get_quadratic"] = {(lab(u), lab(v)): num(lambda: e.get_quadratic(u, v)) for u in near for v in near}
    out["get_quadratic default"] = {(lab(u), lab(v)): num(lambda: e.get_quadratic(u, v, default=0.375)) for u in near for v in near}
    out["quadratic[u,v]"] = {(lab(u), lab(v)): num(lambda: quad[u, v]) for u in near for v in near}
    adj = e.adj
    out["adj"] = {lab(u): sorted((lab(w), rat(b)) for w, b in adj[u].items()) for u in near}
    out["adj.keys"] = sorted(lab(u) for u in adj)
    # the private order itself is an implementation detail (the Lean model has it); it must be ONE order in every accessor
    out["one variable order in variables / linear / iter_linear / adj"] = (
        [lab(v) for v in vs] == [lab(v) for v in lin] == [lab(v) for v, _ in e.iter_linear()] == [lab(u) for u in adj])
    out["degree"] = {lab(v): e.degree(v) for v in allvars}
    out["iter_neighborhood"] = {lab(v): sorted((lab(w), rat(b)) for w, b in e.iter_neighborhood(v)) for v in allvars}
    return out
"""
_accns = dict(rat=rat, lab=lab)
exec(ACC_SRC, _accns)
accessors = _accns['accessors']


def ref_accessors(ref, p):
    """what `accessors` must return for the label-keyed polynomial `p` of the reference `ref` (definition: the coefficient of a
    model variable the expression does not mention is 0 and it has no neighbours; an absent product has no interaction)"""
    allvars = list(ref.vars)
    vs = list(p.order)
    nb = {v: [] for v in allvars}
    items = []
    for k, b in p.quad.items():
        ks = sorted(lab(v) for v in k)
        items.append(((ks[0], ks[-1]), rat(b)))
        kl = list(k)
        if len(kl) == 1:
            nb[kl[0]].append((lab(kl[0]), rat(b)))
        else:
            nb[kl[0]].append((lab(kl[1]), rat(b))); nb[kl[1]].append((lab(kl[0]), rat(b)))
    items.sort()
    out = {}
    out["variables"] = sorted(lab(v) for v in vs)
    out["num_variables"] = len(vs)
    out["num_interactions"] = len(p.quad)
    out["shape"] = (len(vs), len(p.quad))
    out["is_linear"] = not p.quad
    out["offset"] = rat(p.off)
    out["get_linear"] = {lab(v): rat(p.lin.get(v, F(0))) for v in allvars}
    out["linear.items"] = sorted((lab(v), rat(p.lin[v])) for v in vs)
    out["len(linear)"] = len(vs)
    out["linear[v]"] = dict(out["get_linear"])
    out["iter_linear"] = list(out["linear.items"])
    out["quadratic.items"] = items
    out["len(quadratic)"] = len(items)
    out["iter_quadratic"] = list(items)
    near = vs + [v for v in allvars if v not in p.lin][:1]

    def gq(u, v, absent, key=False):
        if u == v and ref.vars[u][0] in ('BINARY', 'SPIN'):
            return 'KeyError' if key else 'ValueError'
        k = frozenset((u, v))
        return rat(p.quad[k]) if k in p.quad else absent
    out["get_quadratic"] = {(lab(u), lab(v)): gq(u, v, 'ValueError') for u in near for v in near}
    out["get_quadratic default"] = {(lab(u), lab(v)): gq(u, v, rat(0.375)) for u in near for v in near}
    out["quadratic[u,v]"] = {(lab(u), lab(v)): gq(u, v, 'KeyError', key=True) for u in near for v in near}
    out["adj"] = {lab(u): sorted(nb[u]) for u in near}
    out["adj.keys"] = sorted(lab(v) for v in vs)
    out["one variable order in variables / linear / iter_linear / adj"] = True
    out["degree"] = {lab(v): len(nb[v]) for v in allvars}
    out["iter_neighborhood"] = {lab(v): sorted(nb[v]) for v in allvars}
    return out


def poly_value(p, x):
    e = p.off
    for v, b in p.lin.items():
        e += b * x[v]
    for k, b in p.quad.items():
        ks = list(k)
        e += b * x[ks[0]] * x[ks[-1]]
    return e


def order_class(ref, p):
    """the expression's private variable order relative to the model's order"""
    pos = {v: i for i, v in enumerate(ref.vars)}
    idx = [pos[v] for v in p.order]
    if len(idx) < 2:
        return 'fewer than 2 variables'
    if idx == sorted(idx):
        return 'ascending'
    if idx == sorted(idx, reverse=True):
        return 'descending'
    return 'interleaved'


def adjacent_descending(ref, p, below=None):
    """some variable with model index k+1 is listed before the one with index k (both above `below` when given)"""
    pos = {v: i for i, v in enumerate(ref.vars)}
    idx = [pos[v] for v in p.order]
    lo = -1 if below is None else pos[below]
    return any(a == b + 1 and b > lo for i, a in enumerate(idx) for b in idx[i + 1:])


def check_accessors(ctx, r, cqm, ref, hist, site, name='cqm'):
    """after a step: every read accessor of the objective and of every constraint against the reference polynomials,
    and energies of two random samples over all model variables.  Returns False after reporting a failure."""
    allvars = list(ref.vars)
    xs = []
    for _ in range(2):
        x = {}
        for v, (vt, lo, hi) in ref.vars.items():
            x[v] = r.choice([-1, 1]) if vt == 'SPIN' else (r.randint(0, 1) if vt == 'BINARY' else r.randint(-2, 3))
        xs.append(x)
    for which, p in [(None, ref.obj)] + [(l, c.p) for l, c in ref.cons.items()]:
        esrc = f'{name}.objective' if which is None else f'{name}.constraints[{which!r}].lhs'
        e = cqm.objective if which is None else cqm.constraints[which].lhs
        try:
            got = accessors(e, allvars)
        except Exception as ex:  # noqa
            got = {'raised': f'{type(ex).__name__}: {ex}'}
        want = ref_accessors(ref, p)
        if got != want:
            bad = sorted(k for k in set(got) | set(want) if got.get(k) != want.get(k))
            if 'raised' in got:
                bad = ['raised']; want = dict(want, raised=None)
            ctx.fail('property', site, 'read accessors of an expression: ' + ', '.join(bad[:4]),
                     f'after the history, `{esrc}` (private order {order_class(ref, p)}) answers {bad[0]} = {got.get(bad[0])!r}; '
                     f'the polynomial it stands for gives {want.get(bad[0])!r}',
                     repro=repro_unexpected(hist) + SHOW_SRC + ACC_SRC + f'got = accessors({esrc}, list({name}.variables))\nwant = {want!r}\n'
                     'for k in want:\n    if got[k] != want[k]: print(k, got[k], "expected", want[k])\nassert got == want\n',
                     detail=dict(history=list(hist), expression=esrc, differing=bad, impl={k: repr(got.get(k)) for k in bad}, spec={k: repr(want.get(k)) for k in bad}))
            return False
        if allvars:
            try:
                en = [F(float(t)) for t in e.energies((([[x[v] for v in allvars] for x in xs]), allvars))]
                en1 = F(float(e.energy(xs[0])))
            except Exception as ex:  # noqa
                en, en1 = f'{type(ex).__name__}: {ex}', None
            wen = [poly_value(p, {v: F(t) for v, t in x.items()}) for x in xs]
            if en != wen or en1 != wen[0]:
                ctx.fail('property', site, 'energies of an expression',
                         f'after the history, `{esrc}.energies` of {xs!r} = {en!r} (energy of the first: {en1!r}); the polynomial gives {[str(t) for t in wen]}',
                         repro=repro_unexpected(hist) + f'_v = {allvars!r}\n_xs = {xs!r}\ngot = [float(t) for t in {esrc}.energies(([[x[v] for v in _v] for x in _xs], _v))]\n'
                         f'print(got)\nassert got == {[float(t) for t in wen]!r}\nassert float({esrc}.energy(_xs[0])) == {float(wen[0])!r}\n',
                         detail=dict(history=list(hist), expression=esrc))
                return False
    return True


OPS = (['addvar'] * 3 + ['objm'] * 2 + ['objt'] + ['conm'] * 4 + ['conc'] * 2 + ['cont'] * 2 + ['discm', 'discc', 'discv', 'discv']
       + ['rmvar'] * 3 + ['fix'] * 3 + ['fixmany', 'fixcopy', 'fixcopy'] + ['flip'] * 2 + ['cvt'] * 2 + ['s2b'] + ['rmcon'] * 2
       + ['relv'] * 2 + ['relc'] + ['setb'] + ['vaddl', 'vsetl', 'vaddq', 'vaddq', 'vrmi', 'vrmv', 'voff', 'vmark', 'vweight']
       + ['deepcopy'] + ['cpapi'] * 3 + ['addvars'] * 2 + ['clear'] + ['ssl'] * 2 + ['bad'] * 3)


def classify(k, line, ref, args):
    """stable (site, input_class) of a failing step"""
    site = {'addvar': 'CQM.add_variable', 'objm': 'CQM.set_objective', 'objt': 'CQM.set_objective', 'conm': 'CQM.add_constraint',
            'conc': 'CQM.add_constraint', 'cont': 'CQM.add_constraint', 'discm': 'CQM.add_discrete', 'discc': 'CQM.add_discrete',
            'discv': 'CQM.add_discrete', 'rmvar': 'CQM.remove_variable', 'fix': 'CQM.fix_variable', 'fixmany': 'CQM.fix_variables',
            'fixcopy': 'CQM.fix_variables', 'flip': 'CQM.flip_variable', 'cvt': 'CQM.change_vartype', 's2b': 'CQM.spin_to_binary',
            'rmcon': 'CQM.remove_constraint', 'relv': 'CQM.relabel_variables', 'relc': 'CQM.relabel_constraints',
            'setb': 'CQM.set_bound', 'deepcopy': 'CQM.__deepcopy__', 'cpapi': 'CQM copy-returning call', 'addvars': 'CQM.add_variables', 'clear': 'CQM.clear', 'ssl': 'CQM.substitute_self_loops'}.get(k, 'CQM expression view')
    return site


def selfloop_on(ref, v):
    return any(frozenset((v,)) in p.quad for p in ref.exprs())


def one_history(ctx, r, nops, out):
    """runs one history on the real object and on the specification; appends protocol lines to `out`"""
    cqm = CQM(); ref = Ref(); hist = []
    out.append(dict(line='new', expect='ok ' + state(cqm), k='new', hist=()))
    ncon = [0]
    views = {}       # id(RCon) -> (view object, RCon)
    held = [cqm, cqm.variables, cqm.constraints, cqm.objective]   # objects REACHED from the model at the start: they must keep showing it
    orig = None      # (object, state string, …) of a model that was copied / is a copy and must stay as it was (`check_watched`)
    nw = [0]

    def newlabel():
        ncon[0] += 1
        return r.choice([f'c{ncon[0]}', ncon[0] + 100, ('c', ncon[0])])

    nsteps = r.randint(1, nops)
    pending_flip = None
    seed_ops = [r.choice(['addvar', 'addvar', 'objm', 'conm', 'conc', 'cont', 'discv']) for _ in range(min(nsteps, r.randint(0, 6)))]
    for step in range(nsteps):
        k = seed_ops[step] if step < len(seed_ops) else r.choice(OPS)
        if pending_flip is not None and pending_flip in ref.vars and r.random() < .7:
            k = 'flip'      # the SECOND flip of a variable of a marked constraint (restores the one-hot form: the mark is cleared)
        else:
            pending_flip = None
        vs = list(ref.vars)
        cls_ = list(ref.cons)
        anyv = lambda: r.choice(vs) if vs and r.random() < .93 else 'zz'   # noqa: E731
        anyc = lambda: r.choice(cls_) if cls_ and r.random() < .93 else 'nope'   # noqa: E731
        line = None; code = None; spec = None; newref = None; site_class = None
        ref2 = ref.copy()
        try_new = None
        if k == 'addvar':
            v = r.choice(list(KIND) + NEWLABS + [None]) if r.random() < .8 or not vs else r.choice(vs)
            vt = KIND.get(v) or r.choice(['BINARY', 'SPIN', 'INTEGER', 'REAL'])
            if v in ref.vars and r.random() < .7:
                vt = ref.vars[v][0]
            lb = ub = None
            if vt in ('INTEGER', 'REAL'):
                lo, hi = BOUNDS[vt]
                if v in ref.vars and r.random() < .6:
                    lo, hi = float(ref.vars[v][1]), float(ref.vars[v][2])
                lb = lo if r.random() < .7 else None
                ub = hi if r.random() < .7 else None
                if r.random() < .08:
                    lb, ub = 3.0, 1.0
            line = f'addvar {vt} {"-" if v is None else lab(v)} {"-" if lb is None else rat(lb)} {"-" if ub is None else rat(ub)}'
            kw = ''.join(f', {n}={x!r}' for n, x in (('lower_bound', lb), ('upper_bound', ub)) if x is not None)
            code = f'cqm.add_variable({vt!r}' + (f', {v!r}' if v is not None else '') + kw + ')'
            spec = lambda: ref2.add_variable(vt, v, lb, ub)   # noqa: E731
        elif k in ('objm', 'conm', 'conc', 'discm', 'discc'):
            force = 'BINARY' if k in ('discm', 'discc') and r.random() < .8 else None
            src = rand_model(r, ref, force_kind=force, conflict=r.random() < .06)
            if k in ('discm', 'discc') and r.random() < .8:
                # mostly proper one-hot sums so that the discrete paths succeed
                qm0 = build(src)
                src = '_m = ' + ('BQM("BINARY")\n' if r.random() < .5 else 'QM()\n')
                for v in qm0.variables:
                    src += (f'_m.add_variable({v!r}, 1.0)\n' if src.startswith('_m = BQM') else f'_m.add_variable("BINARY", {v!r})\n_m.set_linear({v!r}, 1.0)\n')
            md = describe(build(src))
            if k == 'objm':
                line = 'objm ' + model_args(md)
                code = src + 'cqm.set_objective(_m)'

                def spec():
                    ref2.check_model(md); ref2.obj = ref2.poly_of_model(md)
            elif k in ('conm', 'conc'):
                sense = r.choice(SENSES); rhs = dy(r, -8, 8, 2)
                label = newlabel() if r.random() < .93 or not cls_ else r.choice(cls_)
                cp = r.random() < .5
                weight = r.choice([.5, 2.0, 3.25]) if r.random() < .35 else None
                penalty = r.choice(['linear', 'quadratic'])
                if weight is not None and penalty == 'quadratic' and any(t[1] not in ('BINARY', 'SPIN') for t in md['vars']) and r.random() < .8:
                    penalty = 'linear'
                line = (f'conm {lab(label)} {sense} {rat(rhs)} {int(cp)} {"-" if weight is None else rat(weight)} {PEN[penalty]} '
                        + model_args(md))
                kw = f'label={label!r}, copy={cp}' + (f', weight={weight!r}, penalty={penalty!r}' if weight is not None else '')
                direct = r.random() < .3      # the method `add_constraint` dispatches to, called directly
                if direct:
                    ctx.tick('direct: add_constraint_from_' + ('model' if k == 'conm' else 'comparison'))
                if k == 'conm':
                    code = src + f'cqm.add_constraint{"_from_model" if direct else ""}(_m, {sense!r}, {rhs!r}, {kw})'
                else:
                    code = src + f'cqm.add_constraint{"_from_comparison" if direct else ""}(_m {sense} {rhs!r}, {kw})'
                spec = lambda: ref2.add_constraint_model(md, sense, rhs, label, weight, penalty)   # noqa: E731
                if weight is not None and penalty == 'quadratic' and any(t[1] not in ('BINARY', 'SPIN') for t in md['vars']):
                    site_class = ('CQM.add_constraint', 'invalid weight or penalty')
            elif k == 'discm':
                label = newlabel(); cp = r.random() < .5; chk = r.random() < .8
                line = f'discm {lab(label)} {int(cp)} {int(chk)} ' + model_args(md)
                direct = r.random() < .3
                if direct:
                    ctx.tick('direct: add_discrete_from_model')
                code = src + f'cqm.add_discrete{"_from_model" if direct else ""}(_m, label={label!r}, copy={cp}, check_overlaps={chk})'
                spec = lambda: ref2.add_discrete_model(md, label, chk)   # noqa: E731
            else:
                label = newlabel(); cp = r.random() < .5; chk = r.random() < .8
                sense = '==' if r.random() < .9 else r.choice(SENSES); rhs = 1 if r.random() < .9 else 2
                line = f'discc {lab(label)} {sense} {rat(rhs)} {int(cp)} {int(chk)} ' + model_args(md)
                direct = r.random() < .3
                if direct:
                    ctx.tick('direct: add_discrete_from_comparison')
                code = src + f'cqm.add_discrete{"_from_comparison" if direct else ""}(_m {sense} {rhs!r}, label={label!r}, copy={cp}, check_overlaps={chk})'
                spec = lambda: ref2.add_discrete_model(md, label, chk, sense, rhs)   # noqa: E731
        elif k == 'objt':
            ts = rand_terms(r, ref)
            line = 'objt ' + terms_arg(ts)
            code = f'cqm.set_objective({ts!r})'
            spec = lambda: ref2.set_objective_terms(ts)   # noqa: E731
        elif k == 'cont':
            ts = rand_terms(r, ref, bad=r.random() < .05)
            sense = r.choice(SENSES); rhs = dy(r, -8, 8, 2); label = newlabel() if r.random() < .93 or not cls_ else r.choice(cls_)
            weight = r.choice([.5, 2.0]) if r.random() < .35 else None
            penalty = 'linear' if r.random() < .6 else 'quadratic'
            if weight is not None and penalty == 'quadratic' and any(ref.vars[v][0] not in ('BINARY', 'SPIN') for t in ts for v in t[:-1] if v in ref.vars):
                penalty = 'linear'
            line = f'cont {lab(label)} {sense} {rat(rhs)} {"-" if weight is None else rat(weight)} {PEN[penalty]} {terms_arg(ts)}'
            kw = f'label={label!r}' + (f', weight={weight!r}, penalty={penalty!r}' if weight is not None else '')
            direct = r.random() < .3
            if direct:
                ctx.tick('direct: add_constraint_from_iterable')
            code = f'cqm.add_constraint{"_from_iterable" if direct else ""}({ts!r}, {sense!r}, {rhs!r}, {kw})'
            spec = lambda: ref2.add_constraint_terms(ts, sense, rhs, label, weight, penalty)   # noqa: E731
        elif k == 'discv':
            pool = [v for v in vs if ref.vars[v][0] == 'BINARY'] + ['x', 'y', 'z', 'w', ('a', 1)]
            n = r.randint(0, 4)
            dv = [r.choice(pool) for _ in range(n)]
            if r.random() < .1 and vs:
                dv.append(r.choice(vs))
            label = newlabel(); chk = r.random() < .8
            line = f'discv {lab(label)} {int(chk)} ' + (','.join(lab(v) for v in dv) or '-')
            direct = r.random() < .3
            if direct:
                ctx.tick('direct: add_discrete_from_iterable')
            code = f'cqm.add_discrete{"_from_iterable" if direct else ""}({dv!r}, label={label!r}, check_overlaps={chk})'
            spec = lambda: ref2.add_discrete_vars(dv, label, chk)   # noqa: E731
        elif k == 'rmvar':
            v = anyv(); line = f'rmvar {lab(v)}'; code = f'cqm.remove_variable({v!r})'
            spec = lambda: ref2.remove_variable(v)   # noqa: E731
        elif k == 'fix':
            v = anyv(); a = r.choice([-1, 0, 1, 2, 0.5]); line = f'fix {lab(v)} {rat(a)}'; code = f'cqm.fix_variable({v!r}, {a!r})'
            spec = lambda: ref2.fix_variable(v, a)   # noqa: E731
            if v in ref.vars and selfloop_on(ref, v):
                site_class = ('CQM.fix_variable', 'self-loop')
        elif k in ('fixmany', 'fixcopy'):
            n = r.randint(0, min(3, len(vs)))
            fv = r.sample(vs, n) + (['zz'] if r.random() < .05 else [])
            fx = [(v, r.choice([-1, 0, 1, 2])) for v in fv]
            arg = dict(fx) if r.random() < .5 else fx
            pairs = ','.join(f'{lab(v)}={rat(a)}' for v, a in fx) or '-'
            if k == 'fixmany':
                line = f'fixmany {pairs}'; code = f'cqm.fix_variables({arg!r})'

                def spec():
                    for v, a in fx:
                        ref2.fix_variable(v, a)
                if any(v in ref.vars and selfloop_on(ref, v) for v in fv):
                    site_class = ('CQM.fix_variable', 'self-loop')
                if 'zz' in fv and len(fv) > 1:
                    site_class = ('CQM.fix_variables', 'unknown variable after valid ones')
            else:
                line = f'fixcopy {pairs}'; code = f'new = cqm.fix_variables({arg!r}, inplace=False)'
                try_new = True
                spec = lambda: ref2.fix_copy(fx)   # noqa: E731
        elif k == 'flip':
            v = anyv()
            if r.random() < .5:
                # round 8: aim at the branch of the Python `flip_variable` that CLEARS a mark — a variable whose flip makes a marked
                # constraint one-hot again (e.g. the second flip of a variable of a discrete constraint), else any variable of a marked one
                cand = []; anym = []
                for c_ in ref.cons.values():
                    if c_.marked:
                        for u_ in c_.p.order:
                            if ref.vars[u_][0] == 'BINARY':
                                anym.append(u_)
                                t_ = ref.copy(); t_.flip(u_)
                                if any(o.startswith('mark cleared') for o in t_.flip_outcomes):
                                    cand.append(u_)
                if cand or anym:
                    v = r.choice(cand) if cand and r.random() < .7 else r.choice(anym)
            if pending_flip is not None:
                v, pending_flip = pending_flip, None
            elif v in ref.vars and any(c_.marked and v in c_.p.lin for c_ in ref.cons.values()):
                pending_flip = v
            line = f'flip {lab(v)}'; code = f'cqm.flip_variable({v!r})'
            spec = lambda: ref2.flip(v)   # noqa: E731
        elif k == 'cvt':
            v = anyv(); vt = r.choice(['BINARY', 'SPIN', 'INTEGER', 'INTEGER', 'REAL']); line = f'cvt {vt} {lab(v)}'
            code = f'cqm.change_vartype({vt!r}, {v!r})'
            spec = lambda: ref2.change_vartype(vt, v)   # noqa: E731
        elif k == 's2b':
            line = 's2b'; code = 'cqm.spin_to_binary(inplace=True)'

            def spec():
                for v in list(ref2.vars):
                    if ref2.vars[v][0] == 'SPIN':
                        ref2.change_vartype('BINARY', v)
        elif k == 'rmcon':
            l = anyc(); cas = r.random() < .5; line = f'rmcon {lab(l)} {int(cas)}'
            code = f'cqm.remove_constraint({l!r}, cascade={cas})'
            spec = lambda: ref2.remove_constraint(l, cas)   # noqa: E731
        elif k in ('relv', 'relc'):
            cur = vs if k == 'relv' else cls_
            pool = cur + (['nope'] if r.random() < .1 else [])
            if not pool:
                mp = {}
            else:
                ks = r.sample(pool, r.randint(1, min(len(pool), 3)))
                mode = r.random()
                if mode < .3 and len(ks) > 1:
                    mp = {ks[i]: ks[(i + 1) % len(ks)] for i in range(len(ks))}
                elif mode < .5:
                    mp = {x: r.choice([cur.index(x) if x in cur else 0, len(cur), r.randrange(len(cur) + 1)]) for x in ks}
                else:
                    mp = {x: r.choice((list(KIND) if k == 'relv' else ['c1', 'c2', 'k', 5]) + NEWLABS) for x in ks}
            line = f'{k} ' + (','.join(f'{lab(a)}={lab(b)}' for a, b in mp.items()) or '-')
            code = f'cqm.relabel_{"variables" if k == "relv" else "constraints"}({mp!r})'
            spec = (lambda: ref2.relabel_variables(mp)) if k == 'relv' else (lambda: ref2.relabel_constraints(mp))
        elif k == 'setb':
            v = anyv(); upper = r.random() < .5; x = r.choice([-3, -2, -1.5, 0, 0.5, 1, 2.5, 3, 4])
            line = f'{"setub" if upper else "setlb"} {lab(v)} {rat(x)}'
            code = f'cqm.set_{"upper" if upper else "lower"}_bound({v!r}, {x!r})'
            spec = lambda: ref2.set_bound(v, x, upper)   # noqa: E731
        elif k in ('vaddl', 'vsetl', 'vaddq', 'vrmi', 'vrmv', 'voff'):
            which = None if r.random() < .3 or not cls_ else anyc()
            wsrc = 'cqm.objective' if which is None else f'cqm.constraints[{which!r}].lhs'
            wl = '-' if which is None else lab(which)
            if k in ('vaddl', 'vsetl'):
                v = anyv(); b = dy(r)
                line = f'{k} {wl} {lab(v)} {rat(b)}'; code = f'{wsrc}.{"add" if k == "vaddl" else "set"}_linear({v!r}, {b!r})'

                def spec():
                    p = ref2.view(which); ref2.need(v)
                    (p.add_linear if k == 'vaddl' else p.set_linear)(v, F(b))
            elif k == 'vaddq':
                u, v, b = anyv(), anyv(), dy(r)
                if r.random() < .25:
                    v = u
                line = f'vaddq {wl} {lab(u)} {lab(v)} {rat(b)}'; code = f'{wsrc}.add_quadratic({u!r}, {v!r}, {b!r})'

                def spec():
                    p = ref2.view(which); ref2.need(u); ref2.need(v)
                    if u == v and ref2.vars[u][0] in ('SPIN', 'BINARY'):
                        raise Bad()
                    if ref2.vars[u][0] == 'REAL' or ref2.vars[v][0] == 'REAL':
                        raise Bad()
                    p.add_quadratic(u, v, F(b), ref2.vars[u][0])
            elif k == 'vrmi':
                u, v = anyv(), anyv()
                line = f'vrmi {wl} {lab(u)} {lab(v)}'; code = f'{wsrc}.remove_interaction({u!r}, {v!r})'

                def spec():
                    p = ref2.view(which); ref2.need(u); ref2.need(v); p.remove_interaction(u, v)
            elif k == 'vrmv':
                v = anyv()
                line = f'vrmv {wl} {lab(v)}'; code = f'{wsrc}.remove_variable({v!r})'

                def spec():
                    p = ref2.view(which); ref2.need(v); p.drop(v)
            else:
                b = dy(r)
                line = f'voff {wl} {rat(b)}'; code = f'{wsrc}.offset = {b!r}'

                def spec():
                    ref2.view(which).off = F(b)
        elif k == 'vmark':
            l = anyc(); mk = r.random() < .6
            line = f'vmark {lab(l)} {int(mk)}'; code = f'cqm.constraints[{l!r}].lhs.mark_discrete({mk})'

            def spec():
                ref2.view(l); ref2.cons[l].marked = mk
        elif k == 'vweight':
            l = anyc(); weight = r.choice([None, .5, 2.0, 4.0]); penalty = r.choice(['linear', 'quadratic'])
            line = f'vweight {lab(l)} {"-" if weight is None else rat(weight)} {PEN[penalty]}'
            code = f'cqm.constraints[{l!r}].lhs.set_weight({weight!r}, penalty={penalty!r})'

            def spec():
                p = ref2.view(l)
                if penalty == 'quadratic' and any(ref2.vars[v][0] not in ('BINARY', 'SPIN') for v in p.order):
                    raise Bad()
                c = ref2.cons[l]
                c.weight = None if weight is None else F(weight); c.quadratic = penalty == 'quadratic'
        elif k == 'deepcopy':
            before = state(cqm)
            new = copy.deepcopy(cqm)
            ctx.tick('deepcopy')
            hist.append('_old = cqm; cqm = copy.deepcopy(cqm)')
            if state(new) != before:
                ctx.fail('property', 'CQM.__deepcopy__', 'copy differs', f'deep copy differs from the original: {state(new)} vs {before}',
                         repro=repro_of(hist, ref.show(canon=True), 'deep copy differs'), detail=dict(history=list(hist)))
                return
            if not check_watched(ctx, orig, hist[:-1]):
                return
            nw[0] += 1
            hist[-1] = f'_w{nw[0]} = cqm; cqm = copy.deepcopy(cqm)'
            orig = (cqm, before, f'_w{nw[0]}', state(cqm, canon=True), 'CQM.__deepcopy__', 'original changed')
            cqm = new
            views = {}
            ctx.case(('deepcopy', before), nontrivial=True)
            if not check_accessors(ctx, r, cqm, ref, hist, 'CQM.__deepcopy__'):
                return
            continue
        elif k == 'cpapi':
            # every call documented to RETURN A COPY (relabel_variables / spin_to_binary / fix_variables with inplace=False),
            # with trivial arguments too (empty / identity mapping, nothing to convert, nothing to fix): the result must be the
            # specification's, the model itself untouched, and the two objects independent under the REST OF THE HISTORY —
            # either the history goes on on the copy and the original is watched, or it goes on on the original and the copy is watched
            sub = r.choice(['relv-empty', 'relv-empty', 'relv-identity', 'relv-new', 'relv-swap', 's2b', 's2b-default', 'fix-empty', 'fix'])
            before = state(cqm)
            ref2 = ref.copy(); dline = None
            try:
                if sub.startswith('relv'):
                    if sub == 'relv-empty' or not vs:
                        mp = {}; sub = 'relv-empty'
                    elif sub == 'relv-identity':
                        mp = {v: v for v in r.sample(vs, r.randint(1, len(vs)))}
                    elif sub == 'relv-new':
                        fresh = [x for x in NEWLABS if x not in ref.vars]
                        ks = r.sample(vs, min(len(vs), len(fresh), r.randint(1, 2)))
                        mp = dict(zip(ks, r.sample(fresh, len(ks))))
                    else:
                        ks = r.sample(vs, min(len(vs), r.choice([2, 2, 3])))
                        mp = {ks[i]: ks[(i + 1) % len(ks)] for i in range(len(ks))}
                    call = f'cqm.relabel_variables({mp!r}, inplace=False)'
                    ref2.relabel_variables(mp)
                    dline = 'relv ' + (','.join(f'{lab(a)}={lab(b)}' for a, b in mp.items()) or '-')
                    site = 'CQM.relabel_variables'
                    icls = 'inplace=False, ' + {'relv-empty': 'empty mapping', 'relv-identity': 'identity mapping'}.get(sub, 'mapping')
                elif sub.startswith('s2b'):
                    call = 'cqm.spin_to_binary(inplace=False)' if sub == 's2b' else 'cqm.spin_to_binary()'
                    nspin = 0
                    for v in list(ref2.vars):
                        if ref2.vars[v][0] == 'SPIN':
                            ref2.change_vartype('BINARY', v); nspin += 1
                    dline = 's2b'
                    site = 'CQM.spin_to_binary'
                    icls = 'inplace=False' + ('' if nspin else ', no SPIN variable')
                else:
                    fx = [] if sub == 'fix-empty' else [(v, r.choice([-1, 0, 1, 2])) for v in r.sample(vs, r.randint(0, min(2, len(vs))))]
                    arg = dict(fx) if r.random() < .5 else fx
                    call = f'cqm.fix_variables({arg!r}, inplace=False)'
                    ref2 = ref.fix_copy(fx)
                    site = 'CQM.fix_variables'
                    icls = 'inplace=False' + ('' if fx else ', nothing to fix')
            except Bad:
                continue
            nw[0] += 1
            name = f'_w{nw[0]}'
            try:
                new = eval(call, dict(cqm=cqm))
            except (ValueError, TypeError, KeyError, IndexError, RuntimeError):
                continue          # what raises is examined by the in-place forms of these calls
            ctx.tick(f'copy-returning call: {sub}')
            if not check_watched(ctx, orig, hist):
                return
            if new is cqm:
                ctx.fail('property', site, icls, f'`{call}` returned the model itself, not a copy: whatever is done to the result is done to the model',
                         repro=repro_unexpected(hist) + f'new = {call}\nnew.add_variable("BINARY", "__probe__")\n'
                         'assert "__probe__" not in cqm.variables, "the model changed when the returned copy was changed"\n',
                         detail=dict(history=list(hist), call=call))
                return
            if state(new, canon=True) != ref2.show(canon=True) or state(cqm) != before:
                ctx.fail('property', site, icls + ': result', f'`{call}`: the returned model is not what the call gives on a list of polynomials, or the model itself changed',
                         repro=repro_unexpected(hist) + SHOW_SRC + f'_b = state(cqm)\nnew = {call}\nprint(state(new))\n'
                         f'assert state(cqm) == _b, "the model itself changed"\nassert state(new) == {ref2.show(canon=True)!r}\n',
                         detail=dict(history=list(hist), call=call, impl=state(new, canon=True), spec=ref2.show(canon=True)))
                return
            ctx.case(('cpapi', call, before), nontrivial=True)
            if not check_accessors(ctx, r, new, ref2, hist + [f'new = {call}'], site, name='new'):
                return
            if dline is not None and r.random() < .6:
                # the history continues on the copy; the original is watched
                hist.append(f'{name} = cqm; cqm = {call}')
                orig = (cqm, before, name, state(cqm, canon=True), site, icls + ': original changed through the copy')
                cqm = new; ref = ref2; views = {}
                out.append(dict(line=dline, expect='ok ' + state(cqm), k=dline.split()[0], hist=tuple(hist)))
            else:
                # the history continues on the original; the copy is watched
                hist.append(f'{name} = {call}')
                orig = (new, state(new), name, state(new, canon=True), site, icls + ': copy changed through the original')
            continue
        elif k == 'clear':
            if r.random() < .85:
                continue            # rare: it ends the interesting part of a history
            line = 'new'; code = 'cqm.clear()'

            def spec():
                ref2.__dict__.update(Ref().__dict__)
        elif k == 'addvars':
            # add_variables(vartype, variables | n): documented as NOT atomic — the variables before an inconsistent one stay
            vt = r.choice(['BINARY', 'SPIN', 'INTEGER', 'REAL'])
            if r.random() < .2:
                arg = r.randint(0, 3); labs_ = list(range(arg))
            else:
                pool = [v for v in list(KIND) + NEWLABS if KIND.get(v, vt) == vt or r.random() < .08]
                labs_ = r.sample(pool, min(len(pool), r.randint(0, 3)))
                if labs_ and r.random() < .15:
                    labs_.append(labs_[0])
                arg = labs_
            lb = ub = None
            if vt in ('INTEGER', 'REAL') and r.random() < .6:
                lb, ub = BOUNDS[vt]
            kw = ''.join(f', {n}={x!r}' for n, x in (('lower_bound', lb), ('upper_bound', ub)) if x is not None)
            code = f'cqm.add_variables({vt!r}, {arg!r}{kw})'
            before = state(cqm)
            hist.append(code)
            try:
                exec(code, dict(cqm=cqm)); outcome = 'ok'
            except ValueError:
                outcome = 'err:value'
            except Exception as e:  # noqa
                ctx.fail('property', 'CQM.add_variables', f'unexpected {type(e).__name__}', f'`{code}` raised {type(e).__name__}: {e}',
                         repro=repro_unexpected(hist), detail=dict(history=list(hist)))
                return
            sout = 'ok'
            nadded = 0
            for v in labs_:
                try:
                    ref2.add_variable(vt, v, lb, ub); nadded += 1
                except Bad:
                    sout = 'err:value'
                    break
            ctx.tick('addvars' + ('' if outcome == 'ok' else ':raises'))
            ctx.case((code, before), nontrivial=True)
            if outcome != sout or state(cqm, canon=True) != ref2.show(canon=True):
                ctx.fail('property', 'CQM.add_variables', 'state' if outcome == sout else 'accept/reject',
                         f'`{code}` ({outcome}): the model is not what adding the variables one by one (up to the first inconsistent one) gives on a list of polynomials',
                         repro=repro_of(hist, ref2.show(canon=True), 'state after add_variables'), detail=dict(history=list(hist), impl=state(cqm, canon=True), spec=ref2.show(canon=True)))
                return
            ref = ref2
            if not check_accessors(ctx, r, cqm, ref, hist, 'CQM.add_variables'):
                return
            # the Lean model follows with one `addvar` per variable that was processed (the last line carries the comparison)
            done = labs_[:nadded + (1 if sout != 'ok' else 0)]
            for j, v in enumerate(done):
                ln = f'addvar {vt} {lab(v)} {"-" if lb is None else rat(lb)} {"-" if ub is None else rat(ub)}'
                last = j == len(done) - 1
                out.append(dict(line=ln, expect=(f'{outcome} {state(cqm)}' if last else None), k='addvar', hist=tuple(hist)))
            continue
        elif k == 'ssl':
            # substitute_self_loops(): every self-loop b*u*u of a non-BINARY/SPIN variable becomes b*u*new with a new variable of the
            # same type and bounds, plus one constraint `u - new == 0` labelled `new` per substituted variable.  The new labels are
            # chosen by the call (random); the specification is applied with the returned mapping, which must name exactly the
            # variables that had a self-loop, in order of first encounter (objective, then constraints), with fresh labels.
            before = state(cqm)
            code = '_mp = cqm.substitute_self_loops()'
            hist.append(code)
            ns = dict(cqm=cqm)
            try:
                exec(code, ns)
            except Exception as e:  # noqa
                ctx.fail('property', 'CQM.substitute_self_loops', f'unexpected {type(e).__name__}', f'`{code}` raised {type(e).__name__}: {e}',
                         repro=repro_unexpected(hist), detail=dict(history=list(hist)))
                return
            mp = dict(ns['_mp'])
            ref2 = ref.copy()
            want_keys = []; plines = []; okspec = all(n not in ref.vars and n not in ref.cons for n in mp.values()) and len(set(mp.values())) == len(mp)
            for which, p in [(None, ref2.obj)] + [(l, c.p) for l, c in ref2.cons.items()]:
                wl = '-' if which is None else lab(which)
                for u in list(p.order):
                    if ref2.vars[u][0] in ('SPIN', 'BINARY') or frozenset((u,)) not in p.quad:
                        continue
                    bias = p.quad[frozenset((u,))]
                    if u not in want_keys:
                        want_keys.append(u)
                    new = mp.get(u)
                    if new is None:
                        okspec = False
                        continue
                    vt, lo, hi = ref2.vars[u]
                    if new not in ref2.vars:
                        ref2.add_variable(vt, new, lo, hi)
                        plines.append(f'addvar {vt} {lab(new)} {rat(float(lo))} {rat(float(hi))}')
                    p.add_quadratic(u, new, bias, vt); plines.append(f'vaddq {wl} {lab(u)} {lab(new)} {rat(float(bias))}')
                    p.remove_interaction(u, u); plines.append(f'vrmi {wl} {lab(u)} {lab(u)}')
            for v, new in mp.items():
                if v in ref2.vars and new in ref2.vars and new not in ref2.cons:
                    ts = [(v, 1), (new, -1)]
                    ref2.add_constraint_terms(ts, '==', 0, new, None, 'linear')
                    plines.append(f'cont {lab(new)} == 0 - 0 {terms_arg(ts)}')
                else:
                    okspec = False
            ctx.tick('ssl' + (': nothing to substitute' if not want_keys else f': {min(len(want_keys), 3)} variable(s)'))
            ctx.case((code, before), nontrivial=bool(want_keys))
            if not okspec or list(mp) != want_keys or state(cqm, canon=True) != ref2.show(canon=True):
                ctx.fail('property', 'CQM.substitute_self_loops', 'state' if okspec and list(mp) == want_keys else 'returned mapping',
                         f'`{code}` returned {mp!r}; the variables with a self-loop are {want_keys!r}; the model is ' +
                         ('not ' if state(cqm, canon=True) != ref2.show(canon=True) else '') + 'what the substitution gives on a list of polynomials',
                         repro=None, detail=dict(history=list(hist), impl=state(cqm, canon=True), spec=ref2.show(canon=True), mapping=repr(mp)))
                return
            ref = ref2
            if not check_accessors(ctx, r, cqm, ref, hist, 'CQM.substitute_self_loops'):
                return
            for j, ln in enumerate(plines):
                out.append(dict(line=ln, expect=(f'ok {state(cqm)}' if j == len(plines) - 1 else None), k='ssl', hist=tuple(hist)))
            continue
        elif k == 'bad':
            # malformed calls whose effect on raise is examined separately
            sub = r.choice(['objt', 'weight', 'penalty', 'qpen'])
            if sub == 'objt':
                ts = rand_terms(r, ref, bad=True)
                line = 'objt ' + terms_arg(ts); code = f'cqm.set_objective({ts!r})'
                spec = lambda: ref2.set_objective_terms(ts)   # noqa: E731
                site_class = ('CQM.set_objective', 'iterable with an unknown variable')
            else:
                ts = rand_terms(r, ref)
                if sub == 'qpen':
                    iv = [v for v in vs if ref.vars[v][0] in ('INTEGER', 'REAL')]
                    if not iv:
                        continue
                    ts.append((r.choice(iv), 1.0))
                label = newlabel(); sense = r.choice(SENSES); rhs = dy(r, -8, 8, 2)
                weight = {'weight': r.choice([-1.0, 0.0]), 'penalty': 2.0, 'qpen': 2.0}[sub]
                penalty = {'weight': 'linear', 'penalty': 'cubic', 'qpen': 'quadratic'}[sub]
                line = f'cont {lab(label)} {sense} {rat(rhs)} {rat(weight)} {PEN.get(penalty, 2)} {terms_arg(ts)}'
                code = f'cqm.add_constraint({ts!r}, {sense!r}, {rhs!r}, label={label!r}, weight={weight!r}, penalty={penalty!r})'
                spec = lambda: ref2.add_constraint_terms(ts, sense, rhs, label, weight, penalty)   # noqa: E731
                site_class = ('CQM.add_constraint', 'invalid weight or penalty')
            k = 'bad:' + sub

        # ---- run on the real object
        before = state(cqm)
        hist.append(code)
        inflight(ctx, hist)
        ns = dict(cqm=cqm, BQM=BQM, QM=QM, np=np, copy=copy)
        outcome = 'ok'
        try:
            exec(code, ns)
        except (ValueError, TypeError, KeyError, IndexError, RuntimeError) as e:
            outcome = 'err:' + errcls(e)
        except Exception as e:  # any other exception class is a failure by itself
            after = state(cqm)
            ctx.fail('property', classify(k, line, ref, None), f'unexpected {type(e).__name__}',
                     f'`{code.splitlines()[-1]}` raised {type(e).__name__}: {e}',
                     repro=repro_unexpected(hist), detail=dict(history=list(hist)))
            return
        try:
            after = state(cqm)
        except Exception as e:  # noqa — reading the model must never raise
            ctx.fail('property', classify(k, line, ref, None), 'reading the model raises',
                     f'after `{code.splitlines()[-1]}` ({outcome}) reading the variables / terms of the model raised {type(e).__name__}: {e}',
                     repro=repro_unexpected(hist) + SHOW_SRC + 'print(state(cqm))\n', detail=dict(history=list(hist)))
            return
        tgt = ns['new'] if (try_new and outcome == 'ok') else cqm
        srcs = ''
        if k in ('objm', 'conm', 'conc', 'discm', 'discc'):
            # what is left of the model object that was handed over (copy=False moves it into the CQM and clears it)
            _m = ns['_m']
            srcs = f' src={_m.num_variables}:{rat(_m.offset)}:{_m.num_interactions}'
            moved = k != 'objm' and not cp
            left = describe(_m)
            if outcome == 'ok' and moved:
                oksrc = _m.num_variables == 0 and _m.num_interactions == 0 and _m.offset == 0
                wsrc = 'empty (moved into the CQM)'
            elif outcome == 'ok' or after == before:
                oksrc = left == md
                wsrc = 'unchanged'
            else:
                oksrc = True      # raised after the constraint was added (reported as a changed model below)
                wsrc = ''
            if not oksrc:
                ctx.fail('property', classify(k, line, ref, None), 'source model after the call',
                         f'after `{code.splitlines()[-1]}` ({outcome}) the model handed over should be {wsrc}; it has '
                         f'{_m.num_variables} variables, {_m.num_interactions} interactions, offset {_m.offset}',
                         repro=repro_unexpected(hist) + f'print(_m.num_variables, _m.num_interactions, _m.offset)  # expected: {wsrc}\n',
                         detail=dict(history=list(hist)))
                return
        out.append(dict(line=line, expect=f'{outcome} {state(tgt)}{srcs}', k=k, hist=tuple(hist)))
        shown = state(tgt, canon=True)
        ctx.tick(k + ('' if outcome == 'ok' else ':raises'))
        # ---- run on the specification
        try:
            res = spec()
            sout = 'ok'
        except Bad as b:
            sout = 'err:' + b.cls
            ref2 = ref
            res = None
        want = res.show(canon=True) if (try_new and sout == 'ok') else ref2.show(canon=True)
        ctx.case((line, before), nontrivial=(after != before) or outcome != 'ok' or bool(try_new),
                 sample=dict(history=list(hist)) if len(hist) == 5 else None)
        inflight(ctx, hist, 'reading the model after')
        site = classify(k, line, ref, None)
        if (outcome == 'ok') != (sout == 'ok'):
            sc = site_class or (site, 'accept/reject')
            ctx.fail('property', sc[0], sc[1], f'`{code.splitlines()[-1]}` {"returned" if outcome == "ok" else "raised " + outcome} '
                     f'but on a list of polynomials the call {"is fine" if sout == "ok" else "is an error"}',
                     repro=repro_of(hist, want, 'state after the call'), detail=dict(history=list(hist), impl=shown, spec=want))
            return
        if outcome != 'ok' and after != before:
            sc = site_class or (site, 'changed on raise')
            ctx.fail('property', sc[0], sc[1], f'`{code.splitlines()[-1]}` raised ({outcome}) but changed the model',
                     repro=repro_of(hist, ref.show(canon=True), 'a call that raises must not change the model'),
                     detail=dict(history=list(hist), before=before, after=after))
            return
        if shown != want:
            sc = site_class or (site, 'state')
            ctx.fail('property', sc[0], sc[1], f'after `{code.splitlines()[-1]}` the model is not what the same history gives on a list of polynomials',
                     repro=repro_of(hist, want, 'state differs from the list-of-polynomials result') if not try_new else None,
                     detail=dict(history=list(hist), impl=shown, spec=want))
            return
        ref_before = ref
        if not try_new:
            ref = ref2
        # ---- derived observers against the specification
        try:
            nsoft = sum(1 for c in ref.cons.values() if c.weight is not None)
            lin_only = all(not p.quad for p in ref.exprs())
            nb = sum(len(p.order) + len(p.quad) for p in ref.exprs())
            got_obs = (cqm.num_constraints(), cqm.num_soft_constraints(), bool(cqm.is_linear()), cqm.num_biases(), len(cqm.variables), cqm.num_variables() if callable(cqm.num_variables) else cqm.num_variables)
            want_obs = (len(ref.cons), nsoft, lin_only, nb, len(ref.vars), len(ref.vars))
        except Exception as e:  # noqa
            got_obs, want_obs = ('raise', type(e).__name__), None
        if got_obs != want_obs:
            ctx.fail('property', 'CQM counters', 'num_constraints / num_soft_constraints / is_linear / num_biases / num_variables',
                     f'(num_constraints, num_soft_constraints, is_linear, num_biases, len(variables), num_variables) = {got_obs}, on the list of polynomials {want_obs}',
                     repro=repro_unexpected(hist) + f'got = (cqm.num_constraints(), cqm.num_soft_constraints(), bool(cqm.is_linear()), cqm.num_biases(), len(cqm.variables))\nprint(got)\nassert got == {want_obs[:5] if want_obs else None!r}\n',
                     detail=dict(history=list(hist)))
            return
        # ---- round 8: every read accessor of every expression, and energies, against the reference polynomials
        if outcome == 'ok' and len(ref_before.vars) > len(ref.vars) and not try_new:
            gone = [v for v in ref_before.vars if v not in ref.vars]
            for oc in {order_class(ref_before, p) for p in ref_before.exprs()}:
                ctx.tick(f'variable removed from the model while an expression has private order: {oc}')
            if any(adjacent_descending(ref_before, p, below=v) for p in ref_before.exprs() for v in gone):
                ctx.tick('variable removed BELOW an expression listing model variable k+1 before k')
        if k == 'flip' and outcome == 'ok':
            for oc in getattr(ref, 'flip_outcomes', []):
                ctx.tick('flip of a BINARY variable of a marked constraint: ' + oc)
        if not check_accessors(ctx, r, cqm, ref, hist, site):
            return
        if try_new and outcome == 'ok' and sout == 'ok':
            if not check_accessors(ctx, r, ns['new'], res, hist, site, name='new'):
                return
        # ---- round 8: `cqm.variables`, `cqm.constraints`, `cqm.objective` obtained BEFORE the history still show the model
        if held[0] is not cqm:
            held = [cqm, cqm.variables, cqm.constraints, cqm.objective]
        try:
            hv = ([lab(v) for v in held[1]], len(held[1]), [lab(l) for l in held[2]], len(held[2]), show_expr(held[3], canon=True))
            nv = ([lab(v) for v in cqm.variables], len(cqm.variables), [lab(l) for l in cqm.constraints], len(cqm.constraints), show_expr(cqm.objective, canon=True))
        except Exception as e:  # noqa
            hv, nv = f'{type(e).__name__}: {e}', None
        if hv != nv:
            ctx.fail('property', site, 'objects obtained from the model earlier (variables / constraints / objective) are stale',
                     f'`_v = cqm.variables; _c = cqm.constraints; _o = cqm.objective` taken when the model was created show {hv!r} after the history; fresh ones show {nv!r}',
                     repro='_HELD = True\n' + repro_unexpected(hist).replace('cqm = CQM()\n', 'cqm = CQM()\n_v = cqm.variables; _c = cqm.constraints; _o = cqm.objective\n', 1)
                     + 'assert list(_v) == list(cqm.variables) and list(_c) == list(cqm.constraints) and _o.is_equal(cqm.objective)\n',
                     detail=dict(history=list(hist), held=repr(hv), fresh=repr(nv)))
            return
        # ---- views taken earlier keep pointing at their constraint; removed ones are invalid
        for key, (view, _) in list(views.items()):
            rc = next((c for c in ref.cons.values() if c.uid == key), None)
            alive = rc is not None
            try:
                s = show_expr(view, canon=True)
                if not alive or s != rc.p.show(canon=True):
                    ctx.fail('property', 'ConstraintView', 'stale view', f'a view taken earlier shows {s}, its constraint is {rc.p.show(canon=True) if alive else "removed"}',
                             repro=None, detail=dict(history=list(hist)))
                    return
            except RuntimeError:
                if alive:
                    ctx.fail('property', 'ConstraintView', 'view expired', 'a view of a constraint that still exists raised RuntimeError',
                             repro=None, detail=dict(history=list(hist)))
                    return
                del views[key]
        if ref.cons and r.random() < .3:
            l = r.choice(list(ref.cons))
            views[ref.cons[l].uid] = (cqm.constraints[l].lhs, None)
    check_watched(ctx, orig, hist)


def run(ctx):
    r = ctx.rng
    nhist = ctx.scale(700, 12000)
    ctx.rule = ('random histories (<= 30 ops) of public CQM mutators: add_variable, set_objective (model / iterable), add_constraint '
                '(model, comparison, iterable; copy and move; hard and soft, both penalties), add_discrete (3 forms), remove/fix/flip/'
                'change_vartype/relabel variables, fix_variables in place and copying, spin_to_binary, remove_constraint (cascade), '
                'relabel_constraints, bounds, mutation through objective / constraint views, deepcopy, the copy-returning calls (inplace=False, trivial arguments too) '
                'with the history continued on either object, add_variables, clear, substitute_self_loops, the add_*_from_* methods called directly; every variable sits in a random '
                'subset of the expressions; a case = one operation; non-trivial = state changed or the call raised; distinct by (op line, state before)')
    out = []
    for _ in range(nhist):
        n0 = ctx.nfail()
        one_history(ctx, r, 30, out)
        if len([f for f in ctx.failures if f['kind'] == 'property']) >= 12:
            break
    try:
        os.unlink(_INFLIGHT)
    except OSError:
        pass
    # deep copies continue the same model line: the driver needs no op for them
    lines = [o['line'] for o in out]
    got = run_driver('cqmdriver', lines)
    ctx.corr_lines += len(lines)
    # histories that hit a reported property failure are explained by it; other mismatches are correspondence failures
    explained = {f['site'] for f in ctx.failures if f['kind'] == 'property'}
    nbad = 0
    for i, o in enumerate(out):
        g = got[i] if i < len(got) else 'MISSING'
        if o['expect'] is not None and g != o['expect']:
            nbad += 1
            if nbad > 3:
                break
            site = classify(o['k'].split(':')[0], o['line'], None, None)
            if site in explained or (o['k'] in ('fix', 'fixmany') and 'CQM.fix_variable' in explained):
                ctx.notes.append(f'model/impl differ at `{o["line"][:60]}` — explained by the property failure reported for {site}')
                continue
            ctx.fail('correspondence', 'CQM vs Lean Cqm', o['k'], f'line {i} `{o["line"]}`: impl `{o["expect"]}` model `{g}`',
                     detail=dict(history=list(o['hist'])))
