"""C13 — Variables is an order-preserving bijection between labels and indices.

(i)  correspondence: real `dimod.variables.Variables` vs the Lean model `VState` (sparse internal
     state after every operation, which calls raise);
(ii) property predicate on the real object: it behaves like the duplicate-free Python list kept by
     `Ref` below (len, iteration, indexing, slicing, index, count, membership with numeric aliases,
     equality, copy, pickle), auto labels are the documented ones, rejected relabels change nothing;
(iii) the Lean list specification `LSpec.step2` (what the theorems are stated against) vs `Ref`;
(iv) readers through the compiled model (`iter`, `contains`, `index`, `at`, `==` with a sequence / a set, the
     auto label from the source-extracted rule, `_relabel_as_integers` + restore), exception classes of every
     rejected call (model: `Generated.VarsRules`; list: what a Python list raises).
"""
import copy
import pickle
from numpy import int64, float32, float64  # noqa: F401 (names used by repro scripts)

import numpy as np

from dimod.variables import Variables
from harness.common import lab, run_driver

ALPHA = [0, 1, 2, 3, 4, 7, -1, 'a', 'b', 'c', ('a', 1), ('t', (1, 2)), ()]
EXTRA_NEW = ['z', 9, 11, ('q',)]


def alias(r, x, store=False):
    """a different Python object denoting the same label.  NumPy scalars are used in queries only:
    a stored NumPy scalar compared (by NumPy's own `==`) with a nested tuple raises inside NumPy,
    which is NumPy's semantics, not dimod's (DESIGN.md, D23)."""
    if isinstance(x, int) and not isinstance(x, bool):
        k = r.randrange(5)
        if k == 0:
            return float(x)
        if k == 1 and not store:
            return np.int64(x)
        if k == 2 and not store:
            return np.float32(x)
        if k == 3 and x in (0, 1):
            return bool(x)
    return x


class Ref:
    """the specification: a plain duplicate-free list"""

    def __init__(self):
        self.l = []

    def append(self, v, permissive):
        if v is None:
            n = len(self.l)
            if n in self.l:
                n = 0
                while n in self.l:
                    n += 1
            self.l.append(n)
            return True
        if v in self.l:
            return permissive
        self.l.append(v)
        return True

    def pop(self):
        if not self.l:
            return False
        self.l.pop()
        return True

    def relabel(self, m):
        news = list(m.values())
        if len(set(news)) < len(news):
            return False
        for new in news:
            if new in self.l and new not in m:
                return False
        self.l = [m.get(x, x) for x in self.l]
        return True

    def remove(self, v):
        if v not in self.l:
            return False
        self.l.remove(v)
        return True


LIST_CLS = {'pop': 'IndexError'}   # list.pop() of an empty list; everything else a list (or the docstrings) reject: ValueError


def labs(xs):
    return ','.join('~' if x is None else lab(x) for x in xs) or '-'


def readers(ctx, r, v, ref, hist, lines, expect, speclines, meta, errcls):
    """reader lines for the compiled model + the same facts judged against the plain list"""
    l = ref.l; n = len(l)

    def emit(line, exp):
        lines.append(line); expect.append(exp); speclines.append(None); meta.append(('reader:' + line.split(' ')[0], tuple(hist)))

    def bad(site, what, expr):
        code = repro(hist) + f"\nL = {l!r}  # expected list behaviour\nassert {expr}, {what!r}\n"
        ctx.fail('property', f'Variables.{site}', 'reader after history', what, repro=code, detail=dict(history=hist, expected=repr(l)))

    emit('iter', f"ok {','.join(lab(x) for x in v)};{len(v)}")
    for x in r.sample(ALPHA + EXTRA_NEW, 2):
        emit(f'contains {lab(x)}', f'ok {int(x in v)}')
        try:
            emit(f'index {lab(x)}', f'ok {v.index(x)}')
        except Exception as e:  # noqa
            emit(f'index {lab(x)}', f'err {type(e).__name__}')
            if x not in l and type(e).__name__ != 'ValueError':
                bad('index', f'index({x!r}) of an unknown label raised {type(e).__name__}, a list raises ValueError',
                    f'_cls(lambda: v.index({x!r})) == "ValueError"')
    for i in r.sample(range(-n - 1, n + 2), min(2, 2 * n + 3)):
        try:
            emit(f'at {i}', f'ok {lab(v[i])}')
        except Exception as e:  # noqa
            emit(f'at {i}', f'err {type(e).__name__}')
            if not (-n <= i < n) and type(e).__name__ != 'IndexError':
                bad('getitem', f'v[{i}] out of range raised {type(e).__name__}, a list raises IndexError', f'_cls(lambda: v[{i}]) == "IndexError"')
    others = [list(l), l[1:] + l[:1], l[:-1], l + ['zz'], l[::-1]]
    o = r.choice(others)
    emit(f'eqseq {labs(o)}', f'ok {int(v == o)}')
    if (v == o) != (l == o) or (v != o) != (l != o) or (v == tuple(o)) != (l == o):
        bad('eq', f'v == {o!r} is {v == o}', f'(v == {o!r}) == (L == {o!r}) and (v != {o!r}) == (L != {o!r}) and (v == tuple({o!r})) == (L == {o!r})')
    so = r.choice([list(l), l[:-1], l + ['zz'], l[::-1], (l[:-1] + ['zz']) if l else ['zz']])
    r.shuffle(so)
    fs = frozenset(so)
    emit(f'eqset {labs(so)}', f'ok {int(v == fs)}')
    if (v == fs) != (set(l) == fs) or (v == set(so)) != (set(l) == fs):
        bad('eq', f'v == frozenset({so!r}) is {v == fs}', f'(v == frozenset({so!r})) == (set(L) == frozenset({so!r}))')
    w = v.copy(); got = w._append()
    doc = len(l)
    if doc in l:
        doc = 0
        while doc in l:
            doc += 1
    emit('autolabel', f'ok {lab(got)}')
    if got != doc or type(got) is not int:
        bad('append', f'auto label {got!r}, documented {doc!r}', f'v.copy()._append() == {doc!r}')
    w = v.copy(); m = w._relabel_as_integers(); mid = state(w)
    try:
        w._relabel(m); ok = True
    except ValueError:
        ok = False
    ms = ','.join(f'{lab(a)}={lab(b)}' for a, b in sorted(m.items()))
    # the model prints the mapping in its own insertion order: compare it as a set of pairs (done by the caller)
    emit('restore', ('ok ' if ok else 'err ') + mid + ' / ' + ms + ((' / ' + state(w)) if ok else ''))
    if mid.split(';')[0] != ','.join(lab(i) for i in range(n)) or m != {i: x for i, x in enumerate(l) if x != i} or not ok or list(w) != l:
        bad('relabel_as_integers', f'_relabel_as_integers gave {mid.split(";")[0]} / {m!r}; relabel(mapping) {"gave " + repr(list(w)) if ok else "raised"}',
            'w = v.copy(); m = w._relabel_as_integers(); assert list(w) == list(range(len(L))); w._relabel(m); assert list(w) == L')
    ctx.tick('readers')


def core(v):
    """(_index_to_label, _label_to_index, _stop) of the pickled state, found by TYPE (the two dicts in order, the last plain int):
    an attribute added to the cdef class (a cache, a hint) must not blind the harness"""
    st = v.__reduce__()[2]
    ds = [x for x in st if isinstance(x, dict)]
    ns = [x for x in st if isinstance(x, int) and not isinstance(x, bool)]
    return ds[0], ds[1], ns[-1]


def state(v, lab=lab):
    i2l, l2i, stop = core(v)
    # a key of _index_to_label may be an alias object of the index (`idx = self._label_to_index.pop(old, old)` with an alias `old`)
    def ik(k):
        return int(k) if isinstance(k, (int, float, np.integer, np.floating)) and float(k).is_integer() else k
    items = ','.join(f'{ik(i)}={lab(i2l[i])}' for i in sorted(i2l, key=lambda k: (not isinstance(ik(k), int), ik(k) if isinstance(ik(k), int) else 0, repr(k))))
    return ';'.join([','.join(lab(x) for x in v), items, str(len(l2i)), str(stop)])


def observe(ctx, r, v, ref, hist, opname):
    """property predicate (ii): list behaviour of the real object"""
    def bad(what, cls, expr='list(v) == L'):
        code = repro(hist) + f"\nL = {ref.l!r}  # expected list behaviour\nassert {expr}, {what!r}\n"
        ctx.fail('property', f'Variables.{cls}', f'after {opname}', what, repro=code, detail=dict(history=hist, expected=repr(ref.l)))
    l = ref.l
    got = list(v)
    if got != l:
        return bad(f'list(v)={got!r} but the list is {l!r}', 'iteration')
    if len(v) != len(l):
        return bad(f'len {len(v)} != {len(l)}', 'len')
    if not (v == l) or (v != l):
        return bad('v == list is False', 'eq')
    if l and (v == l[:-1] or v == l[::-1] and l != l[::-1]):
        return bad('v equals a different list', 'eq')
    if len(l) >= 2:
        # equality with another *Variables* object is ordered too (a Variables is both a Sequence and a Set)
        rot = l[1:] + l[:1]
        for other, name in ((rot, 'rotated'), (l[::-1], 'reversed')):
            if other != l:
                w = Variables(other)
                if (v == w) or not (v != w) or (w == v):
                    return bad(f'v == Variables({name} list) is True', 'eq', f'not (v == Variables({other!r})) and (v != Variables({other!r}))')
        w = Variables(l)
        if not (v == w) or (v != w):
            return bad('v != Variables(same list)', 'eq', 'v == Variables(L)')
    for x in ALPHA + EXTRA_NEW:
        y = alias(r, x)
        exp = x in l
        try:
            c = v.count(y); m = y in v
        except Exception as e:  # noqa
            return bad(f'count/contains({rp(y)}) raised {e!r}', 'count')
        if bool(c) != exp or m != exp or c not in (0, 1):
            return bad(f'count({rp(y)})={c}, in={m}, list says {exp}', 'count', f'bool(v.count({rp(y)})) == ({x!r} in L) and (({rp(y)} in v) == ({x!r} in L))')
        try:
            i = v.index(y)
            if not exp or i != l.index(x):
                return bad(f'index({rp(y)})={i} but list says {l.index(x) if exp else "absent"}', 'index')
        except ValueError:
            if exp:
                return bad(f'index({rp(y)}) raised but label present', 'index')
    n = len(l)
    for i in range(-n - 1, n + 1):
        try:
            g = v[i]
            if not (-n <= i < n) or g != l[i]:
                return bad(f'v[{i}]={g!r}', 'getitem')
        except IndexError:
            if -n <= i < n:
                return bad(f'v[{i}] raised IndexError', 'getitem')
    for _ in range(3):
        sl = slice(r.choice([None, -n - 2, -2, -1, 0, 1, 2, n, n + 3]), r.choice([None, -n - 2, -2, -1, 0, 1, 2, n, n + 3]),
                   r.choice([None, 1, 1, 2, 3, -1, -2]))
        try:
            g = list(v[sl])
        except Exception as e:  # noqa
            return bad(f'v[{sl}] raised {type(e).__name__}: {e}', 'slice', f'list(v[{sl!r}]) == L[{sl!r}]')
        if g != l[sl]:
            return bad(f'v[{sl}]={g!r} but list gives {l[sl]!r}', 'slice', f'list(v[{sl!r}]) == L[{sl!r}]')
    if r.random() < .15:
        for name, c in (('copy', v.copy()), ('copy.copy', copy.copy(v)), ('pickle', pickle.loads(pickle.dumps(v))),
                        ('deepcopy', copy.deepcopy(v)), ('Variables(v)', Variables(v)), ('Variables(list)', Variables(l))):
            if list(c) != l or state(c).split(';')[0] != state(v).split(';')[0] or not (c == v):
                return bad(f'{name} differs: {list(c)!r}', 'copy')
            if name != 'Variables(list)' and name != 'pickle' and name != 'deepcopy' and state(c) != state(v):
                return bad(f'{name} internal state differs', 'copy')
        c = v.copy()
        c._append('__probe__')
        if list(v) != l:
            return bad('append on a copy visible in the original', 'copy')


# ---------------------------------------------------------------- numeric aliases: the canonicalisation itself

def pk(o):
    """protocol form of a Python object (kinds kept apart, unlike `lab`)"""
    if isinstance(o, bool):
        return f'B:{int(o)}'
    if isinstance(o, int):
        return f'I:{o}'
    if isinstance(o, float):
        return f'F:{int(o)}'
    if isinstance(o, np.integer):
        return f'NI:{int(o)}'
    if isinstance(o, np.floating):
        return f'NF:{int(o)}'
    if isinstance(o, str):
        return 's:' + o.encode().hex()
    if isinstance(o, tuple):
        return 'T:[' + '+'.join(pk(x) for x in o) + ']'
    raise TypeError(o)


def canon_py(o):
    """reference canonicalisation, written independently of the model: integral numbers -> int, tuples element-wise"""
    if isinstance(o, tuple):
        return ('t',) + tuple(canon_py(x) for x in o)
    if isinstance(o, str):
        return ('s', o)
    return ('i', int(o))


def alias_table():
    t = []
    for z in range(-2, 4):
        t += [z, float(z), np.int8(z), np.int16(z), np.int32(z), np.int64(z), np.float16(z), np.float32(z), np.float64(z)]
        if z >= 0:
            t += [np.uint8(z), np.uint16(z), np.uint32(z), np.uint64(z)]
        if z in (0, 1):
            t.append(bool(z))
    t.append(-0.0)
    t += ['', 'a', '1', '0', (), (1,), (1.0,), (True,), (0,), ('a',), (True, 'a'), (1, 'a'), ((1,), 2.0), ((True,), 2), ((), ()), (1, 2), (1.0, 2.0, 'a')]
    return t


def rp(o):
    """source text that rebuilds the object with its exact type (NumPy 1.x reprs drop the type)"""
    if isinstance(o, np.generic):
        return f'np.{type(o).__name__}({o!r})'
    if isinstance(o, tuple):
        return '(' + ''.join(rp(x) + ', ' for x in o) + ')'
    if isinstance(o, list):
        return '[' + ', '.join(rp(x) for x in o) + ']'
    return repr(o)


def same_obj(c, flat):
    """objects of the table with the canonical form c (a canonical pair), else the plain value"""
    return [x for x in flat if canon_py(x) == c] or [c[1]]


def is_np(o):
    return isinstance(o, np.generic)


def alias_cases(ctx, r, lines, expect, speclines, meta):
    """(a) Python key equality (what a dict lookup does: `b in {a: 0}`) against the model's `pyEq` and against equality of
    the model's canonical labels, exhaustively over all pairs of the alias table; (b) `Variables(objs).count/index(q)` against
    the object-level model `KState` and against the list of canonical objects."""
    T = alias_table()

    def emit(line, exp, what):
        lines.append(line); expect.append(exp); speclines.append(None); meta.append((what, (line,)))

    for a in T:
        emit(f'canon {pk(a)}', f'ok {lab(a)}', 'alias:canon')
    npairs = 0
    for a in T:
        for b in T:
            if (is_np(a) and isinstance(b, tuple)) or (is_np(b) and isinstance(a, tuple)):
                continue   # NumPy scalar == tuple is NumPy broadcasting, not key equality (DESIGN D23)
            same = b in {a: 0}
            if same != (canon_py(a) == canon_py(b)):
                ctx.fail('property', 'Variables.aliases', 'key equality', f'{a!r} and {b!r}: dict says {"same" if same else "different"} key, canonical forms say otherwise',
                         repro=f'import numpy as np\nassert ({rp(b)} in {{{rp(a)}: 0}}) == {canon_py(a) == canon_py(b)}, "alias table: {pk(a)} vs {pk(b)}"')
                return
            emit(f'pyeq {pk(a)} {pk(b)}', f'ok {int(same)}', 'alias:pyeq')
            npairs += 1
    ctx.tick('alias pairs', npairs)
    store = [o for o in T if not is_np(o)]
    cases = [([o], q) for o in store for q in T]
    for _ in range(ctx.scale(400, 4000)):
        cases.append(([r.choice(store) for _ in range(r.randint(2, 5))], r.choice(T)))
    for objs, q in cases:
        v = Variables(objs)
        ref = []
        for o in objs:
            if canon_py(o) not in ref:
                ref.append(canon_py(o))
        want = canon_py(q) in ref
        try:
            c = v.count(q); inn = q in v
            idx = v.index(q) if c else '-'
        except Exception as e:  # noqa
            ctx.fail('property', 'Variables.aliases', 'count/index raised', f'Variables({objs!r}): count/index({q!r}) raised {type(e).__name__}: {e}',
                     repro=f'import numpy as np\nfrom dimod.variables import Variables\nv = Variables({rp(objs)}); v.count({rp(q)}); ({rp(q)} in v) and v.index({rp(q)})')
            return
        ctx.case(('alias', pk(q), tuple(pk(o) for o in objs)), nontrivial=bool(c))
        if bool(c) != want or inn != want or c not in (0, 1) or (want and idx != ref.index(canon_py(q))) or [canon_py(x) for x in v] != ref:
            ctx.fail('property', 'Variables.aliases', 'count/index of an alias', f'Variables({objs!r}): count({q!r})={c}, index={idx}, list(v)={list(v)!r}; the list of labels says present={want}',
                     repro=f'import numpy as np\nfrom dimod.variables import Variables\nv = Variables({rp(objs)})\nassert bool(v.count({rp(q)})) == {want} and (({rp(q)} in v) == {want})'
                           + (f' and v.index({rp(q)}) == {ref.index(canon_py(q))}' if want else ''))
            return
        emit(f"kcount {','.join(pk(o) for o in objs)} {pk(q)}", f'ok {int(c)} {idx} {state(v)}', 'alias:kcount')
    ctx.tick('alias count/index', len(cases))
    # (c) object-level histories (aliases stored, NumPy scalars included; no tuples next to NumPy scalars: D23)
    flat = [o for o in T if not isinstance(o, tuple)]

    def same(c):
        return [x for x in flat if canon_py(x) == canon_py(c)] or [c]

    for _ in range(ctx.scale(300, 3000)):
        v = Variables(); ref = []; toks = []; flags = ''; code = ['import numpy as np', 'from dimod.variables import Variables', 'v = Variables()']
        for _ in range(r.randint(1, 10)):
            k = r.choice(['+', '+', '?', '?', '~', 'p', 'r', 'c', 'x', 'R', 'R', 'R'] if ref else ['+', '?', '~', 'p', 'x', 'R'])
            # the operation, its reference effect and whether the list accepts it are fixed BEFORE the real call
            if k in '+?':
                o = r.choice(flat); toks.append(k + pk(o)); src = f'v._append({rp(o)}, permissive={k == "?"})'
                want = canon_py(o) not in ref or k == '?'
                if canon_py(o) not in ref:
                    ref.append(canon_py(o))
                call = lambda: v._append(o, permissive=(k == '?'))  # noqa: E731
            elif k == '~':
                toks.append('+~'); src = 'v._append()'; n = len(ref)
                if ('i', n) in ref:
                    n = 0
                    while ('i', n) in ref:
                        n += 1
                ref.append(('i', n)); want = True; call = lambda: v._append()  # noqa: E731
            elif k == 'p':
                toks.append('p'); src = 'v._pop()'; want = bool(ref)
                if ref:
                    ref.pop()
                call = lambda: v._pop()  # noqa: E731
            elif k == 'x':
                o = r.choice(flat) if r.random() < .4 or not ref else r.choice(same_obj(r.choice(ref), flat))
                toks.append('x' + pk(o)); src = f'v._remove({rp(o)})'
                want = canon_py(o) in ref
                if want:
                    ref.remove(canon_py(o))
                call = lambda: v._remove(o)  # noqa: E731
            elif k == 'R':
                # mapping over objects: keys / values are aliases of current labels, other objects, swaps and cycles
                cur = list(v)
                ks = [r.choice(same(c)) for c in r.sample(cur, min(len(cur), r.randint(0, 3)))]
                ks += [r.choice(flat) for _ in range(r.randint(0, 2))]
                if r.random() < .4 and len(ks) > 1:
                    mp = {ks[i]: r.choice(same(ks[(i + 1) % len(ks)])) for i in range(len(ks))}
                else:
                    mp = {a: r.choice(flat) for a in ks}
                toks.append('R:' + '|'.join(f'{pk(a)}>{pk(b)}' for a, b in mp.items()))
                src = 'v._relabel({' + ', '.join(f'{rp(a)}: {rp(b)}' for a, b in mp.items()) + '})'
                cm = {canon_py(a): canon_py(b) for a, b in mp.items()}
                news = list(cm.values())
                want = len(set(news)) == len(news) and all(not (n in ref and n not in cm) for n in news)
                if want:
                    ref = [cm.get(x, x) for x in ref]
                call = lambda: v._relabel(mp)  # noqa: E731
            elif k == 'r':
                toks.append('r'); src = 'v._relabel_as_integers()'; ref = [('i', i) for i in range(len(ref))]; want = True
                call = lambda: v._relabel_as_integers()  # noqa: E731
            else:
                toks.append('c'); src = 'v._clear()'; ref = []; want = True; call = lambda: v._clear()  # noqa: E731
            code.append(f'try: {src}\nexcept (ValueError, IndexError): pass')
            ok = True
            try:
                call()
            except (ValueError, IndexError):
                ok = False
            flags += str(int(ok))
            if ok != want or [canon_py(x) for x in v] != ref or len(v) != len(ref):
                ctx.fail('property', 'Variables.aliases', 'history over alias objects', f'after {code[3:]}: list(v)={list(v)!r}, last call raised={not ok}; labels should be {[c[1] for c in ref]!r}, list accepts the last call={want}',
                         repro='\n'.join(code[:-1]) + f'\n_ok = True\ntry: {src}\nexcept (ValueError, IndexError): _ok = False\nassert _ok == {want} and [x if isinstance(x, str) else int(x) for x in v] == {[c[1] for c in ref]!r}')
                return
        ctx.case(('khist', tuple(toks)), nontrivial=len(v) > 0)
        emit('khist ' + ','.join(toks), f"ok {flags} {state(v)} {','.join(lab(x) for x in v)}", 'alias:khist')
    ctx.tick('alias object histories', ctx.scale(300, 3000))


# ---------------------------------------------------------------- round 7: the whole alphabet over OBJECTS, mixins, odd labels

def plain(c):
    """the plain label of a canonical form of `canon_py`"""
    return tuple(plain(x) for x in c[1:]) if c[0] == 't' else c[1]


def dedup(xs):
    out = []
    for x in xs:
        if x not in out:
            out.append(x)
    return out


def object_cases(ctx, r, lines, expect, speclines, meta, cls=Variables, n_hist=None):
    """object-level histories over the WHOLE alphabet (`_extend`, copy three ways, pickle, deepcopy, slicing next to the
    mutators) with stored aliases: the stored OBJECTS (type and value) of the real Variables vs the object-level model
    (`khist3`), the labels vs the plain list; then the inherited `abc.Set` / `abc.Sequence` mixin methods (`kmix`)."""
    T = alias_table()
    flat = [o for o in T if not isinstance(o, tuple)]
    notnp = [o for o in T if not is_np(o) and not any(is_np(y) for y in (o if isinstance(o, tuple) else ()))]

    def emit(line, exp, what):
        lines.append(line); expect.append(exp); speclines.append(None); meta.append((what, (line,)))

    def objs_of(v):
        return ','.join(pk(x) for x in v)

    n_hist = n_hist or ctx.scale(260, 2600)
    for _ in range(n_hist):
        pool = flat if r.random() < .6 else notnp     # NumPy scalars never meet tuples (DESIGN D23)
        v = cls(); ref = []; toks = []; flags = ''
        code = ['import copy, pickle', 'import numpy as np', 'from dimod.variables import Variables', 'v = Variables()']

        def same(c):
            return [x for x in pool if canon_py(x) == canon_py(c)] or [c]

        for _ in range(r.randint(1, 9)):
            k = r.choice(['+', '?', '~', 'E', 'E', 'E', 'C', 'K', 'D', 'S', 'S', 'p', 'x', 'R', 'r', 'c'] if ref else ['+', '?', '~', 'E', 'E', 'C', 'K', 'D', 'S', 'p'])
            newv = None
            if k in '+?':
                o = r.choice(pool); toks.append(k + pk(o)); src = f'v._append({rp(o)}, permissive={k == "?"})'
                want = canon_py(o) not in ref or k == '?'
                if canon_py(o) not in ref:
                    ref.append(canon_py(o))
                call = lambda: v._append(o, permissive=(k == '?'))  # noqa: E731
            elif k == '~':
                toks.append('+~'); src = 'v._append()'; n = len(ref)
                if ('i', n) in ref:
                    n = 0
                    while ('i', n) in ref:
                        n += 1
                ref.append(('i', n)); want = True; call = lambda: v._append()  # noqa: E731
            elif k == 'E':
                perm = r.random() < .5
                items = [None if r.random() < .15 else (r.choice(same(r.choice(list(v)))) if len(v) and r.random() < .3 else r.choice(pool))
                         for _ in range(r.randint(0, 4))]
                how = r.randrange(3)   # a list, a one-shot generator, a tuple
                toks.append(f'E{int(perm)}:' + '|'.join('~' if o is None else pk(o) for o in items))
                src = f'v._extend({["", "iter(", "tuple("][how]}{rp(items)}{["", ")", ")"][how]}, permissive={perm})'
                want = True
                for o in items:
                    if o is None:
                        n = len(ref)
                        if ('i', n) in ref:
                            n = 0
                            while ('i', n) in ref:
                                n += 1
                        ref.append(('i', n))
                    elif canon_py(o) in ref:
                        if not perm:
                            want = False
                            break
                    else:
                        ref.append(canon_py(o))
                arg = [items, iter(items), tuple(items)][how]
                call = lambda: v._extend(arg, permissive=perm)  # noqa: E731
            elif k == 'C':
                how = r.randrange(4)
                toks.append('C'); src = ['v = v.copy()', 'v = copy.copy(v)', 'v = Variables(v)', 'v = type(v)(v)'][how]; want = True
                call = [lambda: v.copy(), lambda: copy.copy(v), lambda: cls(v), lambda: type(v)(v)][how]
                newv = True
            elif k == 'K':
                proto = r.randrange(2, pickle.HIGHEST_PROTOCOL + 1)
                toks.append('K'); src = f'v = pickle.loads(pickle.dumps(v, protocol={proto}))'; want = True
                call = lambda: pickle.loads(pickle.dumps(v, protocol=proto))  # noqa: E731
                newv = True
            elif k == 'D':
                toks.append('D'); src = 'v = copy.deepcopy(v)'; want = True
                call = lambda: copy.deepcopy(v)  # noqa: E731
                newv = True
            elif k == 'S':
                a, b = (r.choice([None] + list(range(-7, 8))) for _ in range(2))
                c = r.choice([None, None, 1, -1, 2, -2, 3, 0])
                toks.append('S:' + ':'.join('-' if x is None else str(x) for x in (a, b, c)))
                src = f'v = v[slice({a}, {b}, {c})]'; want = c != 0
                if want:
                    ref = ref[slice(a, b, c)]
                call = lambda: v[slice(a, b, c)]  # noqa: E731
                newv = True
            elif k == 'p':
                toks.append('p'); src = 'v._pop()'; want = bool(ref)
                if ref:
                    ref.pop()
                call = lambda: v._pop()  # noqa: E731
            elif k == 'x':
                o = r.choice(pool) if r.random() < .4 else r.choice(same(r.choice(list(v))))
                toks.append('x' + pk(o)); src = f'v._remove({rp(o)})'
                want = canon_py(o) in ref
                if want:
                    ref.remove(canon_py(o))
                call = lambda: v._remove(o)  # noqa: E731
            elif k == 'R':
                cur = list(v)
                ks = [r.choice(same(c)) for c in r.sample(cur, min(len(cur), r.randint(0, 3)))]
                ks += [r.choice(pool) for _ in range(r.randint(0, 1))]
                if r.random() < .4 and len(ks) > 1:
                    mp = {ks[i]: r.choice(same(ks[(i + 1) % len(ks)])) for i in range(len(ks))}
                else:
                    mp = {a: r.choice(pool) for a in ks}
                toks.append('R:' + '|'.join(f'{pk(a)}>{pk(b)}' for a, b in mp.items()))
                src = 'v._relabel({' + ', '.join(f'{rp(a)}: {rp(b)}' for a, b in mp.items()) + '})'
                cm = {canon_py(a): canon_py(b) for a, b in mp.items()}
                news = list(cm.values())
                want = len(set(news)) == len(news) and all(not (n in ref and n not in cm) for n in news)
                if want:
                    ref = [cm.get(x, x) for x in ref]
                call = lambda: v._relabel(mp)  # noqa: E731
            elif k == 'r':
                toks.append('r'); src = 'v._relabel_as_integers()'; ref = [('i', i) for i in range(len(ref))]; want = True
                call = lambda: v._relabel_as_integers()  # noqa: E731
            else:
                toks.append('c'); src = 'v._clear()'; ref = []; want = True; call = lambda: v._clear()  # noqa: E731
            code.append(f'try: {src}\nexcept (ValueError, IndexError): pass')
            ok = True; before = objs_of(v)
            try:
                res = call()
            except (ValueError, IndexError):
                ok = False
            if ok and newv:
                if k != 'S' and (objs_of(res) != before or res is v):
                    ctx.fail('property', 'Variables.copy', 'copy / pickle / deepcopy of stored aliases', f'after {code[4:-1]}: `{src}` holds {list(res)!r}, the original {list(v)!r} (same object: {res is v})',
                             repro='\n'.join(code[:-1]) + f'\nw = v\n{src}\nassert v is not w and [(type(a), a) for a in v] == [(type(a), a) for a in w]')
                    return
                v = res
            flags += str(int(ok))
            ctx.tick('obj3 ' + {'+': 'append', '?': 'append', '~': 'auto', 'E': 'extend', 'C': 'copy', 'K': 'pickle', 'D': 'deepcopy', 'S': 'slice', 'p': 'pop', 'x': 'remove', 'R': 'relabel', 'r': 'relabel_ints', 'c': 'clear'}[k] + ('' if ok else ' (raises)'))
            if ok != want or [canon_py(x) for x in v] != ref or len(v) != len(ref):
                ctx.fail('property', 'Variables.objects', 'history over alias objects (whole alphabet)', f'after {code[4:]}: list(v)={list(v)!r}, last call raised={not ok}; labels should be {[plain(c) for c in ref]!r}, list accepts the last call={want}',
                         repro='\n'.join(code[:-1]) + f'\n_ok = True\ntry: {src}\nexcept (ValueError, IndexError): _ok = False\nassert _ok == {want} and list(v) == {[plain(c) for c in ref]!r}')
                return
        ctx.case(('khist3', tuple(toks)), nontrivial=len(v) > 0)
        emit('khist3 ' + (','.join(toks) or '-'), f"ok {flags} {state(v)} {objs_of(v)}", 'object:khist3')
        # ---- mixins on the reached object
        if r.random() < .7:
            o = [r.choice(same(c)) for c in r.sample(list(v), min(len(v), r.randint(0, 3)))] + [r.choice(pool) for _ in range(r.randint(0, 3))]
            r.shuffle(o)
            if r.random() < .2:
                o = [r.choice(same(x)) for x in v]    # an alias copy of v itself: == / <= / >= true
            ov = cls(o); od = list(ov)
            co = [canon_py(x) for x in o]; cod = dedup(co)
            subr = [c for c in ref if c not in co]
            want = dict(rev=ref[::-1], dj=not any(c in ref for c in co), le=set(ref) <= set(cod), lt=set(ref) < set(cod), ge=set(ref) >= set(cod),
                        gt=set(ref) > set(cod), and_=dedup([c for c in co if c in ref]), or_=dedup(ref + co), sub=subr,
                        xor=dedup(subr + [c for c in cod if c not in ref]), eqseq=ref == co, eqset=set(ref) == set(cod),
                        rsub=[c for c in cod if c not in ref], ror=dedup(ref + co), rand=dedup([c for c in co if c in ref]), rxor=dedup(subr + [c for c in cod if c not in ref]), neseq=ref != co)
            hdr = '\n'.join(code) + f'\no = {rp(o)}\n'
            try:
                gotr = dict(rev=list(reversed(v)), dj=v.isdisjoint(o), le=v <= ov, lt=v < ov, ge=v >= ov, gt=v > ov, and_=v & o, or_=v | o,
                            sub=v - o, xor=v ^ o, eqseq=(v == o), eqset=(v == frozenset(od)),
                            rsub=o - v, ror=o | v, rand=o & v, rxor=o ^ v, neseq=(v != o))
            except Exception as e:  # noqa
                ctx.fail('property', 'Variables.mixins', 'a mixin method raised', f'v={list(v)!r}, other={o!r}: {type(e).__name__}: {e}',
                         repro=hdr + 'ov = Variables(o)\nlist(reversed(v)); v.isdisjoint(o); v <= ov; v < ov; v >= ov; v > ov; v & o; v | o; v - o; v ^ o; v == o; v == frozenset(ov)')
                return
            exprs = dict(rev='list(reversed(v))', dj='v.isdisjoint(o)', le='v <= Variables(o)', lt='v < Variables(o)', ge='v >= Variables(o)', gt='v > Variables(o)',
                         and_='v & o', or_='v | o', sub='v - o', xor='v ^ o', eqseq='v == o', eqset='v == frozenset(Variables(o))',
                         rsub='o - v', ror='o | v', rand='o & v', rxor='o ^ v', neseq='v != o')
            for key, w in want.items():
                g = gotr[key]
                gg = [canon_py(x) for x in g] if isinstance(w, list) else g
                if gg != w or (key in ('and_', 'or_', 'sub', 'xor', 'rsub', 'ror', 'rand', 'rxor') and (not isinstance(g, Variables) or len(g) != len(w))):
                    wtxt = [plain(c) for c in w] if isinstance(w, list) else w
                    ctx.fail('property', 'Variables.mixins', exprs[key].replace('Variables(o)', 'other').replace(' o', ' other'), f'v={list(v)!r}, o={o!r}: {exprs[key]} is {list(g) if isinstance(w, list) else g!r}, the list / set of labels says {wtxt!r}',
                             repro=hdr + (f'assert list({exprs[key]}) == {wtxt!r}' if isinstance(w, list) else f'assert ({exprs[key]}) == {w!r}'))
                    return
            ctx.case(('kmix', tuple(toks), tuple(pk(x) for x in o)), nontrivial=bool(o) and len(v) > 0)
            ctx.tick('mixins')
            b = lambda x: str(int(bool(x)))  # noqa: E731
            emit(f"kmix {','.join(toks) or '-'} {','.join(pk(x) for x in o) or '-'} {','.join(pk(x) for x in od) or '-'}",
                 f"ok rev={objs_of(gotr['rev'])} dj={b(gotr['dj'])} le={b(gotr['le'])} lt={b(gotr['lt'])} ge={b(gotr['ge'])} gt={b(gotr['gt'])} "
                 f"and={objs_of(gotr['and_'])} or={objs_of(gotr['or_'])} sub={objs_of(gotr['sub'])} xor={objs_of(gotr['xor'])} "
                 f"eqseq={b(gotr['eqseq'])} eqset={b(gotr['eqset'])} rsub={objs_of(gotr['rsub'])} ror={objs_of(gotr['ror'])} neseq={b(gotr['neseq'])}", 'object:kmix')
            # the remaining readers of the class on the same object (judged against the list)
            q = r.choice(same(r.choice(list(v)))) if len(v) and r.random() < .6 else r.choice(pool)
            inq = canon_py(q) in ref
            if (bool(v.count(q)) != inq or (q in v) != inq or (inq and v.index(q) != ref.index(canon_py(q))) or v.is_range != (ref == [('i', i) for i in range(len(ref))])
                    or v._is_range() != v.is_range or len(v) != len(ref) or (len(v) and canon_py(v[-1]) != ref[-1]) or [canon_py(x) for x in copy.copy(v)] != ref):
                ctx.fail('property', 'Variables.mixins', 'count / in / index / is_range / len / v[-1] / copy.copy after a history', f'v={list(v)!r}, q={q!r}: count={v.count(q)}, in={q in v}, is_range={v.is_range}; labels {[plain(c) for c in ref]!r}',
                         repro=hdr + f'q = {rp(q)}\nL = {[plain(c) for c in ref]!r}\nassert bool(v.count(q)) == {inq} and (q in v) == {inq} and v.is_range == (L == list(range(len(L)))) and len(v) == len(L)')
                return
    ctx.tick('object histories (whole alphabet)', n_hist)


def enc_f(o):
    """the encoding `LabelF.enc` of lean/DimodModel/LabelF.lean, written independently: integers (and their aliases) and strings
    stay, a non-integral number becomes ('#frac', numerator, denominator), a tuple ('#tup', *encoded elements)"""
    import fractions
    if isinstance(o, tuple):
        return ('#tup',) + tuple(enc_f(x) for x in o)
    if isinstance(o, str):
        return o
    q = o if isinstance(o, fractions.Fraction) else fractions.Fraction(int(o)) if isinstance(o, (bool, int, np.integer)) else fractions.Fraction(float(o))
    return int(q) if q.denominator == 1 else ('#frac', q.numerator, q.denominator)


def lab_f(o):
    return lab(enc_f(o))


def odd_label_cases(ctx, r, lines=None, expect=None, speclines=None, meta=None):
    """labels outside the alias model, judged against the plain list only (no model line): non-integral floats and their
    NumPy / Fraction aliases are labels of their own (1.5 is neither 1 nor 2); `nan` / `inf` (not self-equal / not
    convertible by `int()`) are REFUSED by every entry point with the state unchanged."""
    import fractions
    fl0 = [0.5, 1.5, 2.5, -1.5, np.float64(1.5), np.float32(0.5), fractions.Fraction(3, 2), fractions.Fraction(5, 2), 0.25, 1, 2, 1.0, 'a', 0, (1.5, 'a'), (1.5,)]

    def cf(o):
        if isinstance(o, tuple):
            return ('t',) + tuple(cf(x) for x in o)
        if isinstance(o, str):
            return ('s', o)
        return ('q', o if isinstance(o, fractions.Fraction) else fractions.Fraction(int(o)) if isinstance(o, (int, np.integer)) else fractions.Fraction(float(o)))
    def emit(line, exp, hist):
        if lines is not None:
            lines.append(line); expect.append(exp); speclines.append(None); meta.append(('oddF:' + line.split(' ')[0], tuple(hist)))

    for _ in range(ctx.scale(150, 1500)):
        v = Variables(); ref = []; code = ['import fractions', 'import numpy as np', 'from dimod.variables import Variables', 'v = Variables()']
        fl = [x for x in fl0 if not is_np(x)] if r.random() < .5 else [x for x in fl0 if not isinstance(x, tuple)]   # NumPy scalar == tuple: DESIGN D23
        emit('clear', 'ok ' + state(v, lab_f), ())
        for _ in range(r.randint(1, 8)):
            k = r.choice('+?pxq')
            o = r.choice(fl)
            mline = None
            if k in '+?':
                mline = f'append {lab_f(o)} {int(k == "?")}'
                src = f'v._append({rp(o)}, permissive={k == "?"})'; want = cf(o) not in ref or k == '?'
                if cf(o) not in ref:
                    ref.append(cf(o))
                call = lambda: v._append(o, permissive=(k == '?'))  # noqa: E731
            elif k == 'p':
                mline = 'pop'
                src = 'v._pop()'; want = bool(ref)
                if ref:
                    ref.pop()
                call = lambda: v._pop()  # noqa: E731
            elif k == 'x':
                mline = f'remove {lab_f(o)}'
                src = f'v._remove({rp(o)})'; want = cf(o) in ref
                if want:
                    ref.remove(cf(o))
                call = lambda: v._remove(o)  # noqa: E731
            else:
                n = r.choice(fl)
                mline = f'relabel {lab_f(o)}={lab_f(n)}'
                src = f'v._relabel({{{rp(o)}: {rp(n)}}})'
                want = not (cf(n) in ref and cf(n) != cf(o))
                if want and cf(o) in ref:
                    ref[ref.index(cf(o))] = cf(n)
                call = lambda: v._relabel({o: n})  # noqa: E731
            code.append(f'try: {src}\nexcept (ValueError, IndexError): pass')
            ok = True
            try:
                call()
            except (ValueError, IndexError):
                ok = False
            emit(mline, ('ok ' if ok else 'err ') + state(v, lab_f), code[4:])
            q = r.choice(fl)
            facts = ([cf(x) for x in v] == ref and len(v) == len(ref) and ok == want and bool(v.count(q)) == (cf(q) in ref) and (q in v) == (cf(q) in ref)
                     and (cf(q) not in ref or v.index(q) == ref.index(cf(q))) and all(v.index(x) == i for i, x in enumerate(v)))
            ctx.case(('odd', tuple(code[4:])), nontrivial=bool(ref))
            if not facts:
                ctx.fail('property', 'Variables.objects', 'non-integral number labels', f'after {code[4:]}: list(v)={list(v)!r} (last call raised={not ok}), count({q!r})={v.count(q)}; the list of labels is {[c[1:] for c in ref]!r}, accepts the last call={want}',
                         repro='\n'.join(code[:-1]) + f'\n_ok = True\ntry: {src}\nexcept (ValueError, IndexError): _ok = False\nL = {[str(c[1]) if c[0] == "q" else repr(c) for c in ref]!r}\n'
                               f'assert _ok == {want} and len(v) == len(L) and all(v.index(x) == i for i, x in enumerate(v)) and bool(v.count({rp(q)})) == {cf(q) in ref}')
                return
    ctx.tick('non-integral number labels', ctx.scale(150, 1500))
    if lines is not None:
        ctx.tick('non-integral number labels: model lines over LabelF.enc')
    # nan / inf: refused, nothing changes
    for bad in (float('nan'), float('inf'), -float('inf'), np.float64('nan'), np.float32('inf')):
        for start in ([], [0, 1], ['a', 1.5, 0]):
            v = Variables(start); before = core(v)
            for name, call in (('_append', lambda: v._append(bad)), ('_append(permissive)', lambda: v._append(bad, permissive=True)), ('_extend', lambda: v._extend([bad])),
                               ('count', lambda: v.count(bad)), ('in', lambda: bad in v), ('index', lambda: v.index(bad)), ('index(permissive)', lambda: v.index(bad, permissive=True)),
                               ('Variables([x])', lambda: Variables(start + [bad])), ('_remove', lambda: v._remove(bad))):
                raised = None
                try:
                    call()
                except (ValueError, OverflowError) as e:
                    raised = type(e).__name__
                after = core(v)
                ctx.case(('nan', name, repr(bad), repr(start)), nontrivial=True)
                if raised is None or after != before:
                    ctx.fail('property', 'Variables.objects', 'nan / inf label', f'Variables({start!r}).{name}({bad!r}): raised {raised}, state before {before!r} after {after!r}: a label that is not self-equal / not a number with an integer test must be refused without changing anything',
                             repro=f'import numpy as np\nfrom dimod.variables import Variables\nv = Variables({start!r}); s = v.__reduce__()[2]\ntry:\n    v._append({rp(bad) if is_np(bad) else "float(" + repr(str(bad)) + ")"})\n    raise AssertionError("accepted")\nexcept (ValueError, OverflowError): pass\nassert v.__reduce__()[2] == s')
                    return
    ctx.tick('nan/inf refused')
    # unhashable objects: never a label (count 0, `in` False, index / _remove ValueError, _append TypeError, _relabel to one ValueError), nothing changes
    for bad in ([1], {1}, {'a': 1}, ([1],)):
        for start in ([], [0, 1], ['a', 5, 0]):
            v = Variables(start); before = core(v)
            facts = []
            for name, call, want in (('count', lambda: v.count(bad), 0), ('in', lambda: bad in v, False), ('index', lambda: v.index(bad), 'ValueError'),
                                     ('_remove', lambda: v._remove(bad), 'ValueError'), ('_append', lambda: v._append(bad), 'TypeError'),
                                     ('_append(permissive)', lambda: v._append(bad, permissive=True), 'TypeError'),
                                     ('_relabel(value)', lambda: v._relabel({(start or [0])[0]: bad}), 'ValueError')):
                try:
                    got = call()
                except Exception as e:  # noqa
                    got = type(e).__name__
                facts.append((name, got, want, core(v) == before))
            ctx.case(('unhashable', repr(bad), repr(start)), nontrivial=True)
            wrong = [f for f in facts if f[1] != f[2] or not f[3]]
            if wrong:
                ctx.fail('property', 'Variables.objects', 'unhashable object', f'Variables({start!r}) with {bad!r}: (call, outcome, expected, state unchanged) = {wrong}',
                         repro=f'from dimod.variables import Variables\nv = Variables({start!r}); s = v.__reduce__()[2]\nassert v.count({bad!r}) == 0 and ({bad!r} in v) is False\ntry:\n    v._append({bad!r})\n    raise AssertionError("accepted")\nexcept TypeError: pass\nassert v.__reduce__()[2] == s')
                return
    ctx.tick('unhashable refused')


# ---------------------------------------------------------------- round 7: which methods of the class the generators really call

import collections as _collections
import importlib.util as _ilu
import os as _os
import re as _re

HITS = _collections.Counter()


class Rec(Variables):
    """a recording subclass: every attribute fetched from an instance and every special method the interpreter looks up
    on the type is counted in HITS (wrappers installed by `install_recorders`)"""
    def __getattribute__(self, name):
        HITS[name] += 1
        return super().__getattribute__(name)


def install_recorders(names):
    for name in names:
        if not (name.startswith('__') and name.endswith('__')) or name in ('__getattribute__', '__class__', '__new__'):
            continue
        orig = None
        for k in Variables.__mro__:
            if name in vars(k):
                orig = vars(k)[name]
                break
        if orig is None or not callable(orig):
            continue

        def mk(name, orig):
            def w(self, *a, **kw):
                HITS[name] += 1
                return orig(self, *a, **kw)
            w.__name__ = name
            return w
        setattr(Rec, name, mk(name, orig))


def method_coverage(ctx, r):
    """the method set of the class is read from the SOURCE under test by harness/translators/vars_methods.py; the object-level
    generators are run once more on the recording subclass and every method that is not declared out of scope in
    lean/DimodModel/VarsAlphabet.lean must have been reached (cdef methods: through a reached method whose body calls them)."""
    here = _os.path.dirname(_os.path.dirname(_os.path.abspath(__file__)))
    spec = _ilu.spec_from_file_location('vars_methods', _os.path.join(here, 'translators', 'vars_methods.py'))
    vm = _ilu.module_from_spec(spec); spec.loader.exec_module(vm)
    cy, py, _bases, mix = vm.extract()
    names = [n for n, _ in cy] + [n for n, _ in py] + list(mix)
    alpha = open(_os.path.join(_os.path.dirname(here), 'lean', 'DimodModel', 'VarsAlphabet.lean')).read()
    oos = set(_re.findall(r'\("([^"]+)",', alpha.split('def outOfScope')[1].split('def covers')[0]))
    modelled = set(_re.findall(r'\("([^"]+)",', alpha.split('def modelled')[1].split('def outOfScope')[0]))
    install_recorders(names)
    HITS.clear()
    sink = ([], [], [], [])
    object_cases(ctx, r, *sink, cls=Rec, n_hist=ctx.scale(80, 400))
    # entry points that object_cases does not use: the range constructor, len / indexing / != / properties
    w = Rec(range(4)); w._append('a'); len(w); w[0]; w[1:]; w != [0]; w.is_range; w._is_range(); w.index('a'); w.count('a'); 'a' in w; copy.copy(w); list(iter(w))
    Rec(w)
    # the pickle hooks under their Cython names (pickle itself goes through the aliases `__reduce__` / `__setstate__`)
    st = w.__reduce_cython__()[2]
    w2 = Rec(); w2.__setstate_cython__(st)
    if list(w2) != list(w) or core(w2) != core(w):
        ctx.fail('property', 'Variables.pickle', '__setstate_cython__(__reduce_cython__ state)', f'state {st!r} set on a fresh object gives {list(w2)!r}, the original is {list(w)!r}',
                 repro="from dimod.variables import Variables\nw = Variables(range(4)); w._append('a')\nw2 = Variables(); w2.__setstate_cython__(w.__reduce_cython__()[2])\nassert list(w2) == list(w)")
    pyx = open(_os.path.join(vm.SRC, 'cyvariables.pyx')).read()
    kinds = dict(cy)
    missing = []
    for n in names:
        if n in oos:
            continue
        hit = HITS[n] > 0
        if not hit and kinds.get(n) == 'cdef':
            # reached through a Python-visible method whose block calls `self.<n>(`
            for m, kd in cy:
                if kd != 'cdef' and HITS[m] > 0:
                    blk = _re.search(r'^    (?:cpdef|def)\b[^\n]*\b' + _re.escape(m) + r'\s*\(.*?(?=^    (?:cpdef|cdef|def)\b|\Z)', pyx, flags=_re.M | _re.S)
                    if blk and _re.search(r'\bself\.' + _re.escape(n) + r'\(', blk.group(0)):
                        hit = True
                        break
        ctx.tick(f'method {n}' + ('' if hit else ' (NOT REACHED)'), HITS[n] or int(hit))
        if not hit:
            missing.append(n)
        elif n not in modelled:
            missing.append(n + ' [not in the model alphabet]')
    if missing:
        ctx.fail('correspondence', 'Variables alphabet', 'a method of the class is outside the exercised / modelled alphabet',
                 f'methods of cyVariables / Variables (from the source) that no generator reaches or the model alphabet does not list: {missing}',
                 detail=dict(missing=missing))


def slice_table(ctx, lines, expect, speclines, meta, errcls):
    """`Variables(l)[slice]` against CPython list slicing and the compiled model, exhaustively over
    n = 0..4 labels x start, stop in {None, -6..6} x step in {None, 0, +-1, +-2, +-3}"""
    base = ['a', 2, 0, 1]
    vals = [None] + list(range(-6, 7))
    n_cases = 0
    for n in range(5):
        l = base[:n]
        for a in vals:
            for b in vals:
                for c in (None, 0, 1, -1, 2, -2, 3, -3):
                    sl = slice(a, b, c)
                    v = Variables(l)
                    lines.append('clear'); expect.append('ok ' + state(Variables())); speclines.append('ok '); meta.append(('slice-table', ()))
                    lines.append('extend 1 ' + labs(l)); expect.append('ok ' + state(v)); speclines.append('ok ' + ','.join(lab(x) for x in l)); meta.append(('slice-table', (f'Variables({l!r})',)))
                    try:
                        want = l[sl]
                    except ValueError:
                        want = None
                    try:
                        w = v[sl]; got = list(w)
                    except ValueError:
                        w = None; got = None
                    n_cases += 1
                    ctx.case(('slice-table', n, a, b, c), nontrivial=bool(want))
                    if got != want or (w is not None and (len(w) != len(want) or not (w == want))):
                        ctx.fail('property', 'Variables.slice', 'exhaustive slice table', f'Variables({l!r})[{sl!r}] gives {got!r}, the list gives {want!r}',
                                 repro=f'from dimod.variables import Variables\nassert list(Variables({l!r})[{sl!r}]) == {l!r}[{sl!r}]')
                        return
                    lines.append('slice ' + ' '.join('-' if x is None else str(x) for x in (a, b, c)))
                    if w is None:
                        errcls[len(expect)] = 'ValueError'
                        expect.append('err ' + state(v)); speclines.append('err ' + ','.join(lab(x) for x in l))
                    else:
                        expect.append('ok ' + state(w)); speclines.append('ok ' + ','.join(lab(x) for x in want))
                    meta.append(('slice-table', (f'Variables({l!r})[{sl!r}]',)))
    ctx.tick('slice table', n_cases)


def repro(hist):
    lines = ['from dimod.variables import Variables', 'import numpy as np, pickle', 'from numpy import int64, float32, float64', 'v = Variables()',
             'def _cls(f):\n    try:\n        f()\n    except Exception as e:\n        return type(e).__name__\n    return None']
    for h in hist:
        lines.append('try:\n    ' + h + '\nexcept (ValueError, IndexError) as e: print("raised", e)')
    lines.append('print(list(v), v.__reduce__()[2])')
    return '\n'.join(lines)


def one_history(ctx, r, nops, lines, expect, speclines, meta, errcls):
    v = Variables(); ref = Ref(); hist = []
    lines.append('clear'); expect.append('ok ' + state(v)); speclines.append('ok '); meta.append(('clear', tuple()))
    for _ in range(r.randint(1, nops)):
        k = r.choice(['append', 'append', 'append', 'appendnone', 'pop', 'relabel', 'relabel', 'relabel', 'relabelints', 'remove',
                      'relabel_absent', 'extend', 'extend_range', 'extend_list', 'copy', 'pickle', 'slice'])
        before = state(v)
        ok = True; cls = None
        try:
            if k == 'append':
                x = r.choice(ALPHA); p = r.random() < .5; y = alias(r, x, store=True)
                lines.append(f'append {lab(x)} {int(p)}'); hist.append(f'v._append({rp(y)}, permissive={p})')
                sok = ref.append(x, p); v._append(y, permissive=p)
            elif k == 'extend':
                x = r.choice(ALPHA); p = r.random() < .5
                lines.append(f'append {lab(x)} {int(p)}'); hist.append(f'v._extend([{x!r}], permissive={p})')
                sok = ref.append(x, p); v._extend([x], permissive=p)
            elif k == 'extend_range':
                # a range object starting at / around the current length (the natural "add n more integer variables" call)
                n0 = len(ref.l); a = r.choice([n0, n0, n0, max(0, n0 - 1), n0 + 1, 0]); b = a + r.randint(0, 4); p = r.random() < .5
                hist.append(f'v._extend(range({a}, {b}), permissive={p})')
                w = v.copy(); sok = True
                for x in range(a, b):
                    lines.append(f'append {lab(x)} {int(p)}')
                    one = ref.append(x, p)
                    try:
                        w._append(x, permissive=p)
                    except ValueError:
                        pass
                    if x != b - 1 and one:
                        expect.append('ok ' + state(w)); speclines.append('ok ' + ','.join(lab(y) for y in ref.l)); meta.append((k, tuple(hist)))
                    if not one:
                        sok = False
                        break
                if a == b:
                    lines.append('relabel -'); sok = True
                elif sok is False and x != b - 1:
                    pass
                v._extend(range(a, b), permissive=p)
            elif k == 'extend_list':
                xs = [r.choice(ALPHA + [None]) for _ in range(r.randint(0, 4))]; p = r.random() < .6
                lines.append(f'extend {int(p)} {labs(xs)}'); hist.append(f'v._extend({xs!r}, permissive={p})')
                sok = True
                for x in xs:
                    if not ref.append(x, p):
                        sok = False
                        break
                v._extend(xs, permissive=p)
            elif k == 'copy':
                how = r.choice(['v.copy()', 'Variables(v)', 'v[:]'])
                lines.append('copy' if how != 'v[:]' else 'slice - - -'); hist.append(f'v = {how}'); sok = True
                v = eval(how)
            elif k == 'pickle':
                lines.append('pickle'); hist.append('v = pickle.loads(pickle.dumps(v))'); sok = True
                v = pickle.loads(pickle.dumps(v))
            elif k == 'slice':
                n0 = len(ref.l)
                sl = slice(r.choice([None, None, -n0 - 1, -2, -1, 0, 1, 2, n0, n0 + 2]), r.choice([None, None, -n0 - 1, -2, -1, 0, 1, 2, n0, n0 + 2]),
                           r.choice([None, 1, 2, 3, -1, -1, -2, 0]))
                lines.append('slice ' + ' '.join('-' if a is None else str(a) for a in (sl.start, sl.stop, sl.step)))
                hist.append(f'v = v[{sl!r}]')
                ctx.tick('branch slice: zero step' if sl.step == 0 else 'branch slice: negative step' if (sl.step or 1) < 0 else 'branch slice: positive step')
                try:
                    ref.l = ref.l[sl]; sok = True
                except ValueError:
                    sok = False
                v = v[sl]
            elif k == 'appendnone':
                lines.append('append - 0'); hist.append('v._append()')
                ctx.tick('branch autoLabel: least free integer' if len(ref.l) in ref.l else 'branch autoLabel: the index')
                sok = ref.append(None, False); v._append()
            elif k == 'pop':
                lines.append('pop'); hist.append('v._pop()'); sok = ref.pop(); v._pop()
            elif k in ('relabel', 'relabel_absent'):
                cur = list(v)
                pool = cur if k == 'relabel' or not cur else cur + ['nope', 13] + [x for x in ALPHA if x not in cur]
                if not pool:
                    m = {}
                else:
                    ks = r.sample(pool, r.randint(1, min(len(pool), 4)))
                    mode = r.random()
                    if k == 'relabel_absent' and mode < .5:
                        # chains old -> x -> y ... through labels that may or may not be variables, in random key order
                        chain = r.sample(ALPHA + EXTRA_NEW, r.randint(2, 4))
                        m = {chain[i]: chain[i + 1] for i in range(len(chain) - 1)}
                        if r.random() < .3:
                            m[chain[-1]] = chain[0]
                        items = list(m.items()); r.shuffle(items); m = dict(items)
                    elif mode < .25 and len(ks) > 1:       # cyclic / swapping
                        m = {ks[i]: ks[(i + 1) % len(ks)] for i in range(len(ks))}
                    elif mode < .45:                      # to own index / other index
                        m = {x: r.choice([cur.index(x) if x in cur else 0, len(cur), r.randrange(len(cur) + 1)]) for x in ks}
                    else:
                        m = {x: r.choice(ALPHA + EXTRA_NEW) for x in ks}
                lines.append('relabel ' + (','.join(f'{lab(a)}={lab(b)}' for a, b in m.items()) or '-'))
                # branches the proofs split on (relabel_spec / twoPhase_spec / relabelOne): published as counts
                _news = list(m.values())
                if len(set(_news)) < len(_news):
                    ctx.tick('branch relabel: rejected, two keys share a target')
                elif any(n in ref.l and n not in m for n in _news):
                    ctx.tick('branch relabel: rejected, target is an existing label that is not a key')
                else:
                    ctx.tick('branch relabel: two-phase plan' if any(k_ in _news for k_ in m) else 'branch relabel: one-phase plan')
                    if any(a in ref.l and b == ref.l.index(a) and a != b for a, b in m.items()):
                        ctx.tick('branch relabelOne: new label is the own index (entries erased)')
                    if any(a not in ref.l for a in m):
                        ctx.tick('branch relabel: key that is not a variable')
                hist.append(f'v._relabel({m!r})'); sok = ref.relabel(m); v._relabel(m)
            elif k == 'relabelints':
                lines.append('relabelints'); hist.append('v._relabel_as_integers()')
                ref.l = list(range(len(ref.l))); sok = True; v._relabel_as_integers()
            elif k == 'remove':
                x = r.choice(ALPHA); lines.append(f'remove {lab(x)}'); hist.append(f'v._remove({x!r})')
                sok = ref.remove(x); v._remove(x)
        except (ValueError, IndexError) as e:
            ok = False; cls = type(e).__name__
        except Exception as e:  # any other exception type is itself a deviation from list behaviour
            ok = False; cls = type(e).__name__
            ctx.fail('property', f'Variables.{k}', 'unexpected exception type', f'{type(e).__name__}: {e}',
                     repro=repro(hist) + '\nassert False', detail=dict(history=list(hist)))
        ctx.tick(k + ('' if ok else ':raises'))
        if cls is not None:
            errcls[len(expect)] = cls
            if not sok and cls != LIST_CLS.get(k, 'ValueError') and cls in ('ValueError', 'IndexError'):
                last = hist[-1]
                ctx.fail('property', f'Variables.{k}', 'exception class', f'`{last}` raised {cls}; a list (and the documented contract) raises {LIST_CLS.get(k, "ValueError")}',
                         repro=repro(hist[:-1]) + f'\nassert _cls(lambda: {last.replace("v = ", "")}) == {LIST_CLS.get(k, "ValueError")!r}', detail=dict(history=list(hist)))
                return
        expect.append(('ok ' if ok else 'err ') + state(v))
        speclines.append(('ok ' if sok else 'err ') + ','.join(lab(x) for x in ref.l))
        meta.append((k, tuple(hist)))
        ctx.case((k, lines[-1], before), nontrivial=(state(v) != before) or not ok,
                 sample=dict(history=list(hist)) if len(hist) == 6 else None)
        if ok != sok:
            ctx.fail('property', f'Variables.{k}', 'accept/reject', f'call {"returned" if ok else "raised"} but the list semantics {"accepts" if sok else "rejects"} it',
                     repro=repro(hist) + '\nassert False', detail=dict(history=list(hist)))
            return
        if not ok and state(v) != before and k not in ('extend_range', 'extend_list'):  # _extend is a fold of _append: a raising extend keeps the appended prefix
            ctx.fail('property', f'Variables.{k}', 'changed on raise', f'state changed by a call that raised: {before} -> {state(v)}',
                     repro=repro(hist) + '\nassert False', detail=dict(history=list(hist)))
            return
        nf = ctx.nfail()
        observe(ctx, r, v, ref, list(hist), k)
        if ctx.nfail() != nf:
            return
        if r.random() < .35:
            readers(ctx, r, v, ref, list(hist), lines, expect, speclines, meta, errcls)
            if ctx.nfail() != nf:
                return


# ---------------------------------------------------------------- round 8: the documented auto label after freeing integer labels

def int_aliases(k):
    """every object that denotes the integer label k (k >= 0)"""
    out = [k, float(k), np.int64(k), np.int32(k), np.uint8(k), np.float32(k), np.float64(k), np.int8(k), np.uint64(k)]
    if k in (0, 1):
        out.append(bool(k))
    return out


def doc_auto(ref):
    """the documented label of `_append()`: the index of the new variable if available, otherwise the lowest available
    non-negative integer (written over the plain list, independent of the model)"""
    n = len(ref)
    if n not in ref:
        return n
    k = 0
    while k in ref:
        k += 1
    return k


def autolabel_cases(ctx, r, lines, expect, speclines, meta):
    """directed-random histories around ONE rule: colliding auto appends (the index label is taken, so the fallback scan runs)
    interleaved with everything that FREES an integer label -- `_relabel` with the key written as int / float / NumPy integer /
    NumPy float / bool, `_pop` / `_remove` of a label STORED as such an alias, relabels of a lower index after a higher one
    (insertion order of the private dicts), swaps, copies / pickles of the object in between (caches travel with the copy).
    Judged against the plain list + the documented rule; the same history goes to the object-level model (`khist3`)."""
    n_hist = ctx.scale(500, 8000)
    strs = ['a', 'b', 'c', 'x', 'y', 'z', 'u', 'w', 'p', 'q', 's0', 's1', 's2', 's3', 's4', 's5']

    def emit(line, exp, what):
        lines.append(line); expect.append(exp); speclines.append(None); meta.append((what, (line,)))

    def cn(o):
        return o if isinstance(o, str) else int(o)

    for _ in range(n_hist):
        v = Variables(); ref = []; toks = []; flags = ''
        code = ['import copy, pickle', 'import numpy as np', 'from dimod.variables import Variables', 'v = Variables()']
        fresh = iter(r.sample(strs, len(strs)))
        aliased = False    # an integer label was freed through a non-int object
        # seed labels: small integers (stored through a random alias) and strings, in an order that is not the range
        n0 = r.randint(2, 6)
        seedl = r.sample(range(0, n0 + 3), r.randint(1, n0)) + [next(fresh) for _ in range(r.randint(0, 2))]
        r.shuffle(seedl)
        plan = [('+', (r.choice(int_aliases(x)) if r.random() < .5 else x) if isinstance(x, int) else x) for x in seedl]
        nsteps = r.randint(3, 12)
        while plan or nsteps > 0:
            if plan:
                k, o = plan.pop(0)
            else:
                nsteps -= 1
                k = r.choice(['~', '~', '~', '~', 'B', 'B', 'F', 'F', 'F', 'X', 'X', 'p', 'p', 'W', 'C', 'K', 'r'])
                o = None
            ints = [x for x in ref if isinstance(x, int)]
            newv = False; check_ret = None
            if k == '+':
                toks.append('+' + pk(o)); src = f'v._append({rp(o)})'; want = cn(o) not in ref
                if want:
                    ref.append(cn(o))
                call = lambda: v._append(o)  # noqa: E731
            elif k == '~':
                ctx.tick('branch autoLabel: least free integer (round 8)' if len(ref) in ref else 'branch autoLabel: the index (round 8)')
                toks.append('+~'); src = 'v._append()'; want = True; check_ret = doc_auto(ref); ref.append(check_ret)
                call = lambda: v._append()  # noqa: E731
            elif k == 'B':
                # block the next index (or the one after): the next auto append collides
                x = len(ref) + r.choice([0, 1, 1, 2]); o = r.choice(int_aliases(x)) if r.random() < .4 else x
                toks.append('?' + pk(o)); src = f'v._append({rp(o)}, permissive=True)'; want = True
                if x not in ref:
                    ref.append(x)
                call = lambda: v._append(o, permissive=True)  # noqa: E731
            elif k == 'F' and ints:
                # free an integer label by relabelling it away (small ones first: they are the ones a scan from 0 meets)
                x = min(r.sample(ints, min(len(ints), 2))); o = r.choice(int_aliases(x)) if r.random() < .7 else x
                tgt = r.choice([None, None, 20 + len(toks), float(30 + len(toks))])
                if tgt is None:
                    tgt = next(fresh, None) or ('t%d' % len(toks))
                aliased |= type(o) is not int
                toks.append(f'R:{pk(o)}>{pk(tgt)}'); src = f'v._relabel({{{rp(o)}: {rp(tgt)}}})'; want = cn(tgt) not in ref or cn(tgt) == x
                if want:
                    ref[ref.index(x)] = cn(tgt)
                mp = {o: tgt}
                call = lambda: v._relabel(mp)  # noqa: E731
            elif k == 'X' and ints:
                x = min(r.sample(ints, min(len(ints), 2))); o = r.choice(int_aliases(x)) if r.random() < .7 else x
                aliased |= type(o) is not int or type(v[ref.index(x)]) is not int
                toks.append('x' + pk(o)); src = f'v._remove({rp(o)})'; want = True; ref.remove(x)
                call = lambda: v._remove(o)  # noqa: E731
            elif k == 'p':
                toks.append('p'); src = 'v._pop()'; want = bool(ref)
                if ref:
                    aliased |= type(v[len(ref) - 1]) is not int and isinstance(ref[-1], int)
                    ref.pop()
                call = lambda: v._pop()  # noqa: E731
            elif k == 'W' and len(ref) >= 2:
                a, b = r.sample(ref, 2)
                oa = r.choice(int_aliases(a)) if isinstance(a, int) and a >= 0 else a
                ob = r.choice(int_aliases(b)) if isinstance(b, int) and b >= 0 else b
                mp = {oa: b, ob: a}
                toks.append(f'R:{pk(oa)}>{pk(b)}|{pk(ob)}>{pk(a)}'); src = f'v._relabel({{{rp(oa)}: {rp(b)}, {rp(ob)}: {rp(a)}}})'; want = True
                ia, ib = ref.index(a), ref.index(b); ref[ia], ref[ib] = b, a
                call = lambda: v._relabel(mp)  # noqa: E731
            elif k == 'C':
                how = r.randrange(4)
                toks.append('D' if how == 3 else 'C')
                src = ['v = v.copy()', 'v = copy.copy(v)', 'v = Variables(v)', 'v = copy.deepcopy(v)'][how]; want = True; newv = True
                call = [lambda: v.copy(), lambda: copy.copy(v), lambda: Variables(v), lambda: copy.deepcopy(v)][how]
            elif k == 'K':
                toks.append('K'); src = 'v = pickle.loads(pickle.dumps(v))'; want = True; newv = True
                call = lambda: pickle.loads(pickle.dumps(v))  # noqa: E731
            elif k == 'r' and r.random() < .3:
                toks.append('r'); src = 'v._relabel_as_integers()'; ref = list(range(len(ref))); want = True
                call = lambda: v._relabel_as_integers()  # noqa: E731
            else:
                continue
            code.append(f'try: {src}\nexcept (ValueError, IndexError): pass')
            ok = True; res = None
            try:
                res = call()
            except (ValueError, IndexError):
                ok = False
            if ok and newv:
                v = res
            flags += str(int(ok))
            ctx.tick('auto8 ' + {'+': 'append', '~': 'auto', 'B': 'block next index', 'F': 'free by relabel', 'X': 'free by remove', 'p': 'pop', 'W': 'swap', 'C': 'copy', 'K': 'pickle', 'r': 'relabel_ints'}[k])
            body = '\n'.join(code[:-1]) + f'\n_ok = True\ntry: _ret = {src.replace("v = ", "")}\nexcept (ValueError, IndexError): _ok = False\n'
            if check_ret is not None and ok and (res != check_ret or type(res) is not int):
                ctx.fail('property', 'Variables._append', 'auto label after integer labels were freed' + (' through numeric aliases' if aliased else ''),
                         f'after {code[4:-1]} the labels are {ref[:-1]!r}; `_append()` returned {res!r}, documented: {check_ret!r} (index {len(ref) - 1} if available, otherwise the lowest available non-negative integer)',
                         repro=body + f'assert _ok and _ret == {check_ret!r} and type(_ret) is int, _ret', detail=dict(history=code[4:], labels_before=repr(ref[:-1]), returned=repr(res), documented=check_ret))
                break
            if ok != want or [cn(x) for x in v] != ref or len(v) != len(ref) or any(v.index(x) != i for i, x in enumerate(ref)):
                ctx.fail('property', 'Variables.objects', 'history of auto appends and freed integer labels', f'after {code[4:]}: list(v)={list(v)!r}, last call raised={not ok}; labels should be {ref!r}, list accepts the last call={want}',
                         repro=body + f'assert _ok == {want} and list(v) == {ref!r} and all(v.index(x) == i for i, x in enumerate({ref!r}))', detail=dict(history=code[4:]))
                break
        else:
            ctx.case(('auto8', tuple(toks)), nontrivial=len(v) > 0, sample=dict(history=code[4:]) if len(toks) == 9 else None)
            emit('khist3 ' + (','.join(toks) or '-'), f"ok {flags} {state(v)} {','.join(pk(x) for x in v)}", 'auto8:khist3')
            continue
        break
    ctx.tick('auto-label histories (round 8)', n_hist)


def odd_label_histories(ctx, r, lines, expect, speclines, meta):
    """round 8: non-integral numbers (and tuples of them) through the WHOLE alphabet of `OpF2` -- explicit / auto appends, `_extend`
    (list / iterator), pop, remove, one-pair / swapping relabels, relabel-as-integers, clear, copy four ways, pickle, slicing --
    judged against the plain list (exact `Fraction` values) and sent to the compiled model with the labels encoded by `enc_f`
    (the Lean side of the same map is `LabelF.enc`; theorem `labelF_history2_bijection`)."""
    import fractions
    fl0 = [0.5, 1.5, 2.5, -1.5, np.float64(1.5), np.float32(0.5), fractions.Fraction(3, 2), fractions.Fraction(5, 2), 0.25, 1, 2, 3, 1.0, 2.0, 'a', 'b', 0, (1.5, 'a'), (1.5,), (1, 0.5)]

    def cf(o):
        if isinstance(o, tuple):
            return ('t',) + tuple(cf(x) for x in o)
        if isinstance(o, str):
            return ('s', o)
        return ('q', o if isinstance(o, fractions.Fraction) else fractions.Fraction(int(o)) if isinstance(o, (int, np.integer)) else fractions.Fraction(float(o)))

    def auto(ref):
        n = len(ref)
        if ('q', fractions.Fraction(n)) in ref:
            n = 0
            while ('q', fractions.Fraction(n)) in ref:
                n += 1
        return ('q', fractions.Fraction(n))

    def app(ref, o, perm):
        """list semantics of one append: (accepted, new list)"""
        if o is None:
            return True, ref + [auto(ref)]
        if cf(o) in ref:
            return perm, ref
        return True, ref + [cf(o)]

    n_hist = ctx.scale(200, 3000)
    for _ in range(n_hist):
        v = Variables(); ref = []; code = ['import copy, fractions, pickle', 'import numpy as np', 'from dimod.variables import Variables', 'v = Variables()']
        fl = [x for x in fl0 if not is_np(x)] if r.random() < .5 else [x for x in fl0 if not isinstance(x, tuple)]   # NumPy scalar == tuple: DESIGN D23
        lines.append('clear'); expect.append('ok ' + state(v, lab_f)); speclines.append(None); meta.append(('oddF2:clear', ()))
        for _ in range(r.randint(2, 10)):
            k = r.choice(['+', '+', '?', '~', '~', 'E', 'E', 'p', 'x', 'q', 'q', 'W', 'r', 'c', 'C', 'K', 'S'] if ref else ['+', '?', '~', 'E', 'p', 'S', 'C'])
            o = r.choice(fl); newv = False
            if k in '+?':
                mline = f'append {lab_f(o)} {int(k == "?")}'; src = f'v._append({rp(o)}, permissive={k == "?"})'
                want, ref2 = app(ref, o, k == '?')
                call = lambda: v._append(o, permissive=(k == '?'))  # noqa: E731
            elif k == '~':
                mline = 'append - 0'; src = 'v._append()'; want, ref2 = app(ref, None, False)
                call = lambda: v._append()  # noqa: E731
            elif k == 'E':
                items = [None if r.random() < .2 else r.choice(fl) for _ in range(r.randint(0, 4))]; perm = r.random() < .5; it = r.random() < .4
                mline = f'extend {int(perm)} ' + (','.join('~' if x is None else lab_f(x) for x in items) or '-')
                src = f'v._extend({"iter(" if it else ""}{rp(items)}{")" if it else ""}, permissive={perm})'
                want, ref2 = True, ref
                for x in items:
                    okx, ref2 = app(ref2, x, perm)
                    if not okx:
                        want = False     # the prefix stays (an _extend is a fold of _append)
                        break
                call = lambda: v._extend(iter(items) if it else items, permissive=perm)  # noqa: E731
            elif k == 'p':
                mline = 'pop'; src = 'v._pop()'; want = bool(ref); ref2 = ref[:-1]
                call = lambda: v._pop()  # noqa: E731
            elif k == 'x':
                o = r.choice([x for x in fl if cf(x) in ref] or fl) if r.random() < .7 else o
                mline = f'remove {lab_f(o)}'; src = f'v._remove({rp(o)})'; want = cf(o) in ref; ref2 = [c for c in ref if c != cf(o)]
                call = lambda: v._remove(o)  # noqa: E731
            elif k == 'q':
                o = r.choice([x for x in fl if cf(x) in ref] or fl) if r.random() < .7 else o
                n = r.choice(fl)
                mline = f'relabel {lab_f(o)}={lab_f(n)}'; src = f'v._relabel({{{rp(o)}: {rp(n)}}})'
                want = not (cf(n) in ref and cf(n) != cf(o)); ref2 = [cf(n) if c == cf(o) else c for c in ref] if want else ref
                mp = {o: n}
                call = lambda: v._relabel(mp)  # noqa: E731
            elif k == 'W':
                cur = [x for x in fl if cf(x) in ref]
                a = r.choice(cur) if cur else o
                b = r.choice([x for x in cur if cf(x) != cf(a)] or [a])
                if cf(a) == cf(b):
                    continue
                mline = f'relabel {lab_f(a)}={lab_f(b)},{lab_f(b)}={lab_f(a)}'; src = f'v._relabel({{{rp(a)}: {rp(b)}, {rp(b)}: {rp(a)}}})'
                want = True; ref2 = [cf(b) if c == cf(a) else cf(a) if c == cf(b) else c for c in ref]
                mp = {a: b, b: a}
                call = lambda: v._relabel(mp)  # noqa: E731
            elif k == 'r':
                mline = 'relabelints'; src = 'v._relabel_as_integers()'; want = True; ref2 = [('q', fractions.Fraction(i)) for i in range(len(ref))]
                call = lambda: v._relabel_as_integers()  # noqa: E731
            elif k == 'c':
                if r.random() < .6:
                    continue
                mline = 'clear'; src = 'v._clear()'; want = True; ref2 = []
                call = lambda: v._clear()  # noqa: E731
            elif k == 'C':
                how = r.randrange(4); mline = 'copy'; want = True; ref2 = ref; newv = True
                src = ['v = v.copy()', 'v = copy.copy(v)', 'v = Variables(v)', 'v = copy.deepcopy(v)'][how]
                call = [lambda: v.copy(), lambda: copy.copy(v), lambda: Variables(v), lambda: copy.deepcopy(v)][how]
            elif k == 'K':
                mline = 'pickle'; src = 'v = pickle.loads(pickle.dumps(v))'; want = True; ref2 = ref; newv = True
                call = lambda: pickle.loads(pickle.dumps(v))  # noqa: E731
            else:
                n0 = len(ref)
                sl = slice(r.choice([None, None, -n0 - 1, -2, -1, 0, 1, 2, n0]), r.choice([None, None, -n0 - 1, -2, -1, 0, 1, 2, n0, n0 + 2]), r.choice([None, 1, 2, -1, -1, -2, 0]))
                mline = 'slice ' + ' '.join('-' if a is None else str(a) for a in (sl.start, sl.stop, sl.step)); src = f'v = v[{sl!r}]'
                want = sl.step != 0; ref2 = ref[sl] if want else ref; newv = True
                call = lambda: v[sl]  # noqa: E731
            code.append(f'try: {src}\nexcept (ValueError, IndexError): pass')
            ok = True
            try:
                res = call()
                if newv:
                    v = res
            except (ValueError, IndexError):
                ok = False
            ref = ref2
            ctx.tick('oddF2 ' + mline.split(' ')[0] + ('' if ok else ' (raises)'))
            lines.append(mline); expect.append(('ok ' if ok else 'err ') + state(v, lab_f)); speclines.append(None); meta.append(('oddF2:' + mline.split(' ')[0], tuple(code[4:])))
            q = r.choice(fl)
            facts = ([cf(x) for x in v] == ref and len(v) == len(ref) and ok == want and bool(v.count(q)) == (cf(q) in ref) and (q in v) == (cf(q) in ref)
                     and (cf(q) not in ref or v.index(q) == ref.index(cf(q))) and all(v.index(x) == i for i, x in enumerate(v)))
            ctx.case(('odd2', tuple(code[4:])), nontrivial=bool(ref))
            if not facts:
                ctx.fail('property', 'Variables.objects', 'non-integral number labels (whole alphabet)', f'after {code[4:]}: list(v)={list(v)!r} (last call raised={not ok}), count({q!r})={v.count(q)}; the list of labels is {[c[1:] for c in ref]!r}, accepts the last call={want}',
                         repro='\n'.join(code) + f'\nL = {[str(c[1]) if c[0] == "q" else repr(c) for c in ref]!r}\n'
                               f'assert len(v) == len(L) and all(v.index(x) == i for i, x in enumerate(v)) and bool(v.count({rp(q)})) == {cf(q) in ref}')
                return
    ctx.tick('non-integral number labels, whole alphabet (round 8)', n_hist)


def sweep(ctx, lines, expect, speclines, meta):
    """thorough tier: ALL histories of exactly 3 operations over a 5-label alphabet and 48 op templates
    (every shorter history is a prefix of one of them)"""
    import itertools
    A = [0, 1, 2, 'a', ('a', 1)]
    T = [('append', x) for x in A] + [('appendnone',), ('pop',), ('relabelints',)] + [('remove', x) for x in A]
    T += [('relabel', {x: y}) for x in A for y in A] + [('relabel', {x: y, y: x}) for x, y in itertools.combinations(A, 2)]
    n = 0
    for seq in itertools.product(T, repeat=3):
        v = Variables(); ref = Ref(); hist = []
        lines.append('clear'); expect.append('ok ' + state(v)); speclines.append('ok '); meta.append(('clear', ()))
        for op in seq:
            before = state(v); ok = True
            try:
                if op[0] == 'append':
                    lines.append(f'append {lab(op[1])} 0'); hist.append(f'v._append({op[1]!r})'); sok = ref.append(op[1], False); v._append(op[1])
                elif op[0] == 'appendnone':
                    lines.append('append - 0'); hist.append('v._append()'); sok = ref.append(None, False); v._append()
                elif op[0] == 'pop':
                    lines.append('pop'); hist.append('v._pop()'); sok = ref.pop(); v._pop()
                elif op[0] == 'relabelints':
                    lines.append('relabelints'); hist.append('v._relabel_as_integers()'); ref.l = list(range(len(ref.l))); sok = True; v._relabel_as_integers()
                elif op[0] == 'remove':
                    lines.append(f'remove {lab(op[1])}'); hist.append(f'v._remove({op[1]!r})'); sok = ref.remove(op[1]); v._remove(op[1])
                else:
                    m = op[1]
                    lines.append('relabel ' + ','.join(f'{lab(a)}={lab(b)}' for a, b in m.items())); hist.append(f'v._relabel({m!r})')
                    sok = ref.relabel(m); v._relabel(m)
            except (ValueError, IndexError):
                ok = False
            expect.append(('ok ' if ok else 'err ') + state(v))
            speclines.append(('ok ' if sok else 'err ') + ','.join(lab(x) for x in ref.l))
            meta.append((op[0], tuple(hist)))
            n += 1
            ctx.case(('sweep', n), nontrivial=(state(v) != before) or not ok)
            l = ref.l
            good = (ok == sok and list(v) == l and (ok or state(v) == before)
                    and all((x in v) == (x in l) and (x not in l or v.index(x) == l.index(x)) for x in A + [3, 4]))
            if not good:
                ctx.fail('property', f'Variables.{op[0]}', 'exhaustive small-scope history', f'list behaviour violated after {hist}: got {list(v)!r}, list {l!r}, raised={not ok}, list-rejects={not sok}',
                         repro=repro(hist) + f"\nL = {l!r}\nassert list(v) == L and all((x in v) == (x in L) for x in [0, 1, 2, 3, 4, 'a', ('a', 1)])", detail=dict(history=list(hist)))
                break
    ctx.extra['exhaustive_sweep'] = dict(histories=len(T) ** 3, templates=len(T), labels=len(A), depth=3, ops=n)
    ctx.notes.append(f'thorough: exhaustive sweep of all {len(T) ** 3} histories of 3 ops over {len(A)} labels x {len(T)} templates')


def run(ctx):
    r = ctx.rng
    nhist = ctx.scale(500, 12000)
    ctx.rule = ('random histories of semi-public Variables mutators over a mixed alphabet (ints incl. negative, numeric aliases, '
                'strings, nested tuples); a case = one operation in its history; non-trivial = the state changed or the call raised; '
                'distinct by (op line, state before)')
    lines, expect, speclines, meta, errcls = [], [], [], [], {}
    for _ in range(nhist):
        one_history(ctx, r, 30, lines, expect, speclines, meta, errcls)
        if len([f for f in ctx.failures if f['kind'] == 'property']) >= 8:
            break
    if not ctx.quick:
        sweep(ctx, lines, expect, speclines, meta)
    slice_table(ctx, lines, expect, speclines, meta, errcls)
    alias_cases(ctx, r, lines, expect, speclines, meta)
    object_cases(ctx, r, lines, expect, speclines, meta)
    autolabel_cases(ctx, r, lines, expect, speclines, meta)
    odd_label_cases(ctx, r, lines, expect, speclines, meta)
    odd_label_histories(ctx, r, lines, expect, speclines, meta)
    method_coverage(ctx, r)
    got = run_driver('varsdriver', lines)
    ctx.corr_lines += len(lines)
    for i, ln in enumerate(lines):
        g = got[i] if i < len(got) else 'MISSING'
        gm, _, gs = g.partition(' | ')
        gs, _, gc = gs.partition(' | ')
        if ln == 'restore':
            # the returned mapping is a dict: compare it as a set of pairs
            def norm(t):
                parts = t.split(' / ')
                if len(parts) > 1:
                    parts[1] = ','.join(sorted(parts[1].split(',')))
                return ' / '.join(parts)
            gm = norm(gm); expect[i] = norm(expect[i])
        if i in errcls and gm == expect[i] and gc != errcls[i]:
            ctx.fail('correspondence', 'Variables vs VState', meta[i][0] + ': exception class', f'line {i} `{ln}`: impl raised {errcls[i]}, model names {gc or "none"}',
                     detail=dict(history=list(meta[i][1])))
            break
        if gm != expect[i]:
            ctx.fail('correspondence', 'Variables vs VState', meta[i][0], f'line {i} `{ln}`: impl `{expect[i]}` model `{gm}`',
                     detail=dict(history=list(meta[i][1])))
            break
        if ln != 'clear' and speclines[i] is not None and gs != speclines[i]:
            ctx.fail('correspondence', 'LSpec vs reference list', meta[i][0], f'line {i} `{ln}`: python list `{speclines[i]}` Lean spec `{gs}`',
                     detail=dict(history=list(meta[i][1])))
            break
