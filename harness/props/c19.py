"""C19 — copies and non-mutating variants are independent of the original.

For every copy-producing call (BQM / QM / CQM / Variables / SampleSet):
(ii) property predicate on the real code: deep snapshots (coefficients in order, record bytes, variables,
     `info` at every nesting level) of receiver and result; the call must leave the receiver unchanged and
     (for plain copies) return an equal object; then random in-place edit scripts are applied to one side
     and the other side is re-snapshotted — alternating sides.  Documented aliases (`.spin/.binary` views,
     CQM expression views) must, conversely, track their parent.
(i)  correspondence: `np.shares_memory` / `is`-sharing of record, `Variables`, `info` (top level and nested
     containers) and the rows selected, against the store model `DimodModel/Store.lean` through the
     compiled driver `storedriver`.
"""
import copy
import pickle
import warnings

import numpy as np

import dimod
from harness.common import run_driver

PRE = '''import numpy as np, dimod, copy, pickle, warnings
from dimod import BinaryQuadraticModel, QuadraticModel, ConstrainedQuadraticModel, SampleSet
warnings.simplefilter('ignore')
class LateFuture:
    """a future that is not done when the call under test is made; it completes when somebody waits for its result"""
    def __init__(self, value):
        self._value, self._done = value, False
    def done(self):
        return self._done
    def result(self):
        self._done = True
        return self._value
def deep(x):
    if isinstance(x, np.ndarray):
        return ('array', x.dtype.str, x.shape, x.tobytes())
    if isinstance(x, dict):
        return ('dict', tuple((k, deep(v)) for k, v in x.items()))
    if isinstance(x, (list, tuple)):
        return (type(x).__name__, tuple(deep(v) for v in x))
    return x
def snap(o):
    """every observable datum of a model / sample set / Variables (or of a tuple of them), in order"""
    if isinstance(o, tuple):
        return ('tuple',) + tuple(snap(x) for x in o)
    if isinstance(o, SampleSet):
        return ('ss', o.record.tobytes(), str(o.record.dtype), tuple(map(repr, o.variables)), deep(o.info), o.vartype.name)
    if isinstance(o, ConstrainedQuadraticModel):
        return ('cqm', snap(o.objective), tuple((repr(l), c.sense.value, float(c.rhs), snap(c.lhs), (c.lhs.is_soft(), c.lhs.weight(), c.lhs.penalty()) if c.lhs.is_soft() else None, bool(c.lhs.is_discrete())) for l, c in o.constraints.items()),
                tuple(sorted(map(repr, o.discrete))),
                tuple((repr(v), o.vartype(v).name, float(o.lower_bound(v)), float(o.upper_bound(v))) for v in o.variables),
                # r8f: the rest of the observable state: label orders, the markers as the C++ constraints report them, counts
                tuple(map(repr, o.constraint_labels)), tuple(map(repr, o.constraints)),
                tuple((repr(l), bool(c.lhs.is_discrete()), bool(c.lhs.is_soft()), tuple(map(repr, c.lhs.variables))) for l, c in o.constraints.items()),
                (o.num_biases(), o.num_quadratic_variables(), len(o.variables), len(o.constraints)))
    if isinstance(o, dimod.variables.Variables):
        return ('vars', tuple(map(repr, o)))
    vt = o.vartype.name if not callable(o.vartype) else tuple(o.vartype(v).name for v in o.variables)
    bounds = tuple((float(o.lower_bound(v)), float(o.upper_bound(v))) for v in o.variables) if hasattr(o, 'lower_bound') else None
    return ('model', vt, tuple((repr(v), float(b)) for v, b in o.iter_linear()),
            tuple(sorted((tuple(sorted((repr(u), repr(v)))), float(b)) for u, v, b in o.iter_quadratic())), float(o.offset),
            bounds, tuple(map(repr, o.variables)), (o.num_variables, o.num_interactions))
def obs(x, depth=0):
    """a comparable form of whatever a read returns"""
    if isinstance(x, (SampleSet, ConstrainedQuadraticModel, dimod.variables.Variables)) or hasattr(x, 'iter_linear'):
        return snap(x)
    if isinstance(x, np.ndarray):
        return ('array', x.dtype.str, x.shape, x.tobytes())
    if isinstance(x, str):
        import re
        return re.sub(r'0x[0-9a-f]+', '0x', x)
    if isinstance(x, (bytes, int, float, bool, complex, type(None), np.generic)):
        return x
    if depth > 6 or ' at 0x' in repr(x)[:300]:
        return type(x).__name__
    if isinstance(x, dict) or hasattr(x, 'items'):
        return ('map', tuple((repr(k), obs(v, depth + 1)) for k, v in x.items()))
    if hasattr(x, '__iter__'):
        return ('seq', tuple(obs(v, depth + 1) for v in x))
    return repr(x)
'''
_env = {}
exec(PRE, _env)
snap = _env['snap']
obs = _env['obs']

LABELS = [['a', 'b', 'c', 'd'], [0, 1, 2, 3], [('x', 0), ('x', 1), ('y', (0, 1)), 'z'], [3, 'a', 0, ('t', 1)]]


# ------------------------------------------------------------------ subjects

def gen_bqm(r, name='m'):
    labs = r.choice(LABELS)
    n = r.randint(1, 4)
    vs = labs[:n]
    cls = r.choice(['BinaryQuadraticModel', 'BinaryQuadraticModel', 'Float32BQM', 'DictBQM'])
    vt = r.choice(['SPIN', 'BINARY'])
    lin = {v: r.randint(-8, 8) / 4 for v in vs}
    quad = {(vs[i], vs[j]): r.randint(-8, 8) / 4 for i in range(n) for j in range(i + 1, n) if r.random() < .6}
    return f'{name} = dimod.{cls}({lin!r}, {quad!r}, {r.randint(-4, 4) / 2!r}, {vt!r})', vs, vt


def gen_qm(r, name='m'):
    src = f'{name} = dimod.QuadraticModel()\n'
    vs = []
    for v, vt in zip(r.choice(LABELS)[:r.randint(1, 4)], [r.choice(['BINARY', 'SPIN', 'INTEGER', 'REAL']) for _ in range(4)]):
        src += f'{name}.add_variable({vt!r}, {v!r}' + (', lower_bound=-2, upper_bound=5' if vt in ('INTEGER', 'REAL') else '') + ')\n'
        src += f'{name}.add_linear({v!r}, {r.randint(-8, 8) / 4!r})\n'
        vs.append((v, vt))
    for i in range(len(vs)):
        for j in range(i, len(vs)):
            if r.random() < .5 and (i != j or vs[i][1] == 'INTEGER') and 'REAL' not in (vs[i][1], vs[j][1]):
                src += f'{name}.add_quadratic({vs[i][0]!r}, {vs[j][0]!r}, {r.randint(-8, 8) / 4!r})\n'
    src += f'{name}.offset = {r.randint(-4, 4) / 2!r}'
    return src, [v for v, _ in vs], [t for _, t in vs]


def gen_cqm(r, name='m'):
    src, vs, vts = gen_qm(r, 'q0')
    allbin = all(t == 'BINARY' for t in vts)       # a quadratic penalty is only allowed on binary constraints
    src += f'\n{name} = dimod.ConstrainedQuadraticModel()\n{name}.set_objective(q0)\n'
    for k in range(r.randint(1, 3)):
        src += f"q{k + 1} = dimod.QuadraticModel()\nq{k + 1}.update(q0)\nq{k + 1}.scale({r.choice([1, 2, -1])})\n"
        soft = r.random() < .5
        extra = f", weight={r.choice([0.5, 2.0, 3.25])!r}, penalty={r.choice(['linear', 'quadratic'] if allbin else ['linear'])!r}" if soft else ''
        src += f"{name}.add_constraint(q{k + 1}, {r.choice(['<=', '>=', '=='])!r}, {r.randint(-2, 2)}, label='c{k}'{extra})\n"
    dom = {v: {'BINARY': [0, 1], 'SPIN': [-1, 1], 'INTEGER': [-2, 0, 3, 5], 'REAL': [-2.0, 0.0, 1.5]}[t] for v, t in zip(vs, vts)}
    if r.random() < .6:
        # a discrete (one-hot) constraint over fresh binary variables, and a soft linear one over them
        src += f"{name}.add_discrete(['dA', 'dB', 'dC'], label='disc')\n"
        src += f"{name}.add_constraint_from_iterable([('dA', 1.0), ('dB', 2.0)], '<=', 1, label='softd', weight=1.5, penalty={r.choice(['linear', 'quadratic'])!r})\n"
        dom.update(dA=[0, 1], dB=[0, 1], dC=[0, 1])
        if r.random() < .5:
            # r8f: a second discrete constraint, built the other ways (one-hot add_constraint that gets marked; from an iterable of terms)
            if r.random() < .5:
                src += f"{name}.add_discrete(dimod.quicksum(dimod.Binary(v) for v in ['eA', 'eB']) == 1, label='disc2')\n"
            else:
                src += f"{name}.add_discrete_from_iterable(['eA', 'eB'], label='disc2')\n"
            dom.update(eA=[0, 1], eB=[0, 1])
    return src.rstrip(), vs, dom


def gen_ss(r, name='ss', m=None):
    vt = r.choice(['SPIN', 'BINARY', 'INTEGER'])
    labs = r.choice(LABELS)
    n = r.randint(1, 4)
    m = r.choice([0, 1, 3, 4, 6]) if m is None else m
    dom = {'SPIN': [-1, 1], 'BINARY': [0, 1], 'INTEGER': [-2, 0, 3]}[vt]
    rows = [[r.choice(dom) for _ in range(n)] for _ in range(m)]
    if m > 2:
        rows[-1] = list(rows[0])
    en = [r.randint(-8, 8) / 4 for _ in range(m)]
    return (f"{name} = dimod.SampleSet.from_samples((np.array({rows!r}, dtype='{r.choice(['int8', 'int64', 'float64'])}').reshape({m}, {n}), {labs[:n]!r}), {vt!r}, "
            f"energy=np.array({en!r}, dtype=float), num_occurrences=np.array({[r.randint(1, 3) for _ in range(m)]!r}, dtype=int), "
            f"info={{'n': {{'k': [1, 2]}}, 'arr': np.array([1, 2, 3]), 'x': 5}}, idx=np.arange({m}))"), labs[:n], vt


# ------------------------------------------------------------------ copy-producing calls

def model_calls(kind, vs, vt, r):
    v0 = vs[0]
    relabel = {v0: 'RL'}
    calls = [
        ('copy()', 'res = m.copy()' if kind != 'cqm' else 'res = copy.copy(m)' if False else 'res = copy.deepcopy(m)', 'copy', True),
        ('copy.deepcopy', 'res = copy.deepcopy(m)', 'deepcopy', True),
        (f'relabel_variables(inplace=False)', f'res = m.relabel_variables({relabel!r}, inplace=False)', 'inplacefalse', False),
    ]
    if kind != 'cqm':
        calls += [
            ('pickle', 'res = pickle.loads(pickle.dumps(m))', 'pickle', True),
            ('relabel_variables_as_integers(inplace=False)', 'res = m.relabel_variables_as_integers(inplace=False)[0]', 'inplacefalse', False),
            ('__add__(number)', 'res = m + 0', 'arithmetic', True),
            ('__radd__(number)', 'res = 0 + m', 'arithmetic', True),
            ('__sub__(number)', 'res = m - 0', 'arithmetic', True),
            ('__mul__(number)', 'res = m * 1', 'arithmetic', True),
            ('__rmul__(number)', 'res = 1 * m', 'arithmetic', True),
            ('__truediv__(number)', 'res = m / 1', 'arithmetic', True),
            ('__neg__', 'res = -m', 'neg', False),
            ('__pos__', 'res = +m', 'pos 1', True),
            ('__add__(model)', 'res = m + other', 'arithmetic', False),
            ('__sub__(model)', 'res = m - other', 'arithmetic', False),
            ('__mul__(model)', 'res = m * other', 'arithmetic', False),
        ]
    if kind == 'bqm':
        calls += [
            ('copy.copy', 'res = copy.copy(m)', 'copy', True),
            ('copy(deep=True)', 'res = m.copy(deep=True)', 'deepcopy', True),
            ('construction from a model', 'res = type(m)(m)', 'construct', True),
            ('BinaryQuadraticModel(model)', 'res = dimod.BinaryQuadraticModel(m)', 'construct', True),
            ('DictBQM(model)', 'res = dimod.DictBQM(m)', 'construct', True),
            ('BinaryQuadraticModel(model, vartype)', f"res = dimod.BinaryQuadraticModel(m, {vt!r})", 'construct', True),
            ('QuadraticModel.from_bqm', 'res = dimod.QuadraticModel.from_bqm(m)', 'construct', False),
            ('as_bqm(copy=True)', 'res = dimod.as_bqm(m, copy=True)', 'construct', True),
            ('change_vartype(inplace=False)', f"res = m.change_vartype({('BINARY' if vt == 'SPIN' else 'SPIN')!r}, inplace=False)", 'inplacefalse', False),
            ('change_vartype(same, inplace=False)', f'res = m.change_vartype({vt!r}, inplace=False)', 'inplacefalse', True),
            ('spin.copy / binary.copy', 'res = m.binary.copy() if m.vartype is dimod.BINARY else m.spin.copy()', 'copy', True),
            ('from_serializable(to_serializable)', 'res = dimod.BinaryQuadraticModel.from_serializable(m.to_serializable())', 'construct', True),
            ('ConstrainedQuadraticModel.from_bqm', 'res = dimod.ConstrainedQuadraticModel.from_bqm(m)', 'construct', False),
        ]
    if kind == 'qm':
        calls += [
            ('spin_to_binary(inplace=False)', 'res = m.spin_to_binary(inplace=False)', 'inplacefalse', False),
            ('QuadraticModel.update into new', 'res = dimod.QuadraticModel(); res.update(m)', 'construct', True),
            ('ConstrainedQuadraticModel.from_quadratic_model', 'res = dimod.ConstrainedQuadraticModel.from_quadratic_model(m)', 'construct', False),
        ]
    extra_expected = {}
    if kind == 'cqm':
        calls += [
            ('spin_to_binary(inplace=False)', 'res = m.spin_to_binary(inplace=False)', 'inplacefalse', False),
            ('fix_variables(inplace=False)', f'res = m.fix_variables({{{v0!r}: 1}}, inplace=False)', 'inplacefalse', False),
            ('fix_variables(discrete member, inplace=False)', "res = m.fix_variables({'dA': 0}, inplace=False)", 'inplacefalse', False),
        ]
        # r8f: any assignment of any subset of the variables (members of discrete / soft constraints to zero and to non-zero values,
        # objective variables of every vartype), given as a dict, a list of pairs or a one-shot iterator
        dom = vt or {}
        for j in range(2):
            ks = r.sample(sorted(dom, key=repr), r.randint(1, min(3, len(dom))))
            if 'dA' in dom and r.random() < .7:
                ks = list(dict.fromkeys(ks + [r.choice([k for k in dom if isinstance(k, str) and k[0] in 'de' and len(k) == 2])]))
            fixed = {k: (1 if (isinstance(k, str) and k[0] in 'de' and len(k) == 2 and r.random() < .7) else r.choice(dom[k])) for k in ks}
            form = r.choice(['dict', 'dict', 'pairs', 'iterator'])
            arg = {'dict': repr(fixed), 'pairs': repr(list(fixed.items())), 'iterator': f'iter({list(fixed.items())!r})'}[form]
            member = any(isinstance(k, str) and k[0] in 'de' and len(k) == 2 for k in fixed)
            nonzero = any(isinstance(k, str) and k[0] in 'de' and len(k) == 2 and x for k, x in fixed.items())
            nm = f"fix_variables(random assignment{', discrete member' if member else ''}{' non-zero' if nonzero else ''}, {form}, inplace=False)"
            if nm in [c[0] for c in calls]:
                continue
            calls.append((nm, f'res = m.fix_variables({arg}, inplace=False)', 'inplacefalse', False))
            extra_expected[nm] = f'exp = copy.deepcopy(m); exp.fix_variables({fixed!r}, inplace=True)'
    expected = {
        'relabel_variables(inplace=False)': f'exp = copy.deepcopy(m); exp.relabel_variables({relabel!r}, inplace=True)',
        'relabel_variables_as_integers(inplace=False)': 'exp = copy.deepcopy(m); exp.relabel_variables_as_integers(inplace=True)',
        'change_vartype(inplace=False)': f"exp = copy.deepcopy(m); exp.change_vartype({('BINARY' if vt == 'SPIN' else 'SPIN')!r}, inplace=True)",
        'change_vartype(same, inplace=False)': f'exp = copy.deepcopy(m); exp.change_vartype({vt!r}, inplace=True)',
        'spin_to_binary(inplace=False)': 'exp = copy.deepcopy(m); exp.spin_to_binary(inplace=True)',
        'fix_variables(inplace=False)': f'exp = copy.deepcopy(m); exp.fix_variables({{{v0!r}: 1}}, inplace=True)',
        'fix_variables(discrete member, inplace=False)': "exp = copy.deepcopy(m); exp.fix_variables({'dA': 0}, inplace=True)",
    }
    expected.update(extra_expected)
    return [c + (expected.get(c[0]),) for c in calls]


def mcall_of(name, m):
    """the call of the store model (`MCall`) that a harness call exercises"""
    if name in ('copy()', 'copy.copy', 'spin.copy / binary.copy'):
        return 'copy'
    if name in ('copy.deepcopy', 'copy(deep=True)'):
        return 'deepcopy'
    if name in ('pickle', 'from_serializable(to_serializable)'):
        return 'pickle'
    if name in ('construction from a model', 'BinaryQuadraticModel(model)', 'DictBQM(model)', 'BinaryQuadraticModel(model, vartype)', 'as_bqm(copy=True)',
                'QuadraticModel.update into new'):
        return 'construct'
    if name in ('QuadraticModel.from_bqm', 'ConstrainedQuadraticModel.from_bqm', 'ConstrainedQuadraticModel.from_quadratic_model'):
        return 'frommodel'
    if name == 'relabel_variables(inplace=False)':
        return 'relabelcopy'
    if name == 'relabel_variables_as_integers(inplace=False)':
        return 'relabelintscopy'
    if name.startswith('change_vartype('):
        return 'changevartypecopy'
    if name.startswith('fix_variables('):
        return 'fixvariablescopy'
    if name == 'spin_to_binary(inplace=False)':
        has_spin = any(m.vartype(v) is dimod.SPIN for v in m.variables)
        return f'spintobinarycopy {int(has_spin)}'
    if name == '__radd__(number)':
        return 'radd 1'
    if name in ('__neg__',):
        return 'neg'
    if name == '__pos__':
        return 'pos'
    if name.startswith('__'):
        return 'arith'
    return None


def model_edits(kind, r, vs, target, k):
    """a random in-place edit script (source lines acting on `target`)"""
    out = []
    for _ in range(k):
        v = r.choice(vs); w = r.choice(vs)
        t = f'{target}.objective' if kind == 'cqm' else target
        e = r.choice(['add_linear', 'set_linear', 'offset', 'add_quadratic', 'set_quadratic', 'scale', 'relabel', 'remove', 'add_variable', 'linear_view',
                      'flip', 'fix', 'change_vartype', 'bounds', 'constraint_lhs', 'remove_constraint', 'quadratic_view'])
        if e == 'add_linear':
            out.append(f'{t}.add_linear({v!r}, 2.5)')
        elif e == 'set_linear':
            out.append(f'{t}.set_linear({v!r}, -7.0)')
        elif e == 'offset':
            out.append(f'{t}.offset += 1.5')
        elif e == 'add_quadratic' and v != w:
            out.append(f'{t}.add_quadratic({v!r}, {w!r}, 1.25)')
        elif e == 'set_quadratic' and v != w:
            out.append(f'{t}.set_quadratic({v!r}, {w!r}, -3.0)')
        elif e == 'scale':
            out.append(f'{t}.scale(2)')
        elif e == 'relabel':
            out.append(f"{target}.relabel_variables({{{v!r}: 'ED'}})")
        elif e == 'remove' and kind != 'cqm':
            out.append(f'{target}.remove_variable({v!r})')
        elif e == 'add_variable':
            out.append(f"{target}.add_variable('NEWV', 3.0)" if kind == 'bqm' else f"{target}.add_variable('BINARY', 'NEWV')")
        elif e == 'linear_view':
            out.append(f'{t}.linear[{v!r}] = 9.0')
        elif e == 'quadratic_view' and v != w:
            out.append(f'{t}.quadratic[{v!r}, {w!r}] = 4.0')
        elif e == 'flip' and kind == 'bqm':
            out.append(f'{target}.flip_variable({v!r})')
        elif e == 'fix' and kind != 'qm':
            out.append(f'{target}.fix_variable({v!r}, 1)')
        elif e == 'change_vartype' and kind == 'bqm':
            out.append(f"{target}.change_vartype('SPIN' if {target}.vartype is dimod.BINARY else 'BINARY', inplace=True)")
        elif e == 'bounds' and kind in ('cqm', 'qm'):
            out.append(f'{target}.set_upper_bound({v!r}, 3)' if r.random() < .6 else f'{target}.set_lower_bound({v!r}, -1)')
        elif e == 'constraint_lhs' and kind == 'cqm':
            out.append(f"{target}.constraints['c0'].lhs.add_linear({v!r}, 2.0)")
            out.append(f"{target}.constraints['c0'].lhs.offset += 1.0")
        elif e == 'remove_constraint' and kind == 'cqm':
            out.append(f"{target}.remove_constraint('c0')")
    return out or [f'{target}.offset += 1.5' if kind != 'cqm' else f'{target}.objective.offset += 1.5']


def run_lines(env, lines):
    """execute edit lines one by one; an edit that raises is skipped (the others still apply)"""
    done = []
    for ln in lines:
        try:
            with warnings.catch_warnings():
                warnings.simplefilter('ignore')
                exec(ln, env)
            done.append(ln)
        except Exception:  # noqa: an edit that is not applicable to this object
            pass
    return done


def fresh(src, code):
    env = {}
    with warnings.catch_warnings():
        warnings.simplefilter('ignore')
        exec(PRE + src, env)
        exec(code, env)
    return env


def check_call(ctx, r, kind_name, site, src, code, recv, plain_copy, edits_fn, nscripts, expected=None, before_recv=None, suffix=''):
    """the generic protocol: receiver unchanged, equal result for plain copies, edit scripts on either side"""
    try:
        env = fresh(src, f'before = snap({before_recv or recv})\n' + code + f'\nafter = snap({recv})\nsres = snap(res)')
    except Exception as e:  # noqa
        ctx.tick(site + ':raises')
        return None
    ctx.tick(site + suffix)
    if env['after'] != env['before']:
        ctx.fail('property', site, ('an input changed by the call' if recv.startswith('(') else 'receiver changed by the call') + suffix, f'{env["before"]!r} -> {env["after"]!r}',
                 repro=PRE + src + f'\nbefore = snap({before_recv or recv})\n' + code + f'\nassert snap({recv}) == before, "receiver changed"', detail=dict(source=src, call=code))
        return env
    def canon(t):
        # models are equal up to variable order (pickle / the serializable form sort the labels); vartype object differences
        # between BQM classes are immaterial
        return (t[0], sorted(t[2]), t[3], t[4], sorted(zip(t[6], t[5])) if t[5] else None, t[7]) if t[0] == 'model' else t
    if plain_copy and canon(env['sres']) != canon(env['before']):
        ctx.fail('property', site, 'result differs from the receiver' + suffix, f'{env["sres"]!r} != {env["before"]!r}',
                 repro=PRE + src + '\n' + code + f'\nS = lambda t: (sorted(t[2]), t[3], t[4], sorted(zip(t[6], t[5])) if t[5] else None, t[7]) if t[0] == "model" else t\nassert S(snap(res)) == S(snap({recv})), (snap(res), snap({recv}))', detail=dict(source=src, call=code))
        return env
    if expected is not None:
        # `inplace=False` must be "deep copy, then the in-place call" — every field, incl. soft weights / penalties / discrete marks
        try:
            env_e = fresh(src, expected)
            if snap(env_e['exp']) != env['sres']:
                ctx.fail('property', site, 'result differs from deepcopy + in-place call', f'{env["sres"]!r} != {snap(env_e["exp"])!r}',
                         repro=PRE + src + '\n' + code + '\n' + expected + '\nassert snap(res) == snap(exp), (snap(res), snap(exp))',
                         detail=dict(source=src, call=code, expected=expected))
                return env
            ctx.tick(site + ' == deepcopy+inplace')
        except Exception:  # noqa: the in-place variant is not applicable
            pass
    for k in range(nscripts):
        for side in (0, 1):
            edited, watched = (recv, 'res') if side == 0 else ('res', recv)
            lines = edits_fn(r, edited)
            env2 = fresh(src, code)
            w0 = snap(eval(watched, env2))
            done = run_lines(env2, lines)
            ctx.case((site, side, tuple(done), src), nontrivial=bool(done), sample=dict(source=src.splitlines()[-1][:200], call=code, edits=done) if k == 0 and side == 1 else None)
            w1 = snap(eval(watched, env2))
            if w1 != w0:
                # find the first edit that is visible
                culprit = None
                for j in range(1, len(done) + 1):
                    env3 = fresh(src, code)
                    w = snap(eval(watched, env3))
                    run_lines(env3, done[:j])
                    if snap(eval(watched, env3)) != w:
                        culprit = done[j - 1]; done = done[:j]
                        break
                nested = culprit is not None and (".info['n']" in culprit or ".info['arr'][" in culprit)
                icls = ('nested info shared' if nested else
                        ('edit of the receiver visible in the result' if side == 0 else 'edit of the result visible in the receiver') + suffix)
                ctx.fail('property', site, icls, f'after `{culprit}` on {"the receiver" if side == 0 else "the result"} the other object changed',
                         repro=PRE + src + '\n' + code + f'\nw = snap({watched})\n' + '\n'.join(done) + f'\nassert snap({watched}) == w, "edit visible through the other object"',
                         detail=dict(source=src, call=code, edits=done))
                return env
    return env


# ------------------------------------------------------------------ r8f: reads are invisible (per-object caches, markers, counters)

def read_calls(kind, r, vs, dom=None):
    """non-mutating calls on `m` (each an expression); a call that does not apply to this object raises and is skipped"""
    v = vs[0]
    if kind == 'ss':
        return ['m.first', 'list(m.samples())', 'list(m.data())', 'm.aggregate()', 'm.lowest()', 'm.to_serializable()', 'm.record.sample.tolist()',
                f'm.samples()[:, {list(vs)[:2]!r}]', f'dimod.keep_variables(m, {list(vs)[:1]!r})', f'dimod.drop_variables(m, {list(vs)[:1]!r})',
                'list(m.variables)', f'm.variables.index({v!r})', 'm.copy()', 'm.slice(0, 2)', 'm.truncate(1)', 'm.data_vectors', 'str(m)',
                f"m.relabel_variables({{{v!r}: 'RD'}}, inplace=False)", 'm.change_vartype(m.vartype, inplace=False)', 'm.info', 'len(m)',
                'm.to_pandas_dataframe()', 'list(m)', 'm.samples(sorted_by=None)[0] if len(m) else None', 'm == m.copy()']
    common = ['m.num_variables', 'list(m.variables)', 'copy.deepcopy(m)', 'str(m)', 'repr(m)']
    if kind == 'cqm':
        sample = '{v: (m.lower_bound(v) if m.vartype(v) is not dimod.SPIN else -1) for v in m.variables}'
        fixed = {k: r.choice(x) for k, x in list((dom or {}).items())[:2]}
        fixed1 = {k: 1 for k in (dom or {}) if k in ('dA', 'eB')}
        return common + [f'm.check_feasible({sample})', f'm.violations({sample})', f'list(m.iter_violations({sample}))', f'list(m.iter_constraint_data({sample}))',
                         'm.num_biases()', 'm.num_quadratic_variables()', 'm.num_soft_constraints()', 'm.is_linear()', 'm.is_equal(copy.deepcopy(m))',
                         'm.is_almost_equal(copy.deepcopy(m))', 'dimod.cqm_to_bqm(m)[0].num_interactions', 'dimod.lp.dumps(m)', 'm.discrete', 'dict(m.constraints)',
                         '[c.lhs.is_discrete() for c in m.constraints.values()]', '[c.to_polystring() for c in m.constraints.values()]', 'm.objective.to_polystring()',
                         f'm.fix_variables({fixed!r}, inplace=False)', f'm.fix_variables({fixed1!r}, inplace=False)', f"m.relabel_variables({{{v!r}: 'RD'}}, inplace=False)",
                         'm.spin_to_binary(inplace=False)', '[m.vartype(v) for v in m.variables]', '[(m.lower_bound(v), m.upper_bound(v)) for v in m.variables]',
                         "m.relabel_constraints({'c0': 'cX'}) if False else None", 'm.objective.energy(' + sample + ')', 'list(m.objective.iter_linear())',
                         'dimod.ConstrainedQuadraticModel.from_file(m.to_file())', 'm.constraint_labels', "m.constraints['c0'].lhs.energy(" + sample + ')']
    sample = '{v: 1 for v in m.variables}'
    out = common + [f'm.energy({sample})', f'm.energies([{sample}])', 'list(m.iter_linear())', 'list(m.iter_quadratic())', 'dict(m.linear)', 'dict(m.quadratic)',
                    '{u: dict(nb) for u, nb in m.adj.items()}', f'm.degree({v!r})', f'list(m.iter_neighborhood({v!r}))', 'm.num_interactions', 'm.is_linear()',
                    'm.to_polystring()', 'm.copy()', f'm.get_linear({v!r})', f'm.linear[{v!r}]', 'm.offset', 'm.to_file().read()', 'm.is_equal(m.copy())',
                    f"m.relabel_variables({{{v!r}: 'RD'}}, inplace=False)", 'm.relabel_variables_as_integers(inplace=False)', 'm + 1', 'm * 2', '-m', 'm - m', 'm.nbytes()']
    if kind == 'bqm':
        out += ['m.spin', 'm.binary', 'm.spin.binary.spin', 'm.binary.spin', 'm.to_numpy_vectors()', 'm.to_serializable()', 'm.to_qubo()', 'm.to_ising()',
                'm.to_numpy_matrix() if False else None', "m.change_vartype('SPIN', inplace=False)", "m.change_vartype('BINARY', inplace=False)",
                'dict(m.spin.linear)', 'dict(m.binary.quadratic)', 'm.spin.offset', 'm.binary.offset', f'm.binary.energy({sample})', 'm.spin.adj', 'dimod.as_bqm(m)',
                'pickle.loads(pickle.dumps(m))', 'dimod.QuadraticModel.from_bqm(m)', 'm.binary.copy()', 'm.spin.to_polystring()', 'm.dtype', 'm.vartype', 'm.shape',
                f'm.reduce_linear(max)', 'm.reduce_quadratic(max) if m.num_interactions else None', f'm.spin.get_linear({v!r})', 'm.spin.num_interactions']
    else:
        out += ['m.spin_to_binary(inplace=False)', '[m.vartype(v) for v in m.variables]', '[(m.lower_bound(v), m.upper_bound(v)) for v in m.variables]', 'pickle.loads(pickle.dumps(m))',
                'm.to_file().read()', 'dimod.QuadraticModel.from_file(m.to_file())', 'm.dtype', 'm.is_almost_equal(m.copy())']
    return out


def check_reads(ctx, r, kind, src, vs, dom=None):
    """Pattern: evaluate -> mutate -> evaluate again on ONE object (and on the objects reached from it).
    (a) no read changes the receiver (full observable state); (b) the same in-place edits applied to an object that was read and to one that was
    not leave the same state, and (c) every read then answers the same on both."""
    site = {'bqm': 'BinaryQuadraticModel', 'qm': 'QuadraticModel', 'cqm': 'ConstrainedQuadraticModel', 'ss': 'SampleSet'}[kind]
    calls = read_calls(kind, r, vs, dom)
    picked = r.sample(calls, min(len(calls), r.randint(3, 9)))
    if kind == 'ss':
        edits_fn = lambda: ss_edits(r, 'm', vs, 3)
    else:
        edits_fn = lambda: model_edits(kind, r, vs, 'm', 3)
    try:
        A = fresh(src, ''); B = fresh(src, '')
    except Exception:  # noqa
        return
    done_reads = []
    for c in picked:
        before = snap(A['m'])
        try:
            with warnings.catch_warnings():
                warnings.simplefilter('ignore')
                eval(c, A)
        except Exception:  # noqa: not applicable to this object
            ctx.tick(f'read {site}: not applicable')
            continue
        done_reads.append(c)
        ctx.tick(f'read {site}')
        if snap(A['m']) != before:
            ctx.case((site, 'read', c, src), nontrivial=True)
            ctx.fail('property', f'{site} non-mutating call', 'receiver changed by a non-mutating call', f'`{c}` changed the receiver: {before!r} -> {snap(A["m"])!r}',
                     repro=PRE + src + f'\nbefore = snap(m)\n{c}\nassert snap(m) == before, (before, snap(m))', detail=dict(source=src, call=c))
            return
    edits = edits_fn()
    dA = run_lines(A, edits); dB = run_lines(B, edits)
    ctx.case((site, 'reads then edits', tuple(done_reads), tuple(dA), src), nontrivial=bool(done_reads) and bool(dA),
             sample=dict(source=src.splitlines()[-1][:160], reads=done_reads, edits=dA) if r.random() < .01 else None)
    rp_head = (PRE + f"SRC = {src!r}\nREADS = {done_reads!r}\nEDITS = {edits!r}\n"
               "def build(reads):\n    env = dict(globals()); exec(SRC, env)\n    for c in reads:\n        try: eval(c, env)\n        except Exception: pass\n"
               "    for ln in EDITS:\n        try: exec(ln, env)\n        except Exception: pass\n    return env\nA, B = build(READS), build([])\n")
    if dA != dB or snap(A['m']) != snap(B['m']):
        ctx.fail('property', f'{site} non-mutating call', 'earlier reads change what a later in-place edit does',
                 f'after reads {done_reads!r} the edits {edits!r} give {snap(A["m"])!r}; without the reads {snap(B["m"])!r}',
                 repro=rp_head + "assert snap(A['m']) == snap(B['m']), (snap(A['m']), snap(B['m']))", detail=dict(source=src, reads=done_reads, edits=edits))
        return
    for c in done_reads + r.sample(calls, min(len(calls), 4)):
        res = []
        for E in (A, B):
            try:
                with warnings.catch_warnings():
                    warnings.simplefilter('ignore')
                    res.append(('ok', obs(eval(c, E))))
            except Exception as e:  # noqa
                res.append(('raises', type(e).__name__))
        if res[0] != res[1]:
            ctx.fail('property', f'{site} non-mutating call', 'a read answers from a stale state after an in-place edit',
                     f'after reads {done_reads!r} and edits {dA!r}: `{c}` gives {res[0]!r}; an object that was not read before the edits gives {res[1]!r}',
                     repro=rp_head + f"C = {c!r}\ndef ev(E):\n    try: return obs(eval(C, E))\n    except Exception as e: return type(e).__name__\nassert ev(A) == ev(B), (ev(A), ev(B))",
                     detail=dict(source=src, reads=done_reads, edits=dA, call=c))
            return


# ------------------------------------------------------------------ sample sets

def ss_calls(r, labels, vt, m):
    a, b = r.choice([None, 0, 1, 2, -2]), r.choice([None, 2, 3, 5, -1])
    c = r.choice([None, None, 1, 2, -1])
    n = r.randint(0, 5)
    sl = lambda x: '-' if x is None else str(x)
    v0 = labels[0]
    other_vt = {'SPIN': 'BINARY', 'BINARY': 'SPIN'}.get(vt, vt)
    return [
        ('SampleSet.copy', 'res = ss.copy()', 'copy', True),
        ('copy.deepcopy(SampleSet)', 'res = copy.deepcopy(ss)', 'deepcopy', True),
        ('pickle(SampleSet)', 'res = pickle.loads(pickle.dumps(ss))', 'deepcopy', True),
        ('SampleSet.slice(sorted_by=None)', f'res = ss.slice({a!r}, {b!r}, {c!r}, sorted_by=None)', f'slicenone 1 {sl(a)} {sl(b)} {sl(c)}', False),
        ('SampleSet.slice', f'res = ss.slice({a!r}, {b!r}, {c!r})', 'SORTED', False),
        ('SampleSet.truncate(sorted_by=None)', f'res = ss.truncate({n}, sorted_by=None)', f'slicenone 1 - {n} -', False),
        ('SampleSet.truncate', f'res = ss.truncate({n})', 'SORTED', False),
        ('SampleSet.lowest', 'res = ss.lowest()', 'LOWEST', False),
        ('SampleSet.filter', 'res = ss.filter(lambda d: d.idx % 2 == 0)', 'FILTER', False),
        ('SampleSet.aggregate', 'res = ss.aggregate()', 'AGG', False),
        ('SampleSet.relabel_variables(inplace=False)', f"res = ss.relabel_variables({{{v0!r}: 'RL'}}, inplace=False)", 'relabelcopy', False),
        ('SampleSet.change_vartype(inplace=False)', f'res = ss.change_vartype({other_vt!r}, inplace=False)' if vt != 'INTEGER' else 'res = ss.change_vartype("INTEGER", inplace=False)', 'cvcopy', False),
        ('dimod.concatenate([ss])', 'res = dimod.concatenate([ss])', 'concatone 1', False),
        ('dimod.concatenate([ss, ss])', 'res = dimod.concatenate([ss, ss.copy()])', None, False),
        ('dimod.keep_variables', f'res = dimod.keep_variables(ss, {labels[:1]!r})', 'fromsamples', False),
        ('dimod.drop_variables', f'res = dimod.drop_variables(ss, {labels[-1:]!r})', 'fromsamples', False),
        ('dimod.append_variables', "res = dimod.append_variables(ss, {'NEWV': 1})", 'fromsamples', False),
        ('dimod.append_data_vectors', f'res = dimod.append_data_vectors(ss, nv=list(range({m})))', 'appendvec 1', False),
        ('SampleSet.from_samples(SampleSet)', 'res = dimod.SampleSet.from_samples(ss, ss.vartype, energy=ss.record.energy, info=copy.deepcopy(ss.info), idx=ss.record.idx)', None, False),
        ('SampleSet.from_serializable(to_serializable)', 'res = dimod.SampleSet.from_serializable(ss.to_serializable())', None, False),
    ]


def ss_edits(r, target, labels, k=3):
    out = []
    for _ in range(k):
        e = r.choice(['sample', 'energy', 'occ', 'idx', 'bulk', 'info_top', 'info_new', 'info_del', 'nested_list', 'nested_dict', 'nested_array',
                      'relabel', 'change_vartype', 'nested_list', 'nested_array'])
        if e == 'sample':
            out.append(f'{target}.record.sample[0, 0] += 1')
        elif e == 'energy':
            out.append(f'{target}.record.energy[-1] += 1.5')
        elif e == 'occ':
            out.append(f'{target}.record.num_occurrences[0] += 1')
        elif e == 'idx':
            out.append(f'{target}.record.idx[:] = 99')
        elif e == 'bulk':
            out.append(f'{target}.record.sample[:] = 1')
        elif e == 'info_top':
            out.append(f"{target}.info['x'] = 6")
        elif e == 'info_new':
            out.append(f"{target}.info['fresh'] = 1")
        elif e == 'info_del':
            out.append(f"del {target}.info['x']")
        elif e == 'nested_list':
            out.append(f"{target}.info['n']['k'].append(9)")
        elif e == 'nested_dict':
            out.append(f"{target}.info['n']['z'] = 1")
        elif e == 'nested_array':
            out.append(f"{target}.info['arr'][0] = 77")
        elif e == 'relabel':
            out.append(f"{target}.relabel_variables({{{labels[0]!r}: 'ED'}}, inplace=True)")
        elif e == 'change_vartype':
            out.append(f"{target}.change_vartype('SPIN' if {target}.vartype is dimod.BINARY else 'BINARY', inplace=True)")
    return out


def check_multi_ss(ctx, r, nscripts):
    """functions that build a new SampleSet from SEVERAL existing ones: every input must stay bit-for-bit unchanged by
    the call and by later edits of the result, and the result must be independent of every input"""
    src, labels, vt = gen_ss(r, 'a', m=r.choice([1, 3, 4]))
    n = len(labels)
    parts = [src]
    names = ['a']
    for j in range(r.randint(1, 2)):
        vt2 = {'SPIN': 'BINARY', 'BINARY': 'SPIN'}.get(vt, vt) if r.random() < .6 else vt        # mixed vartypes: concatenate coerces
        labs2 = r.sample(labels, n)                                                                  # differing column order
        dom = {'SPIN': [-1, 1], 'BINARY': [0, 1], 'INTEGER': [-2, 0, 3]}[vt2]
        m2 = r.choice([1, 2, 4])
        rows = [[r.choice(dom) for _ in range(n)] for _ in range(m2)]
        dt = "a.record.sample.dtype"
        parts.append(f"o{j} = dimod.SampleSet.from_samples((np.array({rows!r}, dtype={dt}).reshape({m2}, {n}), {labs2!r}), {vt2!r}, "
                     f"energy=np.array({[r.randint(-8, 8) / 4 for _ in range(m2)]!r}, dtype=float), num_occurrences=np.array({[1] * m2!r}, dtype=int), "
                     f"sort_labels=False, info={{'n': {{'k': [1, 2]}}, 'arr': np.array([1, 2, 3]), 'x': 5}}, idx=np.arange({m2}) + {100 * (j + 1)})")
        names.append(f'o{j}')
    ma = int(src.split('.reshape(')[1].split(',')[0])
    parts.append(f"extra = dimod.SampleSet.from_samples((np.ones(({ma}, 2), dtype='int8'), ['XA', 'XB']), {('BINARY' if vt != 'SPIN' else 'SPIN')!r}, energy=np.zeros({ma}), "
                 f"info={{'n': {{'k': [1, 2]}}, 'arr': np.array([1, 2, 3]), 'x': 5}}, idx=np.arange({ma}) + 900)")
    pending = r.random() < .5
    if pending:
        parts[0] = parts[0].replace('a = ', 'a_base = ', 1)
        parts.insert(1, 'a = dimod.SampleSet.from_future(LateFuture(a_base))')
        parts[2:] = [x.replace('a.record.sample.dtype', 'a_base.record.sample.dtype') for x in parts[2:]]     # do not resolve `a` while building the others
    full = '\n'.join(parts)
    allin = '(' + ', '.join(names) + ',)'
    calls = [
        ('dimod.concatenate(several)', f"res = dimod.concatenate([{', '.join(names)}])", allin, names),
        ('dimod.concatenate(several, reversed)', f"res = dimod.concatenate([{', '.join(reversed(names))}])", allin, names),
        ('dimod.concatenate(same set twice)', 'res = dimod.concatenate([a, a])', '(a,)', ['a']),
        ('dimod.append_variables(SampleSet)', 'res = dimod.append_variables(a, extra)', '(a, extra)', ['a', 'extra']),
        ('SampleSet.from_samples(SampleSet)', 'res = dimod.SampleSet.from_samples(a, a.vartype, energy=a.record.energy, info=copy.deepcopy(a.info), idx=a.record.idx)', '(a,)', ['a']),
    ]
    out = []
    for site, code, recv, ins in calls:
        env = check_call(ctx, r, 'ss', site, full, code, recv, False,
                         lambda rr, target, ins=ins, labels=labels: ss_edits(rr, rr.choice(ins) if target.startswith('(') else target, labels), nscripts,
                         before_recv=recv.replace('(a,', '(a_base,') if pending else None,
                         suffix=' (first input pending at call time)' if pending else '')
        out.append((site, code, env, names))
    return out


def nested_ids(info):
    out = []
    def walk(x):
        if isinstance(x, dict):
            out.append(x)
            for v in x.values():
                walk(v)
        elif isinstance(x, list):
            out.append(x)
            for v in x:
                walk(v)
        elif isinstance(x, np.ndarray):
            out.append(x)
    for v in info.values():
        walk(v)
    return out


def ss_alias_line(env, op):
    """the model line for this call and the observed alias bits / selected rows"""
    ss, res = env['ss'], env['res']
    n = len(ss)
    if op == 'SORTED':
        op = 'slicesorted ' + (','.join(str(int(i)) for i in res.record.idx) or '-')
    elif op == 'LOWEST':
        e = ss.record.energy
        op = 'lowest ' + (','.join('1' if abs(x - e.min()) <= 1e-8 + 1e-5 * abs(e.min()) else '0' for x in e) or '-')
    elif op == 'FILTER':
        op = 'filter 1 ' + (','.join('1' if i % 2 == 0 else '0' for i in range(n)) or '-')
    elif op == 'AGG':
        op = 'aggregate ' + (','.join(str(int(i)) for i in res.record.idx) or '-')
    a, b = nested_ids(res.info), nested_ids(ss.info)
    obs = (f"ok record={int(np.shares_memory(res.record, ss.record))} variables={int(res.variables is ss.variables)} infotop={int(res.info is ss.info)} "
           f"nested={int(any(x is y for x in a for y in b))}")
    rows = ','.join(str(int(i)) for i in res.record.idx) if 'idx' in res.record.dtype.names else None
    return f'ss {n} 3 {op}', obs, rows


# ------------------------------------------------------------------ documented aliases

def check_views(ctx, r, _lines, _expect, _meta):
    src, vs, vt = gen_bqm(r)
    for view in ('spin', 'binary'):
        code = f'v = m.{view}'
        env = fresh(src, code)
        lines = model_edits('bqm', r, vs, 'm', 3)
        done = run_lines(env, [ln for ln in lines if 'change_vartype' not in ln])
        ctx.tick('view tracks parent'); ctx.case(('view', view, tuple(done), src), nontrivial=bool(done))
        m, v = env['m'], env['v']
        if v is not m and m.variables is m.variables:      # (object-dtype models hand out a new KeysView of the same dict on every access)
            _lines.append('mcall view'); _expect.append(f"ok data={int(getattr(v.data, 'data', v.data) is m.data)} variables={int(v.variables is m.variables)} receiver_unchanged=1"); _meta.append('view')
        if snap(v) != snap(getattr(m, view)) or snap(v)[2:] != snap(m.change_vartype(view.upper(), inplace=False))[2:]:
            ctx.fail('property', f'BinaryQuadraticModel.{view}', 'view does not track its parent', f'after {done!r}: view {snap(v)!r}, parent converted {snap(m.change_vartype(view.upper(), inplace=False))!r}',
                     repro=PRE + src + '\n' + code + '\n' + '\n'.join(done) + f"\nassert snap(v)[2:] == snap(m.change_vartype('{view.upper()}', inplace=False))[2:]", detail=dict(source=src, edits=done))
        # edits through the view reach the parent
        env = fresh(src, code)
        lines = [ln.replace('m.', 'v.') for ln in model_edits('bqm', r, vs, 'm', 3) if 'change_vartype' not in ln and 'flip' not in ln and 'fix' not in ln and 'relabel' not in ln and 'remove' not in ln]
        done = run_lines(env, lines)
        m, v = env['m'], env['v']
        ctx.tick('parent tracks view'); ctx.case(('view-write', view, tuple(done), src), nontrivial=bool(done))
        if snap(v)[2:] != snap(m.change_vartype(view.upper(), inplace=False))[2:]:
            ctx.fail('property', f'BinaryQuadraticModel.{view}', 'parent does not track its view', f'after {done!r}',
                     repro=PRE + src + '\n' + code + '\n' + '\n'.join(done) + f"\nassert snap(v)[2:] == snap(m.change_vartype('{view.upper()}', inplace=False))[2:]", detail=dict(source=src, edits=done))
    # CQM expression views
    src, vs, _ = gen_cqm(r)
    code = "obj = m.objective\nlhs = m.constraints['c0'].lhs"
    env = fresh(src, code)
    lines = [ln for ln in model_edits('cqm', r, vs, 'm', 4) if 'remove_constraint' not in ln and 'fix_variable' not in ln]
    done = run_lines(env, lines)
    ctx.tick('expression views track the CQM'); ctx.case(('cqm-view', tuple(done), src), nontrivial=bool(done))
    m = env['m']
    if snap(env['obj']) != snap(m.objective) or snap(env['lhs']) != snap(m.constraints['c0'].lhs):
        ctx.fail('property', 'ConstrainedQuadraticModel expression view', 'view does not track its parent', f'after {done!r}',
                 repro=PRE + src + '\n' + code + '\n' + '\n'.join(done) + "\nassert snap(obj) == snap(m.objective) and snap(lhs) == snap(m.constraints['c0'].lhs)", detail=dict(source=src, edits=done))


def check_add_to_cqm(ctx, r, lines, expect, meta):
    """adding a model to a CQM with copy=True: later edits on either side stay private"""
    src, vs, vt = gen_bqm(r, 'b')
    for site, code in [('ConstrainedQuadraticModel.add_constraint_from_model(copy=True)', "m = dimod.ConstrainedQuadraticModel()\nlab = m.add_constraint_from_model(b, '<=', 1, label='c0', copy=True)"),
                       ('ConstrainedQuadraticModel.add_constraint(copy=True)', "m = dimod.ConstrainedQuadraticModel()\nlab = m.add_constraint(b, '==', 0, label='c0', copy=True)"),
                       ('ConstrainedQuadraticModel.set_objective', 'm = dimod.ConstrainedQuadraticModel()\nm.set_objective(b)'),
                       ('ConstrainedQuadraticModel.add_constraint(comparison)', "m = dimod.ConstrainedQuadraticModel()\nlab = m.add_constraint(b <= 1, label='c0')")]:
        for side in (0, 1):
            try:
                env = fresh(src, 'b_before = snap(b)\n' + code)
            except TypeError:
                break           # object-dtype models cannot be added to a CQM
            if snap(env['b']) != env['b_before']:
                ctx.fail('property', site, 'source model changed by the call', f"{env['b_before']!r} -> {snap(env['b'])!r}",
                         repro=PRE + src + '\nw = snap(b)\n' + code + '\nassert snap(b) == w', detail=dict(source=src, call=code))
                break
            if side == 0:
                edits = model_edits('bqm', r, vs, 'b', 3)
                watched = 'm'
            else:
                edits = [ln for ln in model_edits('cqm', r, vs, 'm', 3)]
                watched = 'b'
            w0 = snap(env[watched])
            done = run_lines(env, edits)
            ctx.tick(site); ctx.case((site, side, tuple(done), src), nontrivial=bool(done))
            if snap(env[watched]) != w0:
                ctx.fail('property', site, 'edit of the source model visible in the CQM' if side == 0 else 'edit of the CQM visible in the source model', f'after {done!r}',
                         repro=PRE + src + '\n' + code + f'\nw = snap({watched})\n' + '\n'.join(done) + f'\nassert snap({watched}) == w', detail=dict(source=src, call=code, edits=done))
                break
    # what happens to the source model, against the store model: copy=True leaves it alone, copy=False moves its data
    if 'DictBQM' not in src:
        for site, line, code, lhs in [
            ('ConstrainedQuadraticModel.add_constraint_from_model(copy=True)', 'addcqm constraint 1 -', "m.add_constraint_from_model(b, '<=', 1, label='c0', copy=True)", "m.constraints['c0'].lhs"),
            ('ConstrainedQuadraticModel.add_constraint(copy=True)', 'addcqm constraint 1 -', "m.add_constraint(b, '==', 0, label='c0', copy=True)", "m.constraints['c0'].lhs"),
            ('ConstrainedQuadraticModel.add_constraint_from_model(copy=False)', 'addcqm constraint 0 -', "m.add_constraint_from_model(b, '<=', 1, label='c0', copy=False)", "m.constraints['c0'].lhs"),
        ]:
            env = fresh(src, 'b0 = copy.deepcopy(b)\nm = dimod.ConstrainedQuadraticModel()\n' + code)
            b, b0 = env['b'], env['b0']
            held = eval(lhs, env)
            obs = (f"ok source_unchanged={int(snap(b) == snap(b0))} source_cleared={int(b.num_variables == 0 and b.offset == 0 and b0.num_variables > 0)} "
                   f"constraint_holds_data={int(snap(held)[2:5] == snap(b0)[2:5])}")
            if b0.num_variables == 0:
                continue
            lines.append(line); expect.append(obs); meta.append(site); ctx.tick(site + ' source bits')
            lines.append(line.replace('addcqm', 'hadd')); expect.append(obs); meta.append(site)
        # further ways a model reaches a CQM, against the heap model: comparison with copy=False (moved), set_objective and
        # from_quadratic_model (copied INTO the CQM's own objective: the source is never written)
        for site, line, code, held_src in [
            ('ConstrainedQuadraticModel.add_constraint(comparison, copy=False)', 'hadd comparison 0 -', "m.add_constraint(b <= 1, label='c0', copy=False)", "m.constraints['c0'].lhs"),
            ('ConstrainedQuadraticModel.add_constraint(comparison, copy=True)', 'hadd comparison 1 -', "m.add_constraint(b <= 1, label='c0', copy=True)", "m.constraints['c0'].lhs"),
            ('ConstrainedQuadraticModel.set_objective', 'hadd objective - 0', 'm.set_objective(b)', 'm.objective'),
            ('ConstrainedQuadraticModel.from_quadratic_model', 'hadd fromqm - 0', 'm = dimod.ConstrainedQuadraticModel.from_quadratic_model(b)', 'm.objective'),
        ]:
            env = fresh(src, 'b0 = copy.deepcopy(b)\nm = dimod.ConstrainedQuadraticModel()\n' + code)
            b, b0 = env['b'], env['b0']
            if b0.num_variables == 0:
                continue
            held = eval(held_src, env)
            obs = (f"ok source_unchanged={int(snap(b) == snap(b0))} source_cleared={int(b.num_variables == 0 and b.offset == 0)} "
                   f"constraint_holds_data={int(snap(held)[2:5] == snap(b0)[2:5])}")
            lines.append(line); expect.append(obs); meta.append(site); ctx.tick(site + ' source bits')
            if 'copy=False' not in site and snap(b) != snap(b0):
                ctx.fail('property', site, 'source model changed by the call', f'{snap(b0)!r} -> {snap(b)!r}',
                         repro=PRE + src + '\nw = snap(b)\nm = dimod.ConstrainedQuadraticModel()\n' + code + '\nassert snap(b) == w', detail=dict(source=src, call=code))
    else:
        # an object-dtype model: set_objective converts it to a temporary first; the caller's model is never written
        env = fresh(src, 'b0 = copy.deepcopy(b)\nm = dimod.ConstrainedQuadraticModel()\nm.set_objective(b)')
        b, b0 = env['b'], env['b0']
        if b0.num_variables:
            site = 'ConstrainedQuadraticModel.set_objective(object dtype)'
            lines.append('hadd objective - 1'); meta.append(site); ctx.tick(site + ' source bits')
            expect.append(f"ok source_unchanged={int(snap(b) == snap(b0))} source_cleared=0 constraint_holds_data={int(snap(env['m'].objective)[2:5] == snap(b0)[2:5])}")
    # add_discrete(comparison, copy, check_overlaps): the two options must reach the callee as given
    dsrc = "q = dimod.Binary('dA') + dimod.Binary('dB') + dimod.Binary('dC')"
    for cp in (True,):
        for co in (True, False):
            for site, code in [('ConstrainedQuadraticModel.add_discrete(comparison)', f"lab = m.add_discrete(q == 1, label='d0', copy={cp}, check_overlaps={co})"),
                               ('ConstrainedQuadraticModel.add_discrete_from_comparison', f"lab = m.add_discrete_from_comparison(q == 1, 'd0', {cp}, {co})")]:
                full = dsrc + '\nq0 = copy.deepcopy(q)\nm = dimod.ConstrainedQuadraticModel()\n' + code
                env = fresh('', full)
                q, q0, m = env['q'], env['q0'], env['m']
                ctx.tick(site); ctx.case((site, cp, co), nontrivial=True)
                if snap(q) != snap(q0):
                    ctx.fail('property', site, f'copy={cp}, check_overlaps={co}: source model changed by the call', f'{snap(q0)!r} -> {snap(q)!r}',
                             repro=PRE + full + '\nassert snap(q) == snap(q0), snap(q)', detail=dict(call=code))
                    continue
                # later edits on either side stay private
                w = snap(m); q.add_linear('dA', 5.0); q.add_variable('dNEW', 1.0)
                if snap(m) != w:
                    ctx.fail('property', site, f'copy={cp}, check_overlaps={co}: edit of the source model visible in the CQM', 'after q.add_linear / q.add_variable',
                             repro=PRE + full + "\nw = snap(m)\nq.add_linear('dA', 5.0)\nassert snap(m) == w", detail=dict(call=code))
                    continue
                held = m.constraints['d0'].lhs
                lines.append(f'addcqm discrete {int(cp)} {int(co)}')
                expect.append(f"ok source_unchanged=1 source_cleared=0 constraint_holds_data={int(snap(held)[2:5] == snap(q0)[2:5])}"); meta.append(site)
                lines.append(f'hadd discrete {int(cp)} {int(co)}')
                expect.append(f"ok source_unchanged=1 source_cleared=0 constraint_holds_data={int(snap(held)[2:5] == snap(q0)[2:5])}"); meta.append(site)


def check_discrete_overlap(ctx):
    """`check_overlaps=True` must be honoured whatever `copy` is"""
    for cp in (True, False):
        code = ("m = dimod.ConstrainedQuadraticModel()\nm.add_discrete(['dA', 'dX'], label='first')\n"
                "q = dimod.Binary('dA') + dimod.Binary('dB')\n"
                f"try:\n    m.add_discrete(q == 1, label='d0', copy={cp}, check_overlaps=True)\n    raised = False\nexcept ValueError:\n    raised = True")
        env = fresh('', code)
        site = 'ConstrainedQuadraticModel.add_discrete(comparison)'
        ctx.tick(site + ' overlap'); ctx.case((site, 'overlap', cp), nontrivial=True)
        if not env['raised']:
            ctx.fail('property', site, f'copy={cp}, check_overlaps=True: overlapping discrete constraint accepted', 'no ValueError',
                     repro=PRE + code + '\nassert raised', detail=dict(call=code))


def check_variables(ctx, r):
    labs = r.choice(LABELS)
    src = f'm = dimod.variables.Variables({labs[:r.randint(1, 4)]!r})'
    for site, code in [('Variables.copy', 'res = m.copy()'), ('copy.copy(Variables)', 'res = copy.copy(m)'), ('copy.deepcopy(Variables)', 'res = copy.deepcopy(m)'),
                       ('pickle(Variables)', 'res = pickle.loads(pickle.dumps(m))'), ('Variables(Variables)', 'res = dimod.variables.Variables(m)')]:
        def edits(rr, target):
            return [rr.choice([f"{target}._append('NEWV')", f"{target}._relabel({{{labs[0]!r}: 'ED'}})", f'{target}._pop()', f'{target}._relabel_as_integers()'])
                    for _ in range(2)]
        check_call(ctx, r, 'vars', site, src, code, 'm', True, edits, 2)


# ------------------------------------------------------------------ Python-level objects with their __dict__ caches (DimodModel/HeapCache.lean)
FWD_USED = ['add_linear', 'add_quadratic', 'set_linear', 'set_quadratic']


def forwarding_names():
    """the `@forwarding_method`s of BinaryQuadraticModel, read off the source"""
    import ast
    import inspect
    tree = ast.parse(inspect.getsource(dimod.binary.binary_quadratic_model))
    for c in tree.body:
        if isinstance(c, ast.ClassDef) and c.name == 'BinaryQuadraticModel':
            return [f.name for f in c.body if isinstance(f, ast.FunctionDef) and any(getattr(d, 'id', None) == 'forwarding_method' for d in f.decorator_list)]
    return []


def check_pycache(ctx, r, lines, expect, meta):
    """a script of attribute reads (`.spin` / `.binary`), in-place edits through every route (direct, forwarded method, the cached
    or new other-vartype object, its forwarded methods) and copies (copy.copy / copy.deepcopy / .copy()) on real objects.  Property
    (no model): a copy's `__dict__` holds `data` only; an edit changes exactly the objects around the edited object's own data
    (the object and its other-vartype object), never a copy or an original.  Correspondence: the same script on the heap model."""
    from dimod.binary.vartypeview import VartypeView
    vt = r.choice(['SPIN', 'BINARY'])
    dt = r.choice(['float64', 'float32', 'object'])
    src = f"m = dimod.BinaryQuadraticModel({{'a': 1.0, 'b': -2.0, 'c': 0.5}}, {{('a', 'b'): 4.0, ('b', 'c'): -1.0}}, 1.5, {vt!r}, dtype={'object' if dt == 'object' else repr(dt)})"
    env = {}
    exec(PRE + src, env)
    objs = [env['m']]
    init_names = '+'.join(sorted(k for k in env['m'].__dict__ if k in FWD_USED)) or '-'
    def cy(o):
        d = o.data
        while isinstance(d, VartypeView):        # a view of a view (the `.spin` of a deep-copied `.binary` object) nests
            d = d.data
        return d
    other = lambda o: o.binary if o.vartype is dimod.SPIN else o.spin
    read = lambda o: (o.vartype.name, float(o.offset), sorted((repr(v), float(b)) for v, b in o.linear.items()),
                      sorted((repr(sorted(map(repr, k))), float(b)) for k, b in o.quadratic.items()))

    def known(o):
        for i, x in enumerate(objs):
            if x is o:
                return i
        objs.append(o)
        return len(objs) - 1
    ops, chs, script = [], [], [src]
    counter = [100.5]
    bad = None
    for _ in range(r.randint(2, 9)):
        x = r.randrange(len(objs))
        kind = r.choice('ODWFVCK' if len(objs) < 7 else 'ODWFV')
        name = r.choice(FWD_USED)
        before = [read(o) for o in objs]
        n_before = len(objs)
        counter[0] += 1.0

        def edit(o, fwd):
            if not fwd:
                o.offset += 1
            elif name == 'add_linear':
                o.add_linear('a', 1.0)
            elif name == 'add_quadratic':
                o.add_quadratic('a', 'c', 1.0)
            elif name == 'set_linear':
                o.set_linear('b', counter[0])
            else:
                o.set_quadratic('a', 'b', counter[0])
        if kind == 'O':
            known(other(objs[x])); op = f'O{x}'; script.append(f'other(objs[{x}])')
        elif kind == 'D':
            edit(objs[x], False); op = f'D{x}'; script.append(f'objs[{x}].offset += 1')
        elif kind == 'W':
            v = other(objs[x]); known(v); edit(v, False); op = f'W{x}'; script.append(f'other(objs[{x}]).offset += 1')
        elif kind == 'F':
            edit(objs[x], True); op = f'F{x}:{name}'; script.append(f'objs[{x}].{name}(...)')
        elif kind == 'V':
            v = other(objs[x]); known(v); edit(v, True); op = f'V{x}:{name}'; script.append(f'other(objs[{x}]).{name}(...)')
        elif kind == 'C':
            new = copy.copy(objs[x]) if r.random() < .5 else objs[x].copy(); objs.append(new); op = f'C{x}'; script.append(f'objs.append(copy.copy(objs[{x}]))')
        else:
            new = copy.deepcopy(objs[x]) if r.random() < .5 else objs[x].copy(deep=True); objs.append(new); op = f'K{x}'; script.append(f'objs.append(copy.deepcopy(objs[{x}]))')
        ops.append(op)
        after = [read(o) for o in objs[:n_before]]
        ch = [i for i in range(n_before) if before[i][1:] != after[i][1:] or before[i][0] != after[i][0]]
        chs.append(','.join(map(str, ch)) or '-')
        ctx.tick('py cache op ' + kind)
        # property: exactly the objects around the edited data change; copies start with `data` only and equal to the original
        if kind in 'DWFV':
            want = [i for i in range(n_before) if cy(objs[i]) is cy(objs[x])]
            if ch != want and not bad:
                bad = (f'after `{script[-1]}` the objects {ch} read differently, the objects around the edited model are {want}', 'edit through a cached route')
        elif kind in 'CK':
            if ch and not bad:
                bad = (f'`{script[-1]}` changed the objects {ch}', 'copy changed an object')
            keys = set(objs[-1].__dict__)
            if keys != {'data'} and not bad:
                bad = (f'`{script[-1]}`: the copy\'s __dict__ holds {sorted(keys)}', 'copy took over cached attributes')
            if read(objs[-1]) != read(objs[x]) and not bad:
                bad = (f'`{script[-1]}`: the copy reads {read(objs[-1])}, the original {read(objs[x])}', 'copy differs')
    ctx.case(('pycache', vt, dt, tuple(ops)), nontrivial=any(o[0] in 'CK' for o in ops) and any(o[0] in 'DWFV' for o in ops))
    site = 'BinaryQuadraticModel copy with filled caches'
    if bad:
        ctx.fail('property', site, bad[1], bad[0] + f' (script: {script})', repro=None, detail=dict(script=script))
        return
    datas = []
    for o in objs:
        if not any(cy(o) is d for d in datas):
            datas.append(cy(o))
    show = []
    for o in objs:
        oth = o.__dict__.get('_binary', o.__dict__.get('_spin'))
        oi = next((str(i) for i, z in enumerate(objs) if z is oth), '?') if oth is not None else '-'
        show.append(f"{next(i for i, d in enumerate(datas) if d is cy(o))},{int(isinstance(o.data, VartypeView))},{oi},{'+'.join(sorted(k for k in o.__dict__ if k in FWD_USED))}")
    lines.append(f'pyc {init_names} ' + ';'.join(ops)); expect.append('ok ch=' + '/'.join(chs) + ' ' + '|'.join(show)); meta.append(site)


def run(ctx):
    r = ctx.rng
    ctx.rule = ('random BQMs (3 dtypes) / QMs / CQMs / Variables / sample sets (0-6 rows, nested info with list, dict and array) x every '
                'copy-producing call x {edit the receiver, edit the result} x random in-place edit scripts (coefficients, views, labels, '
                'vartype, bounds, constraints, record fields, info at every level).  A case = one script on one side of one call; '
                'non-trivial = at least one edit applied')
    lines, expect, meta = [], [], []
    nrounds = ctx.scale(30, 220)       # r8f: quick tier trimmed (was 60): every round runs every call of every class; volume lives in the thorough tier (500 rounds took 27.5 min with the r8f generators: 220)
    nscripts = ctx.scale(2, 4)
    for _ in range(nrounds):
        for kind, gen in (('bqm', gen_bqm), ('qm', gen_qm), ('cqm', gen_cqm)):
            src, vs, vt = gen(r)
            osrc = gen_bqm(r, 'other')[0] if kind == 'bqm' else gen_qm(r, 'other')[0]
            if kind == 'bqm':
                osrc += f"\nother = dimod.BinaryQuadraticModel(other.linear, other.quadratic, other.offset, {vt!r})"
            for name, code, mop, plain, expected in model_calls(kind, vs, vt, r):
                cls = {'bqm': 'BinaryQuadraticModel', 'qm': 'QuadraticModel', 'cqm': 'ConstrainedQuadraticModel'}[kind]
                site = f'{cls}.{name}'
                full = src + ('\n' + osrc if 'other' in code else '')
                two = 'other' in code
                env = check_call(ctx, r, 'model', site, full, code, '(m, other)' if two else 'm', plain,
                                 lambda rr, target, kind=kind, vs=vs: model_edits(kind, rr, vs, rr.choice(['m', 'other']) if target.startswith('(') else target, 3),
                                 nscripts, expected=expected)
                if env is not None and 'res' in env and hasattr(env['res'], 'variables'):
                    m, res = env['m'], env['res']
                    call = mcall_of(name, m)
                    if call is not None and m.variables is m.variables:
                        handle = (lambda o: getattr(o, 'data', o))
                        lines.append('mcall ' + call)
                        expect.append(f'ok data={int(handle(res) is handle(m))} variables={int(res.variables is m.variables)} receiver_unchanged=1')
                        meta.append(site)
                        # the same call on the heap model (cy object / C++ model / Variables cells, `DimodModel/Heap.lean`)
                        hcall = {'__add__(model)': 'addmodel', '__sub__(model)': 'submodel', '__mul__(model)': 'mulmodel'}.get(name, call)
                        if kind == 'bqm' and name in ('__add__(model)', '__sub__(model)') and isinstance(res, dimod.QuadraticModel):
                            hcall = 'addpromote'
                        lines.append('hcall ' + hcall); ctx.tick('heap model: ' + hcall.split()[0])
                        expect.append(f'ok data={int(handle(res) is handle(m))} variables={int(res.variables is m.variables)} receiver_unchanged=1')
                        meta.append(site)
                if env is not None and 'res' in env and kind == 'cqm' and isinstance(env['res'], dimod.ConstrainedQuadraticModel):
                    m, res = env['m'], env['res']
                    hop = ('deepcopy' if name in ('copy()', 'copy.deepcopy') else 'fixvariablescopy' if name.startswith('fix_variables(') else 'inplacefalse')
                    lines.append('hcqm ' + hop); ctx.tick('heap model: cqm ' + hop)
                    expect.append(f'ok variables={int(res.variables is m.variables)} clabels={int(res.constraint_labels is m.constraint_labels)} shared=0 receiver_unchanged={int(env["after"] == env["before"])}')
                    meta.append(site)
        for kind, gen in (('bqm', gen_bqm), ('qm', gen_qm), ('cqm', gen_cqm), ('cqm', gen_cqm)):
            rsrc, rvs, rvt = gen(r)
            for _ in range(2):
                check_reads(ctx, r, kind, rsrc, rvs, rvt if kind == 'cqm' else None)
        rsrc, rlabels, _ = gen_ss(r, 'm')
        check_reads(ctx, r, 'ss', rsrc, rlabels)
        check_views(ctx, r, lines, expect, meta)
        check_add_to_cqm(ctx, r, lines, expect, meta)
        check_variables(ctx, r)
        check_discrete_overlap(ctx)
        src, labels, vt = gen_ss(r)
        m = int(src.split('.reshape(')[1].split(',')[0])
        for site, code, op, plain in ss_calls(r, labels, vt, m):
            env = check_call(ctx, r, 'ss', site, src, code, 'ss', plain, lambda rr, target, labels=labels: ss_edits(rr, target, labels), nscripts)
            if env is not None and op is not None and 'res' in env:
                ln, obs, rows = ss_alias_line(env, op)
                lines.append(ln); expect.append((obs, rows)); meta.append(site)
        # the same calls on a receiver that is still pending (from_future, not done) when the call is made
        PEND = ' (receiver pending at call time)'
        psrc = src.replace('ss = ', 'base = ', 1) + '\nss = dimod.SampleSet.from_future(LateFuture(base))'
        for site, code, op, plain in ss_calls(r, labels, vt, m):
            env = check_call(ctx, r, 'ss', site, psrc, code, 'ss', plain, lambda rr, target, labels=labels: ss_edits(rr, target, labels), nscripts,
                             before_recv='base', suffix=PEND)
            if env is not None and op is not None and 'res' in env:
                ln, obs, rows = ss_alias_line(env, op)
                lines.append(ln); expect.append((obs, rows)); meta.append(site)
        for site, code, env, names in check_multi_ss(ctx, r, nscripts):
            if env is not None and 'res' in env and site.startswith('dimod.concatenate(several'):
                res = env['res']
                order = names if 'reversed' not in site else list(reversed(names))
                first = env[order[0]]
                spec = ';'.join(f"{len(env[nm])}:{int(env[nm].vartype is not first.vartype)}:{int(list(env[nm].variables) != list(first.variables))}" for nm in order[1:])
                lines.append(f'concatin {len(first)} {spec}')
                shared = int(any(np.shares_memory(res.record, env[nm].record) for nm in names))
                expect.append((f'ok shared={shared} inputs_unchanged=1', None)); meta.append(site)
        if len([f for f in ctx.failures if f['kind'] == 'property']) >= 25:
            break
    missing = [n for n in FWD_USED if n not in forwarding_names()]
    if missing:
        ctx.fail('correspondence', 'forwarding_method list', 'BinaryQuadraticModel', f'{missing} are no longer @forwarding_method: the cache model routes `fwd` do not describe them')
    for _ in range(ctx.scale(200, 3000)):
        check_pycache(ctx, r, lines, expect, meta)
    got = run_driver('storedriver', lines)
    ctx.corr_lines += len(lines)
    failed_sites = {f['site'] for f in ctx.failures if f['kind'] == 'property'}
    for i, ln in enumerate(lines):
        g = got[i] if i < len(got) else 'MISSING'
        e = expect[i]
        if isinstance(e, tuple):
            obs, rows = e
            gm, _, grows = g.partition(' rows=')
            ok = gm == obs and (rows is None or grows == (rows or '-'))
            e = obs + ' rows=' + (rows or '-' if rows is not None else '?')
        else:
            ok = g == e
        if not ok:
            if meta[i] in failed_sites:
                continue        # the model is the repaired code; the property failure above is the finding
            ctx.fail('correspondence', 'aliasing vs Store model', meta[i], f'line {i} `{ln}`: impl `{e}` model `{g}`')
            break
