"""C04 — any edit history leaves a BQM/QM holding exactly the edited polynomial.

Per operation of a random history, on live objects (BQM float64 / float32 / object dtype and their
`.spin` / `.binary` views — fresh and stale —, QuadraticModel float64 / float32):

(i)   correspondence: canonical full state of the real object == state of the Lean model (`bqmdriver`,
      `qmdriver`) after the same line; same accept/raise outcome;
(ii)  property predicate: the real object == an independent plain-Python polynomial (`RefB`, `RefQ`: dicts
      of exact Fractions) after the same *algebraic* step (an op through a view = convert, edit, convert back);
      a single-term call that raised left the state unchanged; bulk adders are folds (D34: reported per call
      site as a finding, atomicity is not demanded);
(iii) read paths: linear / quadratic / adj / get_* / iter_* / degree / num_interactions / shape /
      to_numpy_vectors / is_linear / energies all describe the state of (ii);
(iv)  back-ends: the three BQM back-ends get the same histories (the object back-end is compared up to
      variable order, which C04 does not promise for it).
"""
import itertools
from fractions import Fraction as F

import numpy as np

import dimod
from dimod import BinaryQuadraticModel as BQM, QuadraticModel as QM, Vartype
from harness.common import lab, rat, run_driver

LABELS = [0, 1, 2, 3, 5, 'a', 'b', 'c', ('a', 1), ('t', (1, 2))]
OTHER = {'SPIN': 'BINARY', 'BINARY': 'SPIN'}
DT = {'f64': np.float64, 'f32': np.float32, 'obj': object}
MANT = {'f64': 44, 'f32': 19, 'obj': 44}     # mantissa bits a value may use before the history is cut


def q8(r, lim=16):
    return F(r.randint(-lim, lim), 8)


def fl(x):
    return float(x)


def fits(x, bits):
    x = F(x)
    n = abs(x.numerator)
    d = x.denominator
    if d & (d - 1):
        return False
    while n and n % 2 == 0:
        n //= 2
    return n < (1 << bits) and d <= (1 << 40) and abs(x) < (1 << 40)


def pkey(u, v):
    return frozenset((u, v))


_lab = lab


def lab(l):  # noqa: F811 - labels outside the protocol alphabet (stored by a defective call) still get a text
    try:
        return _lab(l)
    except TypeError:
        return '?:' + repr(l)


# ---------------------------------------------------------------- the plain polynomial (property predicate)

class RefB:
    """a spin- or binary-valued polynomial as dicts of exact fractions; `labels` is the list order"""

    def __init__(s, vt):
        s.vt, s.labels, s.lin, s.quad, s.off = vt, [], {}, {}, F(0)

    def copy(s):
        c = RefB(s.vt)
        c.labels, c.lin, c.quad, c.off = list(s.labels), dict(s.lin), dict(s.quad), s.off
        return c

    def same(s, o):
        return (s.vt, s.labels, s.lin, s.quad, s.off) == (o.vt, o.labels, o.lin, o.quad, o.off)

    def nbrs(s, v):
        return [(next(iter(k - {v})), b) for k, b in s.quad.items() if v in k]

    def convert(s, vt):
        """exact change of variables s = 2x - 1"""
        if vt == s.vt:
            return s.copy()
        c = RefB(vt)
        c.labels = list(s.labels)
        if vt == 'BINARY':
            c.lin = {v: 2 * s.lin[v] - 2 * sum(b for _, b in s.nbrs(v)) for v in s.labels}
            c.quad = {k: 4 * b for k, b in s.quad.items()}
            c.off = s.off - sum(s.lin.values()) + sum(s.quad.values())
        else:
            c.lin = {v: s.lin[v] / 2 + sum(b for _, b in s.nbrs(v)) / 4 for v in s.labels}
            c.quad = {k: b / 4 for k, b in s.quad.items()}
            c.off = s.off + sum(s.lin.values()) / 2 + sum(s.quad.values()) / 4
        return c

    # -- algebraic steps; return False when the step is undefined (the call must raise, nothing changes)
    def ensure(s, v):
        if v not in s.lin:
            s.labels.append(v); s.lin[v] = F(0)

    def auto(s):
        n = len(s.labels)
        if n in s.lin:
            n = 0
            while n in s.lin:
                n += 1
        return n

    def add_linear(s, v, b):
        s.ensure(v); s.lin[v] += b; return True

    def set_linear(s, v, b):
        s.ensure(v); s.lin[v] = b; return True

    def add_quadratic(s, u, v, b):
        if u == v:
            return False
        s.ensure(u); s.ensure(v)
        s.quad[pkey(u, v)] = s.quad.get(pkey(u, v), F(0)) + b; return True

    def set_quadratic(s, u, v, b):
        if u == v:
            return False
        s.ensure(u); s.ensure(v)
        s.quad[pkey(u, v)] = b; return True

    def remove_interaction(s, u, v):
        if u == v or pkey(u, v) not in s.quad:
            return False
        del s.quad[pkey(u, v)]; return True

    def remove_variable(s, v=None):
        if v is None:
            if not s.labels:
                return False
            v = s.labels[-1]
        if v not in s.lin:
            return False
        s.labels.remove(v); del s.lin[v]
        s.quad = {k: b for k, b in s.quad.items() if v not in k}
        return True

    def add_variable(s, v, b):
        if v is None:
            v = s.auto()
        return s.add_linear(v, b)

    def resize(s, k):
        if k < 0:
            return False
        while len(s.labels) < k:
            s.add_variable(None, F(0))
        while len(s.labels) > k:
            s.remove_variable()
        return True

    def scale(s, x):
        s.lin = {v: b * x for v, b in s.lin.items()}
        s.quad = {k: b * x for k, b in s.quad.items()}
        s.off *= x; return True

    def set_offset(s, b):
        s.off = b; return True

    def fix_variable(s, v, a):
        if v not in s.lin:
            return False
        for w, b in s.nbrs(v):
            s.lin[w] += a * b
        s.off += a * s.lin[v]
        return s.remove_variable(v)

    def contract(s, u, v):
        if u not in s.lin or v not in s.lin or u == v:
            return False
        s.lin[u] += s.lin[v]
        q = s.quad.pop(pkey(u, v), F(0))
        if s.vt == 'BINARY':
            s.lin[u] += q
        else:
            s.off += q
        for w, b in s.nbrs(v):
            s.quad[pkey(u, w)] = s.quad.get(pkey(u, w), F(0)) + b
        return s.remove_variable(v)

    def flip(s, v):
        if v not in s.lin:
            return False
        if s.vt == 'SPIN':
            for k in s.quad:
                if v in k:
                    s.quad[k] = -s.quad[k]
            s.lin[v] = -s.lin[v]
        else:
            for w, b in s.nbrs(v):
                s.quad[pkey(v, w)] = -b
                s.lin[w] += b
            s.off += s.lin[v]
            s.lin[v] = -s.lin[v]
        return True

    def relabel(s, m):
        news = list(m.values())
        if len(set(news)) < len(news):
            return False
        for new in news:
            if new in s.lin and new not in m:
                return False
        f = lambda x: m.get(x, x)
        s.labels = [f(x) for x in s.labels]
        s.lin = {f(v): b for v, b in s.lin.items()}
        s.quad = {frozenset(f(x) for x in k): b for k, b in s.quad.items()}
        return True

    def relabel_ints(s):
        return s.relabel({v: i for i, v in enumerate(s.labels) if v != i}) if True else None

    def clear(s):
        s.labels, s.lin, s.quad, s.off = [], {}, {}, F(0); return True

    def update(s, o):
        o = o.convert(s.vt)
        for v in o.labels:
            s.add_linear(v, o.lin[v])
        for k, b in o.quad.items():
            u, v = tuple(k)
            s.add_quadratic(u, v, b)
        s.off += o.off
        return True

    def energy(s, x):
        e = s.off + sum(b * x[v] for v, b in s.lin.items())
        for k, b in s.quad.items():
            u, v = tuple(k)
            e += b * x[u] * x[v]
        return e

    # canonical text, list order
    def text(s):
        idx = {v: i for i, v in enumerate(s.labels)}
        qs = []
        for ui, u in enumerate(s.labels):
            for vi in range(ui):
                k = pkey(u, s.labels[vi])
                if k in s.quad:
                    qs.append(f'{ui}:{vi}:{rat(s.quad[k])}')
        return ';'.join([s.vt, ','.join(lab(v) for v in s.labels), ','.join(rat(s.lin[v]) for v in s.labels),
                         ','.join(qs), rat(s.off)])

    def unordered(s):
        return (s.vt, frozenset(lab(v) for v in s.labels), frozenset((lab(v), b) for v, b in s.lin.items()),
                frozenset((frozenset(lab(x) for x in k), b) for k, b in s.quad.items()), s.off)

    def literal(s):
        t = s.text().split(';')
        return ' '.join(x if x else '-' for x in t)

    def values(s):
        return list(s.lin.values()) + list(s.quad.values()) + [s.off]


def parse_state(line):
    """model state text -> unordered form"""
    vt, ls, lin, qs, off = line.split(';')
    ls = ls.split(',') if ls else []
    lin = [F(x) for x in lin.split(',')] if lin else []
    quad = set()
    for t in (qs.split(',') if qs else []):
        u, v, b = t.split(':')
        quad.add((frozenset((ls[int(u)], ls[int(v)])), F(b)))
    return (vt, frozenset(ls), frozenset(zip(ls, lin)), frozenset(quad), F(off))


# ---------------------------------------------------------------- reading the real object

def fr(x):
    return F(float(x))


def state_of(b):
    """primary read path: variables, get_linear, iter_quadratic, offset, vartype"""
    labels = list(b.variables)
    idx = {v: i for i, v in enumerate(labels)}
    qs = []
    for u, v, x in b.iter_quadratic():
        qs.append((idx[u], idx[v], fr(x)))
    return b.vartype.name, labels, [fr(b.get_linear(v)) for v in labels], qs, fr(b.offset)


def text_of(st):
    vt, labels, lin, qs, off = st
    return ';'.join([vt, ','.join(lab(v) for v in labels), ','.join(rat(x) for x in lin),
                     ','.join(f'{u}:{v}:{rat(x)}' for u, v, x in qs), rat(off)])


def unordered_of(st):
    vt, labels, lin, qs, off = st
    return (vt, frozenset(lab(v) for v in labels), frozenset((lab(v), x) for v, x in zip(labels, lin)),
            frozenset((frozenset((lab(labels[u]), lab(labels[v]))), x) for u, v, x in qs), off)


def check_reads(b, ref, ordered, r):
    """(iii) every read path against the reference polynomial `ref` (already in b's vartype).
    Returns None or a description of the first inconsistent path."""
    L = list(b.variables)
    if ordered and L != ref.labels:
        return f'variables {L!r} != {ref.labels!r}'
    if sorted(map(lab, L)) != sorted(map(lab, ref.labels)):
        return f'variables {L!r} vs {ref.labels!r}'
    n, m = len(ref.labels), len(ref.quad)
    if (len(b), b.num_variables, b.num_interactions, b.shape) != (n, n, m, (n, m)):
        return f'len/num_variables/num_interactions/shape = {(len(b), b.num_variables, b.num_interactions, b.shape)} expected {(n, n, m)}'
    if b.is_linear() != (m == 0):
        return f'is_linear() = {b.is_linear()} with {m} interactions'
    if fr(b.offset) != ref.off or b.vartype.name != ref.vt:
        return f'offset/vartype {b.offset} {b.vartype}'
    lin = {v: fr(x) for v, x in b.linear.items()}
    if lin != ref.lin or {v: fr(x) for v, x in b.iter_linear()} != ref.lin or len(b.linear) != n:
        return f'linear view {lin} != {ref.lin}'
    for v in L:
        if fr(b.get_linear(v)) != ref.lin[v] or fr(b.linear[v]) != ref.lin[v] or not b.has_variable(v) or v not in b.variables:
            return f'get_linear({v!r})'
        nb = dict(ref.nbrs(v))
        got = [(u, fr(x)) for u, x in b.iter_neighborhood(v)]
        if dict(got) != nb or len(got) != len(nb):
            return f'iter_neighborhood({v!r}) = {got} expected {nb}'
        if b.degree(v) != len(nb) or len(b.adj[v]) != len(nb):
            return f'degree({v!r}) = {b.degree(v)} / len(adj) = {len(b.adj[v])}, expected {len(nb)}'
        if {u: fr(x) for u, x in b.adj[v].items()} != nb:
            return f'adj[{v!r}]'
        if ordered:
            ids = [L.index(u) for u, _ in got]
            if ids != sorted(ids):
                return f'neighbourhood of {v!r} not in index order: {ids}'
    if b.degrees() != {v: len(ref.nbrs(v)) for v in L}:
        return 'degrees()'
    seen = {}
    for u, v, x in b.iter_quadratic():
        if pkey(u, v) in seen or u == v:
            return f'iter_quadratic repeats or self-loops {(u, v)}'
        seen[pkey(u, v)] = fr(x)
    if seen != ref.quad:
        return f'iter_quadratic {seen} != {ref.quad}'
    qv = {pkey(*k): fr(x) for k, x in b.quadratic.items()}
    if qv != ref.quad or len(b.quadratic) != m:
        return 'quadratic view'
    for u, v in itertools.combinations(L, 2):
        k = pkey(u, v)
        for a, c in ((u, v), (v, u)):
            if k in ref.quad:
                if fr(b.get_quadratic(a, c)) != ref.quad[k] or fr(b.quadratic[(a, c)]) != ref.quad[k] or fr(b.adj[a][c]) != ref.quad[k]:
                    return f'get_quadratic({a!r},{c!r})'
            else:
                try:
                    b.get_quadratic(a, c)
                    return f'get_quadratic({a!r},{c!r}) returned for a missing interaction'
                except ValueError:
                    pass
                if b.get_quadratic(a, c, default=7) != 7:
                    return f'get_quadratic default ({a!r},{c!r})'
    # vectors
    try:
        ld, (ir, ic, qd), off, labels = b.to_numpy_vectors(variable_order=list(L), return_labels=True)
    except Exception as e:  # noqa
        return f'to_numpy_vectors raised {type(e).__name__}: {e}'
    if list(labels) != L or [fr(x) for x in ld] != [ref.lin[v] for v in L] or fr(off) != ref.off:
        return 'to_numpy_vectors linear/offset/labels'
    vq = {}
    for i, j, x in zip(ir, ic, qd):
        if pkey(L[i], L[j]) in vq:
            return 'to_numpy_vectors repeats a pair'
        vq[pkey(L[i], L[j])] = fr(x)
    if vq != ref.quad:
        return f'to_numpy_vectors quadratic {vq} != {ref.quad}'
    # the same vectors without an explicit order (range labels: the index order is used as it is; otherwise the labels are
    # sorted when they can be), with sorted indices
    for kw in ({}, {'sort_indices': True}, {'sort_labels': False}):
        try:
            ld, (ir, ic, qd), off, labels = b.to_numpy_vectors(return_labels=True, **kw)
        except Exception as e:  # noqa
            return f'to_numpy_vectors({kw}) raised {type(e).__name__}: {e}'
        labels = list(labels)
        if sorted(map(lab, labels)) != sorted(map(lab, L)) or [fr(x) for x in ld] != [ref.lin[v] for v in labels] or fr(off) != ref.off:
            return f'to_numpy_vectors({kw}) linear/offset/labels'
        vq = {}
        for i, j, x in zip(ir, ic, qd):
            if pkey(labels[i], labels[j]) in vq or i == j:
                return f'to_numpy_vectors({kw}) repeats a pair or lists a self-loop'
            vq[pkey(labels[i], labels[j])] = fr(x)
        if vq != ref.quad:
            return f'to_numpy_vectors({kw}) quadratic {vq} != {ref.quad}'
        if kw.get('sort_indices') and list(zip(map(int, ir), map(int, ic))) != sorted(zip(map(int, ir), map(int, ic))):
            return 'to_numpy_vectors(sort_indices=True) indices not sorted'
    # energy of one sample (all paths describe the same function)
    if n:
        vals = [-1, 1] if ref.vt == 'SPIN' else [0, 1]
        x = {v: r.choice(vals) for v in L}
        e = b.energy(x)
        if fr(e) != ref.energy(x):
            return f'energy({x}) = {e} expected {ref.energy(x)}'
    return None


PYB_PRIMS = ('al', 'sl', 'aq', 'sq', 'ri', 'rv', 'av', 'rs', 'of', 'cv', 'cl')


def pyb_text(b):
    """the dict-of-dicts of the object back-end (`pyBQM._adj`) in dict order, in the text form of the driver's `p` lines;
    None when a label is outside the protocol alphabet"""
    data = b.data
    try:
        rows = ';'.join(_lab(u) + '>' + '&'.join(f'{_lab(k)}={rat(fr(x))}' for k, x in nu.items()) for u, nu in data._adj.items())
        return f'{b.vartype.name};{rat(fr(data.offset))};{rows}'
    except (TypeError, ValueError, OverflowError):
        return None


def readers_text(b):
    """every reader of the real model, in the text form of the driver's `rd` (array back-ends: index order)"""
    L = list(b.variables)
    def opt(f):
        try:
            return rat(fr(f()))
        except (ValueError, KeyError):
            return '-'
    ld, (ir, ic, qd), off = b.to_numpy_vectors(variable_order=list(L))
    parts = [f'{b.shape[0]},{b.shape[1]}', 'T' if b.is_linear() else 'F',
             ','.join(str(b.degree(v)) for v in L),
             ','.join(f'{lab(v)}={rat(fr(x))}' for v, x in b.iter_linear()),
             ','.join(opt(lambda v=v: b.linear[v]) for v in L),
             ','.join(f'{lab(u)}~{lab(v)}~{rat(fr(x))}' for u, v, x in b.iter_quadratic()),
             ';'.join('&'.join(f'{lab(u)}={rat(fr(x))}' for u, x in b.adj[v].items()) for v in L),
             ','.join(opt(lambda a=a, c=c: b.adj[a][c]) if a != c else opt(lambda a=a: b.get_quadratic(a, a)) for a in L for c in L),
             ','.join(rat(fr(x)) for x in ld) + ';' + ','.join(f'{int(i)}:{int(j)}:{rat(fr(x))}' for i, j, x in zip(ir, ic, qd)) + ';' + rat(fr(off))]
    return '|'.join(parts)


# ---------------------------------------------------------------- operations

class Unhashable(list):
    def __repr__(self):
        return '[1]'


BAD_LABELS = [None, Unhashable([1])]
BAD_BIAS = ['x', None]


CONTAINERS = ('list', 'set', 'tuple', 'gen', 'iter', 'map', 'frozenset', 'dictkeys')


def as_container(kind, items):
    """the ignored terms as the caller may pass them; `gen` / `iter` / `map` are one-shot iterators"""
    items = list(items)
    if kind == 'list': return list(items)
    if kind == 'set': return set(items)
    if kind == 'tuple': return tuple(items)
    if kind == 'frozenset': return frozenset(items)
    if kind == 'dictkeys': return dict.fromkeys(items).keys()
    if kind == 'gen': return (x for x in items)
    if kind == 'iter': return iter(items)
    if kind == 'map': return map(lambda x: x, items)
    raise AssertionError(kind)


def container_src(kind, items):
    items = list(items)
    return {'list': f'{items!r}', 'set': f'set({items!r})', 'tuple': f'tuple({items!r})', 'frozenset': f'frozenset({items!r})',
            'dictkeys': f'dict.fromkeys({items!r}).keys()', 'gen': f'(x for x in {items!r})', 'iter': f'iter({items!r})',
            'map': f'map(lambda x: x, {items!r})'}[kind]


def gen_ignored_op(r, P, k):
    """`scale` / `normalize` with ignored variables / interactions / offset.  The ignored terms come in random order, the
    pairs in random orientation, sometimes with a label / pair the model does not have, in a random kind of container
    (a one-shot iterator must be materialised by the callee: it is searched once per term)."""
    L = list(P.labels)
    iv = r.sample(L, r.randint(0, min(3, len(L)))) if r.random() < .8 else None
    if iv is not None and r.random() < .2:
        iv.append(r.choice(LABELS + ['zz']))
    pairs = [tuple(kk) for kk in P.quad]
    ii = r.sample(pairs, r.randint(0, min(3, len(pairs)))) if r.random() < .8 else None
    if ii is not None:
        ii = [(b, a) if r.random() < .5 else (a, b) for a, b in ii]
        if r.random() < .2 and len(L) >= 2:
            ii.append(tuple(r.sample(L, 2)))
        r.shuffle(ii)
    if iv is not None:
        r.shuffle(iv)
    io = r.random() < .4
    cv, ci = r.choice(CONTAINERS), r.choice(CONTAINERS)
    if k == 'sci':
        return ('sci', r.choice([F(2), F(-2), F(1, 2), F(-1, 4), F(3), F(0)]), iv, ii, io, cv, ci)
    # normalize: ranges chosen so that the scale factor is a power of two (the extreme non-ignored bias times 2^j)
    ivs = set(iv or ())
    iis = {pkey(a, b) for a, b in (ii or ())}
    ml = max([abs(x) for v, x in P.lin.items() if v not in ivs] or [F(0)])
    mq = max([abs(x) for kk, x in P.quad.items() if kk not in iis] or [F(0)])
    def rng(mx, both):
        base = (mx if mx != 0 else F(1)) * F(2) ** r.randint(-2, 2)
        if not both or r.random() < .5:
            return base
        return (-base * F(2) ** r.randint(0, 2), base * F(2) ** r.randint(0, 2))
    mode = r.random()
    if mode < .45:
        br, qr = rng(max(ml, mq), True), None
    elif mode < .9:
        br, qr = rng(ml, True), rng(mq, True)
    else:
        br, qr = r.choice([F(1), F(2), F(1, 2), (F(-1), F(2))]), r.choice([None, F(1), F(4)])
    return ('nz', br, qr, iv, ii, io, cv, ci)


RANGE_OPS = ['al', 'sl', 'aq', 'aq', 'aq', 'aq', 'sq', 'sq', 'ri', 'ri', 'rv', 'av', 'rs', 'sc', 'of', 'cv', 'fx', 'ct', 'fl', 'rli',
             'up', 'alf', 'aqf', 'ala', 'aqd', 'aqd', 'aqd', 'aqd', 'aqd', 'aqd', 'sci', 'nz', 'ao', 'ai', 'fxs', 'rif', 'rvf', 'lec', 'lic']
WRAPPER_OPS = ('ao', 'ai', 'fxs', 'rif', 'rvf', 'lec', 'lic')


def gen_op(r, ref, malformed, obj=False, rmode=False):
    """returns (kind, args) in canonical Python values; biases are Fractions.
    `rmode`: the history keeps the model RANGE-labelled (labels 0..n-1 in order) as far as the op allows - new labels are the
    next integer, removals prefer the last variable -, which is the precondition of the index-level fast paths of the array
    back-ends (`add_quadratic_from_dense`, `add_linear_from_array`, `to_numpy_vectors` without reindexing)"""
    L = ref.labels
    if rmode and not malformed:
        nxt = len(L) if is_range(L) else max([x for x in L if isinstance(x, int)] + [-1]) + 1
        def anyl():
            return r.choice(L + [nxt, nxt]) if r.random() < .9 else r.choice(LABELS)
        def inl():
            return r.choice(L) if L and r.random() < .85 else anyl()
        k = r.choice(RANGE_OPS)
        if k in ('rv', 'fx') and L and r.random() < .7:
            return (k, L[-1]) if k == 'rv' else (k, L[-1], F(r.choice([-1, 0, 1, 1, 2, 3]), r.choice([1, 1, 2])))
        if k == 'av' and r.random() < .6:
            return (k, r.choice([None, nxt]), q8(r))
        if k == 'ct' and len(L) >= 2 and r.random() < .6:
            return (k, r.choice(L[:-1]), L[-1])       # the last variable is removed: the labels stay a range
    else:
        def anyl():
            return r.choice(LABELS)
        def inl():
            return r.choice(L) if L and r.random() < .85 else anyl()
        k = r.choice(['al', 'al', 'sl', 'aq', 'aq', 'aq', 'sq', 'sq', 'ri', 'rv', 'av', 'rs', 'sc', 'of', 'cv', 'fx', 'ct', 'fl',
                      'rl', 'rl', 'rli', 'cl', 'up', 'alf', 'aqf', 'ala', 'aqd', 'sci', 'sci', 'nz', 'nz',
                      'ao', 'ai', 'fxs', 'rif', 'rvf', 'lec', 'lec', 'lic'])
    if k in ('sci', 'nz') and not malformed:
        return gen_ignored_op(r, ref, k)
    if malformed:
        k = r.choice(['al', 'sl', 'aq', 'sq', 'ri', 'rv', 'fx', 'ct', 'fl', 'rs', 'rl', 'alf', 'aqf'])
        bl, bb = r.choice(BAD_LABELS), r.choice(BAD_BIAS)
        if obj:   # an object-dtype model stores any object as a bias; only an addition with None must fail
            bb = None if k in ('al', 'aq') else q8(r)
        if k in ('al', 'sl'):
            return r.choice([(k, bl, q8(r)), (k, anyl(), bb)])
        if k in ('aq', 'sq'):
            u, w = anyl(), anyl()
            return r.choice([(k, u, bl, q8(r)), (k, bl, u, q8(r)), (k, u, u, q8(r))] + ([(k, u, w, bb)] if u != w else []))
        if k == 'ri':
            return r.choice([(k, inl(), 'nope'), (k, 'nope', inl()), (k, inl(), bl)] + ([(k, L[0], L[0])] if L else []))
        if k == 'rv':
            return (k, r.choice(['nope', Unhashable([1])]))
        if k == 'fx':
            return (k, 'nope', q8(r))
        if k == 'ct':
            u = inl()
            return r.choice([(k, u, u), (k, u, 'nope'), (k, 'nope', u)])
        if k == 'fl':
            return (k, 'nope')
        if k == 'rs':
            return (k, -r.randint(1, 3))
        if k == 'rl':
            if len(L) >= 2:
                a, b2 = r.sample(L, 2)
                return r.choice([(k, {a: b2}), (k, {a: 'z', b2: 'z'}), (k, {a: Unhashable([1])}), (k, {'nope': 'q'}), (k, {a: 'y', 'nope': 'q'})])
            return (k, {'nope': 'q'})
        if k == 'alf':
            return (k, [(anyl(), q8(r)), (bl, q8(r)), (anyl(), q8(r))])
        if k == 'aqf':
            u = anyl()
            return (k, [(anyl(), 'zz', q8(r)), r.choice([(u, u, q8(r)), (u, bl, q8(r))]), (anyl(), 'zq', q8(r))])
    if k == 'ao':
        return (k, q8(r, 40))
    if k == 'ai':
        u, v = inl(), inl()
        while v == u:
            v = anyl()
        return (k, u, v, q8(r))
    if k == 'fxs':
        vs = r.sample(L, r.randint(0, min(3, len(L)))) if L else []
        return (k, [(v, F(r.choice([-1, 0, 1, 1, 2]))) for v in vs], r.choice(['dict', 'pairs', 'iter']))
    if k == 'rif':
        ks = sorted(ref.quad, key=lambda s: sorted(map(lab, s)))
        ps = [tuple(kk) if r.random() < .5 else tuple(kk)[::-1] for kk in r.sample(ks, r.randint(0, min(3, len(ks))))]
        return (k, ps, r.choice(['list', 'iter']))
    if k == 'rvf':
        vs = r.sample(L, r.randint(0, min(3, len(L)))) if L else []
        return (k, vs, r.choice(['list', 'iter']))
    if k in ('lec', 'lic'):
        # terms on old and new labels, a label may appear in several terms (the array back-end folds the square of a variable
        # natively); small integer / half-integer coefficients keep every float32 intermediate exact
        terms = [(inl(), F(r.choice([-2, -1, 1, 1, 2, 3]) if k == 'lic' else r.choice([-4, -2, -1, 1, 2, 2, 4, 6]), 1 if k == 'lic' else 2)) for _ in range(r.randint(0, 4))]
        if terms and r.random() < .3:
            terms.append((terms[0][0], terms[-1][1] if r.random() < .5 else -terms[0][1]))
        lm = F(r.choice([-1, 1, 1, 2, 4, 1]), r.choice([1, 1, 2]))
        if k == 'lec':
            return (k, terms, lm, F(r.choice([-4, -2, -1, 0, 1, 2, 3]), 2), r.choice(['list', 'iter']))
        lo = r.randint(-3, 2)
        return (k, terms, lm, r.choice(['c', 'k1', 7]), r.randint(-1, 1), lo, lo + r.choice([0, 0, 1, 2, 3, 5]), r.choice(['list', 'iter']))
    if k in ('al', 'sl'):
        return (k, inl(), q8(r))
    if k in ('aq', 'sq'):
        if ref.quad and r.random() < .25:
            # an edit that leaves an interaction in the model with bias exactly 0 (the interaction still exists: it is
            # listed by quadratic / adj / degree): a cancelling add, from either side, or an explicit set to 0
            kk = r.choice(sorted(ref.quad, key=lambda s: sorted(map(lab, s))))
            u, v = tuple(kk) if r.random() < .5 else tuple(kk)[::-1]
            return (k, u, v, F(-ref.quad[kk]) if k == 'aq' else F(0))   # F(): the reference may hold an (exact) float
        u, v = inl(), inl()
        while v == u:
            v = anyl()
        return (k, u, v, q8(r))
    if k == 'ri':
        if ref.quad and r.random() < .8:
            u, v = tuple(r.choice(sorted(ref.quad, key=lambda s: sorted(map(lab, s)))))
            return (k, u, v) if r.random() < .5 else (k, v, u)
        return (k, inl(), inl())
    if k == 'rv':
        return (k, None if r.random() < .4 else inl())
    if k == 'av':
        return (k, None if r.random() < .4 else anyl(), q8(r))
    if k == 'rs':
        return (k, r.randint(0, 7))
    if k == 'sc':
        return (k, F(r.choice([-2, -1, -1, 2, 2, 4, 1, 0, 3, 5, 7]), r.choice([1, 2, 4, 4])))
    if k == 'of':
        return (k, q8(r, 40))
    if k == 'cv':
        return (k, r.choice(['SPIN', 'BINARY']))
    if k == 'fx':
        return (k, inl(), F(r.choice([-1, 0, 1, 1, 2, 3]), r.choice([1, 1, 2])))
    if k == 'ct':
        # half of the contractions are of two variables that interact; an interaction whose bias an earlier edit
        # cancelled to an explicit zero is preferred (state reached through history only)
        if ref.quad and r.random() < .6:
            ks = sorted(ref.quad, key=lambda s: sorted(map(lab, s)))
            zs = [kk for kk in ks if ref.quad[kk] == 0]
            kk = r.choice(zs if zs and r.random() < .7 else ks)
            u, v = tuple(kk)
            return (k, u, v) if r.random() < .5 else (k, v, u)
        return (k, inl(), inl())
    if k == 'fl':
        return (k, inl())
    if k == 'rl':
        if not L:
            return (k, {})
        ks = r.sample(L, r.randint(1, min(3, len(L))))
        mode = r.random()
        if mode < .3 and len(ks) > 1:
            return (k, {ks[i]: ks[(i + 1) % len(ks)] for i in range(len(ks))})
        if mode < .5:
            return (k, {x: r.choice([L.index(x), len(L), r.randrange(len(L) + 1)]) for x in ks})
        return (k, {x: r.choice(LABELS + ['z', 9]) for x in ks})
    if k in ('rli', 'cl'):
        return (k,)
    if k == 'up':
        o = RefB(r.choice(['SPIN', 'BINARY']))
        for _ in range(r.randint(0, 4)):
            o.add_linear(anyl(), q8(r))
        for _ in range(r.randint(0, 3)):
            u, v = anyl(), anyl()
            if u != v:
                o.add_quadratic(u, v, q8(r))
        o.off = q8(r)
        return (k, 'self' if r.random() < .1 else o)
    if k == 'alf':
        return (k, [(anyl(), q8(r)) for _ in range(r.randint(0, 4))])
    if k == 'aqf':
        out = []
        for _ in range(r.randint(0, 4)):
            u, v = anyl(), anyl()
            if u != v:
                out.append((u, v, q8(r)))
        return (k, out)
    if k == 'ala':
        return (k, [q8(r) for _ in range(r.randint(0, 5))])
    if k == 'aqd':
        n = r.randint(0, 4)
        rng_lab = L == list(range(len(L)))
        if rng_lab and r.random() < .5:
            n = len(L) + r.randint(1, 2)          # larger than a range-labelled model: the native model is resized
        elif rng_lab and rmode:
            n = r.choice([len(L), len(L), r.randint(0, len(L))])     # the whole model / its leading block
        dens = r.choice([.6, .6, .25, 1.0]) if rmode else .6
        d = [[q8(r) if (i != j and r.random() < dens) else F(0) for j in range(n)] for i in range(n)]
        if rmode and rng_lab and ref.quad and r.random() < .6:
            # aim at interactions the model already holds (upper entry, lower entry, or split over both) and leave most other
            # pairs alone: whether a term can be appended or has to be merged depends on where the pair sits in both neighbourhoods
            if r.random() < .5:
                d = [[F(0)] * n for _ in range(n)]
            for kk in r.sample(sorted(ref.quad, key=lambda s: sorted(s)), r.randint(1, min(3, len(ref.quad)))):
                i, j = sorted(kk)
                if j < n:
                    x = q8(r) or F(3, 8)
                    d[i][j], d[j][i] = r.choice([(x, F(0)), (F(0), x), (x, x), (x - F(1, 4), F(1, 4)), (-ref.quad[kk], F(0))])
        if n and r.random() < (.4 if rng_lab and n > len(L) else .1):
            # rejected for its diagonal; when the matrix is larger than the model the rejection has to come before the
            # resize (a rejected call leaves the model unchanged): first / last / any row
            d[r.randrange(n)][r.randrange(n)] = q8(r) or F(1, 8)
            i = r.choice([0, n - 1, r.randrange(n)]); d[i][i] = F(1, 2)
        return (k, d)
    raise AssertionError(k)


def olab(l):
    return '-' if l is None else _lab(l)


def blab(l):
    """label of a bulk element: anything unusable stops the fold like None does"""
    try:
        return olab(l)
    except TypeError:
        return '-'


def proto_ok(x):
    try:
        olab(x); return True
    except TypeError:
        return False


def line_of(via, op, ref):
    """protocol line for the Lean model; wrong-typed arguments become the `xx` (malformed) op"""
    k = op[0]
    if k in WRAPPER_OPS:
        return None          # thin wrappers of the Python layer: no model op, the model is re-loaded with the state after
    if k in ('sci', 'nz'):
        # `Bqm.vScaleIgnoring` / `Bqm.vNormalize` (DimodModel/BqmScaleIgn.lean): the ignored containers as lists
        iv, ii, io = op[-5:-2]
        try:
            ivt = 'N' if iv is None else (','.join(_lab(x) for x in iv) or '-')
            iit = 'N' if ii is None else (','.join(f'{_lab(a)}~{_lab(b)}' for a, b in ii) or '-')
        except (TypeError, ValueError):
            return None
        if k == 'sci':
            return f'{via} sci {rat(op[1])} {ivt} {iit} {int(bool(io))}'
        par = lambda rr: rr if isinstance(rr, tuple) else (-abs(rr), abs(rr))
        lr, qr = par(op[1]), par(op[2] if op[2] is not None else op[1])
        return f'{via} nz {rat(lr[0])} {rat(lr[1])} {rat(qr[0])} {rat(qr[1])} {ivt} {iit} {int(bool(io))}'
    def body():
        if k in ('al', 'sl'):
            return f'{k} {olab(op[1])} {rat(op[2])}'
        if k in ('aq', 'sq'):
            return f'{k} {olab(op[1])} {olab(op[2])} {rat(op[3])}'
        if k in ('ri', 'ct'):
            if op[1] is None or op[2] is None:
                raise TypeError
            return f'{k} {_lab(op[1])} {_lab(op[2])}'
        if k == 'rv':
            return f'rv {olab(op[1])}'
        if k == 'av':
            return f'av {olab(op[1])} {rat(op[2])}'
        if k == 'rs':
            return f'rs {op[1]}'
        if k in ('sc', 'of'):
            return f'{k} {rat(op[1])}'
        if k == 'cv':
            return f'cv {op[1]}'
        if k == 'fx':
            return f'fx {_lab(op[1])} {rat(op[2])}'
        if k == 'fl':
            return f'fl {_lab(op[1])}'
        if k == 'rl':
            return 'rl ' + (','.join(f'{_lab(a)}={_lab(b)}' for a, b in op[1].items()) or '-')
        if k in ('rli', 'cl'):
            return k
        if k == 'up':
            o = ref if op[1] == 'self' else op[1]
            return 'up ' + o.literal()
        if k == 'alf':
            return 'alf ' + (','.join(f'{blab(v) if isinstance(b, F) else "-"}={rat(b) if isinstance(b, F) else 0}' for v, b in op[1]) or '-')
        if k == 'aqf':
            return 'aqf ' + (','.join(f'{blab(u)}~{blab(v) if isinstance(b, F) else "-"}~{rat(b) if isinstance(b, F) else 0}' for u, v, b in op[1]) or '-')
        if k == 'ala':
            return 'ala ' + (','.join(rat(x) for x in op[1]) or '-')
        if k == 'aqd':
            # direct calls go, alternately, to the operation of `Bqm.step` (sorted insert everywhere) and to the call AS CODED with
            # its `is_linear()` append branch (`Bqm.addQuadraticFromDenseCoded`, equal by `C04.dense_as_coded_refines`)
            coded = via == 'd' and sum(1 for row in op[1] for x in row if x != 0) % 2 == 0
            return f'{"aqdc" if coded else "aqd"} {len(op[1])} ' + (','.join(rat(x) for row in op[1] for x in row) or '-')
        raise AssertionError(k)
    try:
        return f'{via} {body()}'
    except (TypeError, ValueError):
        return f'{via} xx'


def pyval(x):
    return float(x) if isinstance(x, F) else x


def src_of(name, op, selfname='b'):
    """Python source of the call (for repro scripts)"""
    k = op[0]
    a = [pyval(x) for x in op[1:]]
    if k == 'al': return f'{name}.add_linear({a[0]!r}, {a[1]!r})'
    if k == 'sl': return f'{name}.set_linear({a[0]!r}, {a[1]!r})'
    if k == 'aq': return f'{name}.add_quadratic({a[0]!r}, {a[1]!r}, {a[2]!r})'
    if k == 'sq': return f'{name}.set_quadratic({a[0]!r}, {a[1]!r}, {a[2]!r})'
    if k == 'ri': return f'{name}.remove_interaction({a[0]!r}, {a[1]!r})'
    if k == 'rv': return f'{name}.remove_variable({a[0]!r})' if a[0] is not None else f'{name}.remove_variable()'
    if k == 'av': return f'{name}.add_variable({a[0]!r}, {a[1]!r})'
    if k == 'rs': return f'{name}.resize({a[0]!r})'
    if k == 'sc': return f'{name}.scale({a[0]!r})'
    if k == 'of': return f'{name}.offset = {a[0]!r}'
    if k == 'cv': return f'{name}.change_vartype({a[0]!r})'
    if k == 'fx': return f'{name}.fix_variable({a[0]!r}, {a[1]!r})'
    if k == 'ct': return f'{name}.contract_variables({a[0]!r}, {a[1]!r})'
    if k == 'fl': return f'{name}.flip_variable({a[0]!r})'
    if k == 'rl': return f'{name}.relabel_variables({a[0]!r})'
    if k == 'rli': return f'{name}.relabel_variables_as_integers()'
    if k == 'cl': return f'{name}.clear()'
    if k == 'up':
        if op[1] == 'self':
            return f'{name}.update({selfname})'
        o = op[1]
        return f'{name}.update(mk({o.vt!r}, {[(v, float(o.lin[v])) for v in o.labels]!r}, {[(tuple(kk), float(x)) for kk, x in o.quad.items()]!r}, {float(o.off)!r}, b.dtype))'
    if k in ('sci', 'nz'):
        iv, ii, io, cv, ci = op[-5:]
        kw = ((f', ignored_variables={container_src(cv, iv)}' if iv is not None else '') +
              (f', ignored_interactions={container_src(ci, ii)}' if ii is not None else '') + (', ignore_offset=True' if io else ''))
        rv = lambda x: repr(tuple(map(float, x))) if isinstance(x, tuple) else repr(float(x))
        if k == 'sci':
            return f'{name}.scale({float(op[1])!r}{kw})'
        return f'{name}.normalize({rv(op[1])}' + (f', {rv(op[2])}' if op[2] is not None else '') + kw + ')'
    wrap = lambda how, lit: f'dict({lit})' if how == 'dict' else f'iter({lit})' if how == 'iter' else lit
    if k == 'ao': return f'{name}.add_offset({a[0]!r})'
    if k == 'ai': return f'{name}.add_interaction({a[0]!r}, {a[1]!r}, {a[2]!r})'
    if k == 'fxs': return f'{name}.fix_variables({wrap(op[2], repr([(v, pyval(x)) for v, x in op[1]]))})'
    if k == 'rif': return f'{name}.remove_interactions_from({wrap(op[2], repr(list(op[1])))})'
    if k == 'rvf': return f'{name}.remove_variables_from({wrap(op[2], repr(list(op[1])))})'
    if k == 'lec': return f'{name}.add_linear_equality_constraint({wrap(op[4], repr([(v, pyval(x)) for v, x in op[1]]))}, {float(op[2])!r}, {float(op[3])!r})'
    if k == 'lic': return (f'{name}.add_linear_inequality_constraint({wrap(op[7], repr([(v, int(x)) for v, x in op[1]]))}, {float(op[2])!r}, {op[3]!r}, '
                           f'constant={op[4]!r}, lb={op[5]!r}, ub={op[6]!r})')
    if k == 'alf': return f'{name}.add_linear_from({[(v, pyval(x)) for v, x in op[1]]!r})'
    if k == 'aqf': return f'{name}.add_quadratic_from({[(u, v, pyval(x)) for u, v, x in op[1]]!r})'
    if k == 'ala': return f'{name}.add_linear_from_array({[float(x) for x in op[1]]!r})'
    if k == 'aqd': return f'{name}.add_quadratic_from_dense(np.array({[[float(x) for x in row] for row in op[1]]!r}, dtype=float).reshape({len(op[1])}, {len(op[1])}))'
    raise AssertionError(k)


def mk(vt, lin, quad, off, dtype):
    """another BQM with the variable order of `lin`"""
    o = BQM(vt, dtype=dtype)
    for v, x in lin:
        o.add_linear(v, x)
    for (u, v), x in quad:
        o.add_quadratic(u, v, x)
    o.offset = off
    return o


MK_SRC = '''def mk(vt, lin, quad, off, dtype):
    o = BQM(vt, dtype=dtype)
    for v, x in lin: o.add_linear(v, x)
    for (u, v), x in quad: o.add_quadratic(u, v, x)
    o.offset = off
    return o'''


def apply_real(obj, op, base):
    k = op[0]
    a = [pyval(x) for x in op[1:]]
    if k == 'al': obj.add_linear(a[0], a[1])
    elif k == 'sl': obj.set_linear(a[0], a[1])
    elif k == 'aq': obj.add_quadratic(a[0], a[1], a[2])
    elif k == 'sq': obj.set_quadratic(a[0], a[1], a[2])
    elif k == 'ri': obj.remove_interaction(a[0], a[1])
    elif k == 'rv': obj.remove_variable(a[0]) if a[0] is not None else obj.remove_variable()
    elif k == 'av': obj.add_variable(a[0], a[1])
    elif k == 'rs': obj.resize(a[0])
    elif k == 'sc': obj.scale(a[0])
    elif k in ('sci', 'nz'):
        iv, ii, io, cv, ci = op[-5:]
        kw = dict(ignore_offset=io)
        if iv is not None:
            kw['ignored_variables'] = as_container(cv, iv)
        if ii is not None:
            kw['ignored_interactions'] = as_container(ci, ii)
        fv = lambda x: tuple(map(float, x)) if isinstance(x, tuple) else float(x)
        if k == 'sci':
            obj.scale(float(op[1]), **kw)
        elif op[2] is None:
            obj.normalize(fv(op[1]), **kw)
        else:
            obj.normalize(fv(op[1]), fv(op[2]), **kw)
    elif k == 'of': obj.offset = a[0]
    elif k == 'cv': obj.change_vartype(a[0])
    elif k == 'fx': obj.fix_variable(a[0], a[1])
    elif k == 'ct': obj.contract_variables(a[0], a[1])
    elif k == 'fl': obj.flip_variable(a[0])
    elif k == 'rl': obj.relabel_variables(a[0])
    elif k == 'rli': obj.relabel_variables_as_integers()
    elif k == 'cl': obj.clear()
    elif k == 'up':
        if op[1] == 'self':
            obj.update(base)
        else:
            o = op[1]
            obj.update(mk(o.vt, [(v, float(o.lin[v])) for v in o.labels], [(tuple(kk), float(x)) for kk, x in o.quad.items()], float(o.off), base.dtype))
    elif k in WRAPPER_OPS:
        import warnings
        wrap = lambda how, x: dict(x) if how == 'dict' else iter(x) if how == 'iter' else x
        with warnings.catch_warnings():
            warnings.simplefilter('ignore')
            if k == 'ao': obj.add_offset(a[0])
            elif k == 'ai': obj.add_interaction(a[0], a[1], a[2])
            elif k == 'fxs': obj.fix_variables(wrap(op[2], [(v, pyval(x)) for v, x in op[1]]))
            elif k == 'rif': obj.remove_interactions_from(wrap(op[2], list(op[1])))
            elif k == 'rvf': obj.remove_variables_from(wrap(op[2], list(op[1])))
            elif k == 'lec': obj.add_linear_equality_constraint(wrap(op[4], [(v, pyval(x)) for v, x in op[1]]), float(op[2]), float(op[3]))
            elif k == 'lic':
                got = obj.add_linear_inequality_constraint(wrap(op[7], [(v, int(x)) for v, x in op[1]]), float(op[2]), op[3], constant=op[4], lb=op[5], ub=op[6])
                exp = [(f'slack_{op[3]}_{j}', c) for j, c in enumerate(slack_coefficients(op))]
                if [(v, int(c)) for v, c in got] != exp:
                    raise AssertionError(f'add_linear_inequality_constraint returned the slack terms {got!r}, the documented decomposition is {exp!r}')
    elif k == 'alf': obj.add_linear_from([(v, pyval(x)) for v, x in op[1]])
    elif k == 'aqf': obj.add_quadratic_from([(u, v, pyval(x)) for u, v, x in op[1]])
    elif k == 'ala': obj.add_linear_from_array([float(x) for x in op[1]])
    elif k == 'aqd':
        n = len(op[1])
        obj.add_quadratic_from_dense(np.array([[float(x) for x in row] for row in op[1]], dtype=float).reshape(n, n))
    else:
        raise AssertionError(k)


def slack_coefficients(op):
    """`add_linear_inequality_constraint` as documented: lb <= sum a_i x_i + constant <= ub becomes the equality
    sum a_i x_i + sum b_j slack_j - ub_c = 0 with b = 1, 2, 4, ..., 2**(n-1), S - 2**n + 1 for S = ub_c - lb_c, n = floor(log2 S);
    [] when S = 0 or the constraint holds for every assignment; None when it is infeasible (ValueError)"""
    terms, const, lb, ub = op[1], op[4], op[5], op[6]
    hi = sum(x for _, x in terms if x > 0); lo = sum(x for _, x in terms if x < 0)
    ub_c, lb_c = min(hi, ub - const), max(lo, lb - const)
    if hi <= ub_c and lo >= lb_c:
        return []
    if ub_c < lb_c:
        return None
    S = int(ub_c - lb_c)
    if S == 0:
        return []
    n = S.bit_length() - 1
    return [2 ** j for j in range(n)] + ([S - 2 ** n + 1] if S - 2 ** n >= 0 else [])


def ref_equality(P, terms, lm, c):
    """P += lm * (sum a_i x_i + c) ** 2, expanded exactly: x * x = x (BINARY) or 1 (SPIN); every pair of distinct variables
    named by the terms gets an interaction (also one with bias 0)"""
    A = {}
    for v, a in terms:
        P.ensure(v)
        A[v] = A.get(v, F(0)) + a
    P.off += lm * c * c
    for v, a in A.items():
        if P.vt == 'BINARY':
            P.lin[v] += lm * (a * a + 2 * a * c)
        else:
            P.lin[v] += 2 * lm * a * c
            P.off += lm * a * a
    vs = list(A)
    for i, u in enumerate(vs):
        for v in vs[i + 1:]:
            P.quad[pkey(u, v)] = P.quad.get(pkey(u, v), F(0)) + 2 * lm * A[u] * A[v]
    return True


BULK = ('alf', 'aqf', 'up', 'ala', 'aqd', 'fxs', 'rif', 'rvf')
SITE = {'sci': 'scale(ignored)', 'nz': 'normalize', 'al': 'add_linear', 'sl': 'set_linear', 'aq': 'add_quadratic', 'sq': 'set_quadratic', 'ri': 'remove_interaction',
        'rv': 'remove_variable', 'av': 'add_variable', 'rs': 'resize', 'sc': 'scale', 'of': 'offset.setter',
        'cv': 'change_vartype', 'fx': 'fix_variable', 'ct': 'contract_variables', 'fl': 'flip_variable',
        'rl': 'relabel_variables', 'rli': 'relabel_variables_as_integers', 'cl': 'clear', 'up': 'update',
        'alf': 'add_linear_from', 'aqf': 'add_quadratic_from', 'ala': 'add_linear_from_array', 'aqd': 'add_quadratic_from_dense',
        'ao': 'add_offset', 'ai': 'add_interaction', 'fxs': 'fix_variables', 'rif': 'remove_interactions_from', 'rvf': 'remove_variables_from',
        'lec': 'add_linear_equality_constraint', 'lic': 'add_linear_inequality_constraint'}


def apply_ref(P, op, selfref):
    """algebraic step on the polynomial P (already in the vartype the call is made in).
    Returns (ok, prefix_applied): ok False = the call must raise."""
    k = op[0]
    a = op[1:]
    hashable = lambda x: x is not None and not isinstance(x, Unhashable)
    num = lambda x: isinstance(x, F)
    if k in ('al', 'sl'):
        if not hashable(a[0]) or not num(a[1]): return False
        return P.add_linear(*a) if k == 'al' else P.set_linear(*a)
    if k in ('aq', 'sq'):
        if not hashable(a[0]) or not hashable(a[1]) or not num(a[2]): return False
        return P.add_quadratic(*a) if k == 'aq' else P.set_quadratic(*a)
    if k == 'ri':
        if not hashable(a[0]) or not hashable(a[1]): return False
        return P.remove_interaction(*a)
    if k == 'rv':
        if isinstance(a[0], Unhashable): return False
        return P.remove_variable(a[0])
    if k == 'av': return P.add_variable(*a)
    if k == 'rs': return P.resize(a[0])
    if k == 'sc': return P.scale(a[0])
    if k in ('sci', 'nz'):
        iv, ii, io = op[-5:-2]
        ivs = set(iv or ())
        iis = {pkey(x, y) for x, y in (ii or ())}
        if k == 'sci':
            sc = op[1]
        else:
            par = lambda rr: rr if isinstance(rr, tuple) else (-abs(rr), abs(rr))
            lr, qr = par(op[1]), par(op[2] if op[2] is not None else op[1])
            lv = [x for v, x in P.lin.items() if v not in ivs]
            qv = [x for kk, x in P.quad.items() if kk not in iis]
            lmin, lmax = (min(lv), max(lv)) if lv else (F(0), F(0))
            qmin, qmax = (min(qv), max(qv)) if qv else (F(0), F(0))
            inv = max(lmin / lr[0], lmax / lr[1], qmin / qr[0], qmax / qr[1])
            if inv == 0:
                return True
            sc = 1 / inv
            P.invscalar = inv       # the code computes inv_scalar and then 1 / inv_scalar in floats: both have to be exact
        P.lin = {v: (x if v in ivs else x * sc) for v, x in P.lin.items()}
        P.quad = {kk: (x if kk in iis else x * sc) for kk, x in P.quad.items()}
        if not io:
            P.off *= sc
        P.scalar = sc
        return True
    if k == 'of': return P.set_offset(a[0])
    if k == 'fx': return P.fix_variable(*a)
    if k == 'ct': return P.contract(*a)
    if k == 'fl': return P.flip(a[0])
    if k == 'rl':
        if any(not hashable(x) for x in a[0].values()): return False
        return P.relabel(a[0])
    if k == 'rli': return P.relabel_ints()
    if k == 'cl': return P.clear()
    if k == 'up': return P.update(selfref if a[0] == 'self' else a[0])
    if k == 'alf':
        for v, b in a[0]:
            if not hashable(v) or not num(b): return False
            P.add_linear(v, b)
        return True
    if k == 'aqf':
        for u, v, b in a[0]:
            if not hashable(u) or not hashable(v) or not num(b) or u == v: return False
            P.add_quadratic(u, v, b)
        return True
    if k == 'ao':
        P.off += a[0]; return True
    if k == 'ai': return P.add_quadratic(a[0], a[1], a[2])
    if k == 'fxs':
        items = list(dict(a[0]).items()) if a[1] == 'dict' else a[0]
        for v, x in items:
            if not P.fix_variable(v, x): return False
        return True
    if k == 'rif':
        for u, v in a[0]:
            if not P.remove_interaction(u, v): return False
        return True
    if k == 'rvf':
        for v in a[0]:
            if not P.remove_variable(v): return False
        return True
    if k == 'lec': return ref_equality(P, a[0], a[1], a[2])
    if k == 'lic':
        sl = slack_coefficients(op)
        if sl is None:
            return False
        hi = sum(x for _, x in a[0] if x > 0); lo = sum(x for _, x in a[0] if x < 0)
        ub_c, lb_c = min(hi, a[5] - a[3]), max(lo, a[4] - a[3])
        if hi <= ub_c and lo >= lb_c:
            return True                                   # nothing to enforce: the model is left alone
        names = [f'slack_{a[2]}_{j}' for j in range(len(sl))]
        for nm in names:
            P.ensure(nm)
        return ref_equality(P, list(a[0]) + [(nm, F(c)) for nm, c in zip(names, sl)], a[1], F(-ub_c))
    raise AssertionError(k)


def is_range(labels):
    return all(isinstance(v, int) and v == i for i, v in enumerate(labels))


def apply_ref_direct_only(P, op, array_backend):
    """array-style adders exist only on the model itself (the view class has no such method)"""
    k = op[0]
    if k == 'ala':
        for i, x in enumerate(op[1]):
            P.add_linear(i, x)
        return True
    if k == 'aqd':
        d = op[1]
        n = len(d)
        if any(d[i][i] != 0 for i in range(n)):
            return False
        if array_backend and not is_range(P.labels):
            return False            # cyBQM: NotImplementedError, nothing changes
        for i in range(n):
            P.ensure(i)
        for i in range(n):
            for j in range(i + 1, n):
                if d[i][j] + d[j][i] != 0:
                    P.add_quadratic(i, j, d[i][j] + d[j][i])
        return True
    raise AssertionError(k)


# ---------------------------------------------------------------- one BQM history

def repro_script(dt, vt0, hist, tail):
    head = ['import numpy as np, dimod', 'from dimod import BinaryQuadraticModel as BQM',
            f'b = BQM({vt0!r}, dtype={"object" if dt == "obj" else "np." + DT[dt].__name__})',
            'views = {}', MK_SRC,
            'def state(b):', '    return (list(b.variables), dict(b.linear), {frozenset(k): v for k, v in b.quadratic.items()}, float(b.offset), b.vartype.name)']
    return '\n'.join(head + hist + tail) + '\n'


def bqm_history(ctx, r, dt, nops, lines, expect, meta, malformed_rate, script=None, vt0=None, rmode=False, reads_always=False):
    """`script` = [(mode in 'd' | 'v', op), …] replaces the random choices (small-scope exhaustive sweep);
    `rmode` = range-labelled history (see `gen_op`); `reads_always` = every read path after every step"""
    vt0 = vt0 or r.choice(['SPIN', 'BINARY'])
    if script is not None:
        nops = len(script)
    b = BQM(vt0, dtype=DT[dt])
    ref = RefB(vt0)
    ordered = dt != 'obj'
    held = {}            # view objects obtained earlier (may be stale)
    # read objects REACHED from the model once, before any edit, and read again after the edits (a per-object cache that an
    # in-place mutation does not refresh shows here): the Variables object and the linear / quadratic / adj views
    reached = (b.variables, b.linear, b.quadratic, b.adj)
    hist = []            # repro source lines
    lines.append(f'new {vt0}'); expect.append(('text', 'ok ' + ref.text())); meta.append((dt, 'new', None))
    psync = True         # object back-end: the driver's dict model (`PyB`) holds the real `_adj`
    if dt == 'obj':
        lines.append(f'pnew {vt0}'); expect.append(('text', f'ok {vt0};0;')); meta.append((dt, 'pnew', None))
    for step in range(nops):
        malformed = r.random() < malformed_rate
        # through which object?
        mode = r.random() if script is None else (.1 if script[step][0] == 'v' else .9)
        if rmode and script is None and mode < .4 and r.random() < .6:
            mode = .9            # the index-level adders exist on the model only
        via, obj, name = 'd', b, 'b'
        if mode < .3:
            T = OTHER[ref.vt]
            obj = b.spin if T == 'SPIN' else b.binary
            held[T] = obj
            via, name = ('vs' if T == 'SPIN' else 'vb'), ('b.spin' if T == 'SPIN' else 'b.binary')
            hist.append(f'views[{T!r}] = {name}')
        elif mode < .4 and held:
            T = r.choice(sorted(held))
            obj = held[T]
            tag = obj.vartype.name
            via, name = ('vs' if tag == 'SPIN' else 'vb'), f'views[{T!r}]'
        tv = ref.vt if via == 'd' else ('SPIN' if via == 'vs' else 'BINARY')
        if dt == 'obj' and ordered is False:
            ref.labels = list(b.variables)     # order is the object's own (not promised by C04)
        op = gen_op(r, ref.convert(tv), malformed, obj=(dt == 'obj'), rmode=rmode) if script is None else script[step][1]
        k = op[0]
        before = ref.copy()
        # ---- expected result by algebra
        P = ref.convert(tv)
        if k in ('ala', 'aqd'):
            okx = apply_ref_direct_only(P, op, dt != 'obj') if via == 'd' else False
        elif k == 'rs' and via != 'd':
            okx = False
        elif k == 'cv':
            okx = True
            if via == 'd':
                P = ref.convert(op[1])
        else:
            okx = apply_ref(P, op, ref.convert(tv))
        if okx is True or (k in BULK and okx is False):
            new = P if (k == 'cv' and via == 'd') else P.convert(ref.vt)
        else:
            new = before.copy()
        partial = (okx is not True) and not new.same(before)
        # precision guard: cut the history before an op whose exact result does not fit the dtype
        if not all(fits(x, MANT[dt]) for x in new.values() + P.values() + [getattr(P, 'scalar', F(1)), getattr(P, 'invscalar', F(1))]):
            ctx.tick('cut_for_precision')
            break
        if k in ('lec', 'lic') and not all(fits(x, MANT[dt] - 6) for x in new.values() + before.values()):
            ctx.tick('cut_for_precision')     # several native additions per coefficient: head room for the intermediate sums
            break
        # ---- model line(s)
        ln = line_of(via, op, ref.convert(tv))
        if dt == 'obj':
            # the object back-end keeps its own (dict) order, which C04 does not promise: the model is put
            # into the object's current order before every call and compared up to order after it
            lines.append('load ' + before.literal()); expect.append(('skip', '')); meta.append((dt, 'load', None))
            if k == 'aqd' and via == 'd' and not is_range(before.labels):
                ln = None   # cyBQM defers (NotImplementedError) for non-range labels, pyBQM proceeds with integer labels
        # ---- the real call
        src = src_of(name, op)
        hist.append('try:\n    ' + src + '\nexcept Exception as e: print("raised", type(e).__name__, e)')
        exc = None
        ctx.mark(f'C04 {dt} about to run: {src}  (history: {[h for h in hist[-6:]]})')
        try:
            apply_real(obj, op, b)
        except Exception as e:  # noqa
            exc = e
        ctx.tick(f'{k}:{via if via == "d" else "view"}' + (':raises' if exc is not None else ''))
        if k == 'ct' and len(op) == 3 and op[1] != op[2]:
            try:
                kk0 = pkey(op[1], op[2])
                ctx.tick('ct:' + ('no-interaction' if kk0 not in before.quad else
                                  'zero-bias-interaction' if before.convert(tv).quad[kk0] == 0 else 'interaction'))
            except TypeError:
                pass
        if k in ('fx', 'fl', 'rv') and len(op) >= 2 and op[1] is not None:
            try:
                if any(x == 0 for _, x in before.convert(tv).nbrs(op[1])):
                    ctx.tick(f'{k}:has-zero-bias-neighbour')
            except Exception:  # noqa
                pass
        if exc is not None:
            ctx.tick('exc:' + type(exc).__name__)
        if k in ('aqd', 'ala') and via == 'd' and is_range(before.labels) and len(op[1]) > len(before.labels):
            ctx.tick(f'{k}:larger-than-range-model' + (':rejected' if exc is not None else ':resized'))
        if k == 'aqd' and via == 'd' and exc is None and is_range(before.labels):
            # which branch of QuadraticModelBase::add_quadratic_from_dense the call took, and where the pairs it touched sat
            ctx.tick('aqd:branch:' + ('is_linear (append)' if not before.quad else 'has interactions (sorted insert)'))
            d_, n_ = op[1], len(op[1])
            for i_ in range(n_):
                for j_ in range(i_ + 1, n_):
                    if d_[i_][j_] + d_[j_][i_] != 0:
                        if frozenset((i_, j_)) not in before.quad:
                            ctx.tick('aqd:term:new-pair' + (':in-model-with-interactions' if before.quad else ''))
                        else:
                            last = all(max(before.labels.index(w) for w, _ in before.nbrs(a_)) == c_ for a_, c_ in ((i_, j_), (j_, i_)))
                            ctx.tick('aqd:term:existing-pair:' + ('last-of-both-neighbourhoods' if last else 'inside-a-neighbourhood'))
        site = ('BQM.' if via == 'd' else 'VartypeView.') + SITE[k] + ('' if dt != 'obj' else '[object]')
        if len(b.variables) != b.num_variables:
            # label list and native model out of step: any further read may abort the interpreter (D32)
            ctx.fail('property', site, 'labels and native model out of step',
                     f'{src}: {"raised " + type(exc).__name__ if exc is not None else "returned"}, now len(variables)={len(b.variables)} '
                     f'but num_variables={b.num_variables}; the next access can crash the interpreter',
                     repro=repro_script(dt, vt0, hist, ['assert len(b.variables) == b.num_variables, (list(b.variables), b.num_variables)']),
                     detail=dict(history=hist[-8:]))
            return
        try:
            st = state_of(b)
        except Exception as e:  # noqa
            ctx.fail('property', site, 'state unreadable after call',
                     f'{src}: reading the model afterwards raised {type(e).__name__}: {e}',
                     repro=repro_script(dt, vt0, hist, ['print(state(b))', 'assert False']), detail=dict(history=hist[-8:]))
            return
        got_text, got_un = text_of(st), unordered_of(st)
        nontrivial = (not new.same(before)) or exc is not None
        ctx.case((dt, via, ln, before.text()), nontrivial=nontrivial,
                 sample=dict(dtype=dt, history=[h.split('\n')[1].strip() if h.startswith('try') else h for h in hist]) if step == 7 else None)
        raised = exc is not None
        # (ii) property predicate
        tail_state = ['print(state(b))']
        def fail_prop(cls, what):
            ctx.fail('property', site, cls, what, repro=repro_script(dt, vt0, hist[:-1], [
                'before = state(b)', 'raised = None', 'try:', '    ' + src, 'except Exception as e: raised = e',
                'print("before", before); print("after ", state(b)); print("raised", repr(raised))',
                'expected = ' + repr((new.labels if ordered else sorted(new.labels, key=lab), {v: float(x) for v, x in new.lin.items()},
                                      {kk: float(x) for kk, x in new.quad.items()}, float(new.off), new.vt)),
                'got = state(b)' if ordered else 'got = state(b); got = (sorted(got[0], key=repr),) + got[1:]; expected = (sorted(expected[0], key=repr),) + expected[1:]',
                'assert got == expected, (got, expected)' + ('' if okx is True else '\nassert raised is not None')]),
                detail=dict(dtype=dt, via=via, op=src, history=[h for h in hist[-10:]], expected=new.text(), got=got_text,
                            raised=repr(exc)))
        same_as = (lambda R: got_text == R.text()) if ordered else (lambda R: got_un == R.unordered())
        if okx is True:
            if raised:
                if same_as(before):
                    fail_prop(f'{type(exc).__name__} on a valid call', f'{src} raised {type(exc).__name__}: {exc} (a valid edit; model unchanged)')
                else:
                    fail_prop(f'{type(exc).__name__} on a valid call, model changed', f'{src} raised {type(exc).__name__}: {exc} and changed the model')
                return
            if not same_as(new):
                fail_prop('wrong polynomial', f'{src}: model is {got_text}, the polynomial is {new.text()}')
                return
        else:
            if not raised:
                fail_prop('accepted an invalid call', f'{src} returned normally; state {got_text}')
                return
            if k in BULK:
                if not same_as(new):
                    if same_as(before):
                        pass   # atomic behaviour is fine as well
                    else:
                        fail_prop('wrong polynomial after partial bulk', f'{src}: {got_text} is neither the state before nor the applied prefix {new.text()}')
                        return
                elif partial:
                    ctx.fail('property', 'BQM.' + SITE[k], 'bulk call raised after applying a prefix',
                             f'{src} raised {type(exc).__name__} and kept the elements before the offending one (D34)',
                             repro=repro_script(dt, vt0, hist[:-1], ['before = state(b)', 'try:', '    ' + src, 'except Exception: pass', 'assert state(b) == before, (before, state(b))']),
                             detail=dict(op=src))
            elif not same_as(before):
                cls = 'changed on raise'
                fail_prop(cls, f'{src} raised {type(exc).__name__} but changed the model: {before.text()} -> {got_text}')
                return
        # bring the reference to the new state (for bulk partial: what the code kept)
        if okx is True:
            ref = new
        elif k in BULK and raised and same_as(new):
            ref = new
        else:
            ref = before
        if not ordered:
            ref.labels = list(b.variables)
        # (i) correspondence line
        if ln is None:
            lines.append('load ' + ref.literal()); expect.append(('un' if not ordered else 'text', 'ok ' + (ref.text())))
        else:
            lines.append(ln); expect.append(('un' if not ordered else 'text', ('err ' if raised else 'ok ') + got_text))
        meta.append((dt, src, list(hist[-12:])))
        # (i') the dict back-end against its own model (`DimodModel/PyBqm.lean`), in dict order: the data-level
        # primitives step the model, everything else (composites of the Python layer, views, relabel) re-loads it
        if dt == 'obj':
            pt = pyb_text(b)
            if pt is None:
                psync = False
            elif psync and via == 'd' and k in PYB_PRIMS and ln is not None:
                lines.append('p ' + ln.split(' ', 1)[1]); expect.append(('text', ('err ' if raised else 'ok ') + pt))
                meta.append((dt, 'pyBQM ' + src, list(hist[-12:])))
                ctx.tick('pyb_stepped')
            else:
                vtn, offt, rows = pt.split(';', 2)
                lines.append(f'pload {vtn} {offt} {rows or "-"}'); expect.append(('text', 'ok ' + pt))
                meta.append((dt, 'pyBQM load after ' + src, list(hist[-12:])))
                psync = True
        # (iii) read paths, on the model and through its views
        if (script is None and r.random() < .35) or step == nops - 1 or reads_always or (k in ('aqd', 'ala', 'rs') and via == 'd'):
            for T, o2 in ((ref.vt, b), (OTHER[ref.vt], b.spin if ref.vt == 'BINARY' else b.binary)):
                try:
                    bad = check_reads(o2, ref.convert(T), ordered, r)
                except Exception as e:  # noqa
                    bad = f'read raised {type(e).__name__}: {e}'
                if bad:
                    ctx.fail('property', ('BQM' if T == ref.vt else 'VartypeView') + ' read paths' + ('' if dt != 'obj' else '[object]'), bad.split(' ')[0].split('(')[0],
                             f'after {src}: {bad}', repro=repro_script(dt, vt0, hist, ['print(state(b))', 'assert False, ' + repr(bad)]),
                             detail=dict(history=hist[-8:], expected=ref.convert(T).text()))
                    return
            try:
                V0, lin0, quad0, adj0 = reached
                Lr = list(V0)
                badr = None
                if (Lr != ref.labels if ordered else sorted(map(lab, Lr)) != sorted(map(lab, ref.labels))) or len(V0) != len(ref.labels):
                    badr = f'the Variables object obtained before the edits lists {Lr!r}, the model has {ref.labels!r}'
                elif {v: fr(x) for v, x in lin0.items()} != ref.lin or len(lin0) != len(ref.lin):
                    badr = 'the linear view obtained before the edits differs from the polynomial'
                elif {pkey(*kk): fr(x) for kk, x in quad0.items()} != ref.quad or len(quad0) != len(ref.quad):
                    badr = 'the quadratic view obtained before the edits differs from the polynomial'
                elif {v: {u: fr(x) for u, x in adj0[v].items()} for v in adj0} != {v: dict(ref.nbrs(v)) for v in ref.labels}:
                    badr = 'the adj view obtained before the edits differs from the polynomial'
                elif any((v in V0) != (v in ref.lin) or (ordered and v in ref.lin and V0.index(v) != Lr.index(v)) for v in LABELS):
                    badr = 'membership / index of the Variables object obtained before the edits'
            except Exception as e:  # noqa
                badr = f'reading an object obtained before the edits raised {type(e).__name__}: {e}'
            if badr:
                ctx.fail('property', 'BQM read paths' + ('' if dt != 'obj' else '[object]'), 'objects reached before the edits',
                         f'after {src}: {badr}', repro=repro_script(dt, vt0, ['V0, lin0, quad0, adj0 = b.variables, b.linear, b.quadratic, b.adj'] + hist,
                                                                    ['print(list(V0), dict(lin0), dict(quad0)); print(state(b))', 'assert False, ' + repr(badr)]),
                         detail=dict(history=hist[-8:], expected=ref.text()))
                return
            ctx.tick('reads_checked')
            # every reader as the model defines it (`Bqm.getLinear` … `toNumpyVectors`, the subjects of `readers_consistent`)
            if ordered:
                try:
                    rt = readers_text(b)
                except Exception as e:  # noqa
                    rt = f'readers raised {type(e).__name__}: {e}'
                lines.append('rd'); expect.append(('text', 'ok ' + rt)); meta.append((dt, f'readers after {src}', list(hist[-12:])))
            # the views as the model computes them
            for T in ('SPIN', 'BINARY'):
                o2 = b.spin if T == 'SPIN' else b.binary
                lines.append('read ' + ('vs' if T == 'SPIN' else 'vb'))
                vst = state_of(o2)
                expect.append(('read' if ordered else 'skip', 'ok ' + ';'.join([T, ','.join(rat(x) for x in vst[2]),
                                                             ','.join(f'{u}:{v}:{rat(x)}' for u, v, x in vst[3]), rat(vst[4])])))
                meta.append((dt, f'reads of b.{T.lower()} after {src}', list(hist[-12:])))


# ---------------------------------------------------------------- run

def compare(ctx, exe, lines, expect, meta, what):
    got = run_driver(exe, lines)
    ctx.corr_lines += len(lines)
    for i, ln in enumerate(lines):
        g = got[i] if i < len(got) else 'MISSING'
        mode, e = expect[i]
        if mode == 'skip':
            continue
        if mode == 'un':
            ok = g.split(' ')[0] == e.split(' ')[0] and parse_state(g.split(' ', 1)[1]) == parse_state(e.split(' ', 1)[1]) if ' ' in g else False
        else:
            ok = g == e
        if not ok:
            dt, src, hist = meta[i]
            ctx.fail('correspondence', what, f'{dt}: {src.split("(")[0]}', f'line {i} `{ln}`: implementation `{e}` model `{g}`',
                     detail=dict(history=hist))
            return False
    return True


def run(ctx):
    r = ctx.rng
    ctx.rule = ('random histories (1-40 ops) of public BQM mutators on float64/float32/object back-ends, issued directly, '
                'through a fresh .spin/.binary view or through a stale held view; 10% malformed calls (None/unhashable labels, '
                'non-numeric biases, unknown labels, self-loops, negative sizes, conflicting/absent relabel keys); a case = one call '
                'in its history; non-trivial = the polynomial changed or the call raised; distinct by (dtype, via, op line, state before)')
    nh = ctx.scale(90, 2500)
    for dt in ('f64', 'f32', 'obj'):
        lines, expect, meta = [], [], []
        for _ in range(nh):
            bqm_history(ctx, r, dt, r.randint(1, 40), lines, expect, meta, .1, rmode=(r.random() < .3))
            if len([f for f in ctx.failures if f['kind'] == 'property']) >= 60:
                break
        compare(ctx, 'bqmdriver', lines, expect, meta, f'BQM[{dt}] vs Lean Bqm')
    dense_sweep(ctx, r)
    if not ctx.quick:
        exhaustive(ctx, r)
    from harness.props import c04_qm
    c04_qm.run(ctx)
    # the op alphabet, checked against the source (harness/props/c04_alphabet.py)
    from harness.props import c04_alphabet
    bq = lambda code: any(k.split(':')[0] == code and k.split(':')[1:2] in (['d'], ['view']) for k in ctx.hist) or (code == 'sc' and any(k.startswith('sci:') for k in ctx.hist))
    qq = lambda code: any(k == 'qm:' + code or k.startswith('qm:' + code + ':') for k in ctx.hist)
    c04_alphabet.alphabet_check(ctx, {'BinaryQuadraticModel': bq, 'QuadraticModel': qq})


def dense_sweep(ctx, r):
    """small scope, every run: every graph on the range labels 0, 1, 2 (optionally a 4th variable tied to 0 or 2, so that a pair
    of the leading block is or is not the last entry of a neighbourhood) x every non-empty set of pairs named by a 3 x 3 dense
    matrix x the entry used (upper / lower / split) x float64 / float32 x both vartypes; every read path after every step"""
    pairs = [(0, 1), (0, 2), (1, 2)]
    lines, expect, meta = [], [], []
    n = 0
    for dt in ('f64', 'f32'):
        for vt0 in ('SPIN', 'BINARY'):
            for g in range(8):
                for extra in (None, (0, 3), (2, 3)):
                    for dset in range(1, 8):
                        for place in ('upper', 'lower', 'split'):
                            script = [('d', ('rs', 4 if extra else 3))]
                            es = [pq for i, pq in enumerate(pairs) if g >> i & 1] + ([extra] if extra else [])
                            r.shuffle(es)
                            script += [('d', ('aq',) + (pq if r.random() < .5 else pq[::-1]) + (F(r.choice([-3, -1, 1, 2, 5]), 4),)) for pq in es]
                            d = [[F(0)] * 3 for _ in range(3)]
                            for i, (u, v) in enumerate(pairs):
                                if dset >> i & 1:
                                    x = F(r.choice([-5, -2, 1, 3, 6]), 4)
                                    d[u][v], d[v][u] = {'upper': (x, F(0)), 'lower': (F(0), x), 'split': (x - F(1, 2), F(1, 2))}[place]
                            script.append(('d', ('aqd', d)))
                            if r.random() < .5:
                                script.append(('d', r.choice([('aq', 0, 1, F(1, 4)), ('sq', 1, 2, F(-1, 2)), ('ri', 0, 2), ('rv', None), ('aqd', d)])))
                            bqm_history(ctx, r, dt, len(script), lines, expect, meta, 0, script=script, vt0=vt0, reads_always=True)
                            n += 1
    compare(ctx, 'bqmdriver', lines, expect, meta, 'BQM vs Lean Bqm (dense sweep)')
    ctx.extra['dense_sweep_histories'] = n


def exhaustive(ctx, r):
    """small scope: every history of length <= 3 over 3 labels and 12 op templates issued directly (and of length <= 2
    with every op also through a view), from both vartypes, float64"""
    L = [0, 'a', 1]
    h, q = F(1, 2), F(-3, 4)
    ops = []
    ops += [('al', l, h) for l in L] + [('sl', l, q) for l in L]
    ops += [('aq', u, v, q) for u in L for v in L if u != v and (u, v) in ((0, 'a'), ('a', 1), (1, 0))]
    ops += [('sq', u, v, h) for u in L for v in L if u != v and (u, v) in ((0, 'a'), ('a', 1), (1, 0))]
    ops += [('ri', u, v) for (u, v) in ((0, 'a'), ('a', 1), (0, 1))]
    ops += [('rv', l) for l in L] + [('rv', None), ('av', None, h), ('sc', F(-2)), ('cv', 'SPIN'), ('cv', 'BINARY')]
    ops += [('fx', l, F(1)) for l in L] + [('ct', u, v) for (u, v) in ((0, 'a'), ('a', 1), (1, 1))] + [('fl', l) for l in L] + [('rs', 2)]
    lines, expect, meta = [], [], []
    n = 0
    for vt0 in ('SPIN', 'BINARY'):
        for depth in (1, 2, 3):
            for hist in itertools.product(ops, repeat=depth):
                bqm_history(ctx, r, 'f64', depth, lines, expect, meta, 0, script=[('d', o) for o in hist], vt0=vt0)
                n += 1
        for hist in itertools.product(ops, repeat=2):
            for modes in (('v', 'v'), ('d', 'v'), ('v', 'd')):
                bqm_history(ctx, r, 'f64', 2, lines, expect, meta, 0, script=list(zip(modes, hist)), vt0=vt0)
                n += 1
        if len(lines) > 400000:
            compare(ctx, 'bqmdriver', lines, expect, meta, 'BQM[f64] vs Lean Bqm (exhaustive)')
            lines, expect, meta = [], [], []
    compare(ctx, 'bqmdriver', lines, expect, meta, 'BQM[f64] vs Lean Bqm (exhaustive)')
    ctx.extra['exhaustive_histories'] = n
    ctx.extra['exhaustive_templates'] = len(ops)
