"""Shared pieces of the C01 / C02 / C03 harness modules: recipes (model construction that doubles as the
repro script), generators, wire encoders for the `energydriver` protocol, exact oracles.

Everything numeric is a small dyadic rational (k/8, |k| <= 64), so float64/float32 arithmetic in dimod is
exact and all comparisons are exact equality on `Fraction`s.
"""
import itertools
import os
import subprocess
import sys
from fractions import Fraction

import numpy as np

from harness.common import lab, rat

LABELS = [0, 1, 2, 5, 'a', 'b', ('a', 1), ('t', (1, 2))]
PY = '/venv/bin/python'

HEADER = ['import warnings; warnings.simplefilter("ignore")', 'import numpy as np, dimod', 'from fractions import Fraction',
          'from dimod import BinaryQuadraticModel as BQM, QuadraticModel as QM, ConstrainedQuadraticModel as CQM, '
          'DiscreteQuadraticModel as DQM, BinaryPolynomial, SampleSet']

ORACLE_SRC = '''
def F(x):
    return Fraction(float(x))
def poly_value(m, row):
    """offset + sum(linear*value) + sum(quadratic*value*value) over the coefficients the model itself reports"""
    e = F(m.offset)
    for v, b in m.iter_linear():
        e += F(b) * F(row[v])
    for u, v, b in m.iter_quadratic():
        e += F(b) * F(row[u]) * F(row[v])
    return e
def dqm_value(d, row):
    e = F(d.offset)
    vs = list(d.variables)
    for v in vs:
        e += F(d.get_linear_case(v, row[v]))
    for i, u in enumerate(vs):
        for v in vs[:i]:
            try:
                e += F(d.get_quadratic_case(u, row[u], v, row[v]))
            except Exception:
                pass
    return e
def poly_sum(p, row):
    e = Fraction(0)
    for term, bias in p.items():
        x = F(bias)
        for v in term:
            x *= F(row[v])
        e += x
    return e
'''


class Recipe:
    """construction script executed line by line; the same lines are the repro"""

    def __init__(self):
        self.lines = list(HEADER)
        self.ns = {}
        for ln in self.lines:
            exec(ln, self.ns)

    def do(self, line):
        self.lines.append(line)
        exec(line, self.ns)

    def ev(self, expr):
        return eval(expr, self.ns)

    def __getitem__(self, name):
        return self.ns[name]

    def script(self, extra=''):
        return '\n'.join(self.lines) + '\n' + ORACLE_SRC + '\n' + extra


def q8(r, lo=-16, hi=16):
    """a dyadic rational k/8 as a float"""
    return r.randint(lo, hi) / 8


def F(x):
    if isinstance(x, Fraction):
        return x
    return Fraction(float(x))


def fl(x):
    """python literal for an exact dyadic"""
    x = float(x)
    return repr(int(x)) if x.is_integer() else repr(x)


# --------------------------------------------------------------------------- exact oracle

def poly_value(m, row):
    e = F(m.offset)
    for v, b in m.iter_linear():
        e += F(b) * F(row[v])
    for u, v, b in m.iter_quadratic():
        e += F(b) * F(row[u]) * F(row[v])
    return e


def coeffs(m):
    """canonical reported coefficients: (offset, {label: lin}, {frozenset/tuple: quad}) as Fractions"""
    lin = {v: F(b) for v, b in m.iter_linear()}
    quad = {}
    for u, v, b in m.iter_quadratic():
        k = (u, v) if u == v else frozenset((u, v))
        quad[k] = quad.get(k, 0) + F(b)
    return F(m.offset), lin, quad


# --------------------------------------------------------------------------- wire forms

def rats(xs):
    xs = list(xs)
    return ','.join(rat(F(x)) for x in xs) if xs else '-'


def labs(ls):
    ls = list(ls)
    return ','.join(lab(x) for x in ls) if ls else '-'


def rows_tok(rows):
    rows = [list(r) for r in rows]
    if not rows:
        return '-'
    return ';'.join((','.join(rat(F(x)) for x in r) if r else '.') for r in rows)


def introws_tok(rows):
    rows = [list(r) for r in rows]
    if not rows:
        return '-'
    return ';'.join((','.join(str(int(x)) for x in r) if r else '.') for r in rows)


def adj_tok(rows, allocated=True):
    """rows: list of [(index, bias)]"""
    if not allocated:
        return '~'
    if not rows:
        return '-'
    return ';'.join((','.join(f'{i}:{rat(F(b))}' for i, b in nb) if nb else '.') for nb in rows)


def qmb_tokens(m, order=None, r=None):
    """(lin, adj, off) tokens of a BQM / QM / expression view in its own variable order, neighbourhoods exactly
    as `iter_neighborhood` reports them.  When there is no interaction at all the adjacency is sent as
    'not allocated' or 'allocated and empty' at random (both must agree with the implementation)."""
    order = list(m.variables) if order is None else order
    idx = {v: i for i, v in enumerate(order)}
    lin = [m.get_linear(v) for v in order]
    adj = [[(idx[u], b) for u, b in m.iter_neighborhood(v)] for v in order]
    empty = all(not nb for nb in adj)
    alloc = not (empty and (r is None or r.random() < .5))
    return rats(lin), adj_tok(adj, alloc), rat(F(m.offset))


def parse_rats(tok):
    return [] if tok == '-' else [Fraction(x) for x in tok.split(',')]


def parse_qmb(tok):
    """inverse of the driver's showQMB: 'lin|adj|off' -> (lin, adj rows or None, off)"""
    l, a, o = tok.split('|')
    lin = parse_rats(l)
    if a == '~':
        adj = None
    elif a == '-':
        adj = []
    else:
        adj = [[] if row == '.' else [(int(e.split(':')[0]), Fraction(e.split(':')[1])) for e in row.split(',')]
               for row in a.split(';')]
    return lin, adj, Fraction(o)


def qmb_canon(lin, adj, off):
    """canonical coefficient view of an index-based model: offset, linear list, lower-triangle dict (zeros kept)"""
    quad = {}
    for u, nb in enumerate(adj or []):
        for v, b in nb:
            if v <= u:
                quad[(u, v)] = quad.get((u, v), 0) + b
    return off, list(lin), quad


def model_canon(m, order=None):
    """the same view of a real model (indices = positions in `order`)"""
    order = list(m.variables) if order is None else order
    idx = {v: i for i, v in enumerate(order)}
    quad = {}
    for u, v, b in m.iter_quadratic():
        a, c = idx[u], idx[v]
        if a < c:
            a, c = c, a
        quad[(a, c)] = quad.get((a, c), 0) + F(b)
    return F(m.offset), [F(m.get_linear(v)) for v in order], quad


def sym_ok(adj):
    """symmetric, strictly sorted neighbourhoods (what abc.h maintains)"""
    if adj is None:
        return True
    for u, nb in enumerate(adj):
        ks = [v for v, _ in nb]
        if ks != sorted(set(ks)):
            return False
        for v, b in nb:
            if v != u and (u, b) not in adj[v]:
                return False
    return True


# --------------------------------------------------------------------------- samples and encodings

def domain(vt, lb=None, ub=None):
    name = vt if isinstance(vt, str) else vt.name
    if name == 'SPIN':
        return [-1, 1]
    if name == 'BINARY':
        return [0, 1]
    if name == 'INTEGER':
        return [-1, 0, 2, 3]
    return [-1.5, 0, 0.25, 2]   # REAL


def perm_of(r, xs):
    xs = list(xs)
    return r.sample(xs, len(xs))


def dict_lit(row, order):
    return '{' + ', '.join(f'{k!r}: {fl(row[k])}' for k in order) + '}'


def encodings(r, rows, labels, vartype_name='INTEGER', allow_float=True, all_dtypes=False):
    """samples-like encodings of the same rows (list of dict label->value) as python expressions.
    Returns list of (name, expression, info) where info describes the permutation structure."""
    outs = []
    n = len(labels)
    isint = all(float(row[l]).is_integer() for row in rows for l in labels)
    mx = max([abs(float(row[l])) for row in rows for l in labels] + [0])
    int_dts = [d for d, lim in (('np.int8', 127), ('np.int16', 32767), ('np.int32', 2 ** 31 - 1), ('np.int64', 2 ** 63 - 1)) if mx <= lim]
    dt = int_dts[0] if isint else 'np.float64'   # the smallest integer type that holds the values (what as_samples picks)

    def arr_lit(perm, dtype=dt):
        body = '[' + ', '.join('[' + ', '.join(fl(row[l]) for l in perm) + ']' for row in rows) + ']'
        return f'np.array({body}, dtype={dtype}).reshape({len(rows)}, {len(perm)})'

    perm = perm_of(r, labels)
    outs.append(('array+labels', f'({arr_lit(perm)}, {perm!r})', {}))
    perm = perm_of(r, labels)
    outs.append(('list+labels', f'({[[(int(row[l]) if isint else float(row[l])) for l in perm] for row in rows]!r}, {perm!r})', {}))
    if allow_float and isint:
        perm = perm_of(r, labels)
        outs.append(('floatarray+labels', f'({arr_lit(perm, "np.float64")}, {perm!r})', {}))
    perm = perm_of(r, labels)
    outs.append(('fortran+labels', f'(np.asfortranarray({arr_lit(perm)}), {perm!r})', {}))
    # explicit sample dtypes: every wider integer type, float32 when the values are exact in it
    explicit = (int_dts[1:] if isint else []) + (['np.float32'] if allow_float and mx < 2 ** 24 else [])
    if not all_dtypes and len(explicit) > 2:
        explicit = r.sample(explicit, 2)
    for d in explicit:
        perm = perm_of(r, labels)
        outs.append((f'array[{d[3:]}]+labels', f'({arr_lit(perm, d)}, {perm!r})', {}))
    if rows:
        orders = [perm_of(r, labels) for _ in rows]
        if len(rows) >= 2 and n >= 3 and r.random() < .5:
            # force a 3-cycle between the first two rows
            base = list(orders[0])
            i, j, k = r.sample(range(n), 3)
            cyc = list(base)
            cyc[i], cyc[j], cyc[k] = base[j], base[k], base[i]
            orders[1] = cyc
        cls = 'same key order' if all(o == orders[0] for o in orders) else 'differing key orders'
        lit = '[' + ', '.join(dict_lit(row, o) for row, o in zip(rows, orders)) + ']'
        outs.append(('dicts', lit, {'orders': cls}))
        outs.append(('dicts-iter', f'iter({lit})', {'orders': cls}))
        # further one-shot iterables of samples, and samples that are Mappings but not dicts
        one_shot = [('dicts-gen', f'(d_ for d_ in {lit})'), ('dicts-map', f'map(dict, {lit})'),
                    ('dicts-mappingproxy', f'[__import__("types").MappingProxyType(d_) for d_ in {lit}]'),
                    ('dicts-mappingproxy-gen', f'(__import__("types").MappingProxyType(d_) for d_ in {lit})')]
        for nm, ex in (one_shot if all_dtypes else r.sample(one_shot, 2)):
            outs.append((nm, ex, {'orders': cls}))
    if len(rows) == 1:
        outs.append(('dict', dict_lit(rows[0], perm_of(r, labels)), {}))
        outs.append(('mapping', f'__import__("collections").ChainMap({dict_lit(rows[0], perm_of(r, labels))})', {}))
        perm = perm_of(r, labels)
        if n:
            outs.append(('1d+labels', f'(np.array([{", ".join(fl(rows[0][l]) for l in perm)}], dtype={dt}), {perm!r})', {}))
    perm = perm_of(r, labels)
    if n and rows:
        outs.append(('sampleset', f'SampleSet.from_samples(({arr_lit(perm)}, {perm!r}), {vartype_name!r}, '
                                  f'energy={[0] * len(rows)!r}, sort_labels={r.random() < .5})', {}))
    if labels and sorted(map(repr, labels)) == sorted(map(repr, range(n))) and all(isinstance(l, int) for l in labels):
        body = '[' + ', '.join('[' + ', '.join(fl(row[l]) for l in range(n)) + ']' for row in rows) + ']'
        outs.append(('array', f'np.array({body}, dtype={dt}).reshape({len(rows)}, {n})', {}))
        if rows:
            outs.append(('list', body, {}))
    return outs


def run_child(code, build_dir=None, timeout=60):
    """run a python snippet against the build under test in a fresh interpreter; returns (returncode, stdout, stderr)"""
    env = dict(os.environ)
    p = subprocess.run([PY, '-c', code], capture_output=True, text=True, timeout=timeout, env=env)
    return p.returncode, p.stdout, p.stderr


def exc_class(e):
    if isinstance(e, ValueError):
        return 'value'
    if isinstance(e, KeyError):
        return 'key'
    if isinstance(e, TypeError):
        return 'type'
    if isinstance(e, RuntimeError):
        return 'runtime'
    if isinstance(e, IndexError):
        return 'index'
    return type(e).__name__


# --------------------------------------------------------------------------- model generators (as recipes)

def gen_bqm(r, R, name='m', dtype=None, vartype=None, labels=None, nmax=5):
    """random BQM built through the public mutators; returns (labels, vartype)"""
    vt = vartype or r.choice(['SPIN', 'BINARY'])
    dtype = dtype or r.choice(['np.float64', 'np.float32', 'object'])
    if labels is None:
        n = r.choice([0, 0, 1, 2, 3, 3, 4, nmax])
        labels = r.sample(LABELS, n) if r.random() < .75 else perm_of(r, range(n))
    R.do(f'{name} = BQM({vt!r}, dtype={dtype})')
    for l in labels:
        R.do(f'{name}.add_variable({l!r}, {fl(q8(r))})' if r.random() < .8 else f'{name}.add_variable({l!r})')
    if len(labels) >= 2:
        for _ in range(r.choice([0, 0, 1, 2, 4, 7])):
            u, v = r.sample(labels, 2)
            R.do(f'{name}.add_quadratic({u!r}, {v!r}, {fl(q8(r))})')
    if r.random() < .8:
        R.do(f'{name}.offset = {fl(q8(r))}')
    return list(labels), vt



def edit_history(ctx, r, R, dtype, nops=None, allow_cv=True, tag='history op'):
    """1-5 public edits of the BQM `m` of recipe R (relabel, swap, as_integers, remove / re-add, contract, fix, update, flip,
    scale, copies, pickle, file, in-place change_vartype, remove_interaction, add_quadratic): the state the property is then
    checked on is one an edit history left, not a freshly built one.  Returns the set of op kinds, or None when a call was
    rejected (the case is dropped: the object may be half-edited, which is C04's matter)."""
    if 'pickle' not in R.ns:
        R.do('import copy, pickle')
    kinds = set()
    for _ in range(nops or r.randint(1, 5)):
        m = R['m']
        cur = list(m.variables)
        free = [l for l in LABELS if l not in cur]
        kind = r.choice(['relabel', 'relabel', 'relabel', 'relabel_copy', 'as_integers', 'swap', 'remove_readd', 'remove', 'contract', 'fix',
                         'update', 'flip', 'scale', 'copy', 'deepcopy', 'pickle', 'cv', 'rmint', 'addquad', 'fromfile'])
        line = None
        if kind in ('relabel', 'relabel_copy') and cur and free:
            k = r.randint(1, min(len(cur), len(free), 3))
            mp = dict(zip(r.sample(cur, k), r.sample(free, k)))
            line = f'm.relabel_variables({mp!r})' if kind == 'relabel' else f'm = m.relabel_variables({mp!r}, inplace=False)'
        elif kind == 'swap' and len(cur) >= 2:
            a, b = r.sample(cur, 2)
            mp = {a: b, b: a} if r.random() < .6 or len(cur) < 3 else dict(zip(cur, cur[1:] + cur[:1]))
            line = f'm.relabel_variables({mp!r})'
        elif kind == 'as_integers' and cur:
            line = 'm.relabel_variables_as_integers()'
        elif kind == 'remove_readd' and cur:
            v = r.choice(cur)
            others = [u for u in cur if u != v]
            line = f'm.remove_variable({v!r}); m.add_linear({v!r}, {fl(q8(r))})'
            for u in r.sample(others, min(len(others), r.choice([0, 1, 2]))):
                line += f'; m.add_quadratic({u!r}, {v!r}, {fl(q8(r))})'
        elif kind == 'remove' and len(cur) >= 2:
            line = f'm.remove_variable({r.choice(cur)!r})'
        elif kind == 'contract' and len(cur) >= 2:
            a, b = r.sample(cur, 2)
            line = f'm.contract_variables({a!r}, {b!r})'
        elif kind == 'fix' and len(cur) >= 2:
            line = f'm.fix_variable({r.choice(cur)!r}, {r.choice(domain(m.vartype.name))})'
        elif kind == 'update':
            ol = r.sample(LABELS, r.choice([1, 2, 3]))
            lin = {l: q8(r) for l in ol}
            quad = {tuple(r.sample(ol, 2)): q8(r)} if len(ol) >= 2 else {}
            line = f'm.update(BQM({lin!r}, {quad!r}, {fl(q8(r))}, {m.vartype.name!r}, dtype={dtype}))'
        elif kind == 'flip' and cur:
            line = f'm.flip_variable({r.choice(cur)!r})'
        elif kind == 'scale':
            line = f'm.scale({r.choice([2, -1, 0.5])})'
        elif kind == 'copy':
            line = 'm = m.copy()'
        elif kind == 'deepcopy':
            line = 'm = copy.deepcopy(m)'
        elif kind == 'pickle':
            line = 'm = pickle.loads(pickle.dumps(m))'
        elif kind == 'fromfile' and dtype != 'object':
            line = 'm = BQM.from_file(m.to_file())'
        elif kind == 'cv' and allow_cv:
            line = f'm.change_vartype({("BINARY" if m.vartype.name == "SPIN" else "SPIN")!r}, inplace=True)'
        elif kind == 'rmint' and m.num_interactions:
            a, b, _ = r.choice(list(m.iter_quadratic()))
            line = f'm.remove_interaction({a!r}, {b!r})'
        elif kind == 'addquad' and len(cur) >= 2:
            a, b = r.sample(cur, 2)
            line = f'm.add_quadratic({a!r}, {b!r}, {fl(q8(r))})'
        if line is None:
            continue
        try:
            R.do(line)
        except Exception:  # noqa
            ctx.tick(f'{tag} rejected: ' + kind)
            return None
        kinds.add(kind)
        ctx.tick(f'{tag}: ' + kind)
    return kinds


def gen_qm(r, R, name='m', dtype=None, labels=None, nmax=5, vartypes=('BINARY', 'SPIN', 'INTEGER', 'REAL')):
    dtype = dtype or r.choice(['np.float64', 'np.float64', 'np.float32'])
    if labels is None:
        n = r.choice([0, 0, 1, 2, 3, 3, 4, nmax])
        labels = r.sample(LABELS, n) if r.random() < .75 else perm_of(r, range(n))
    R.do(f'{name} = QM(dtype={dtype})')
    vts = {}
    for l in labels:
        vt = r.choice(vartypes)
        vts[l] = vt
        if vt in ('INTEGER', 'REAL'):
            R.do(f'{name}.add_variable({vt!r}, {l!r}, lower_bound=-4, upper_bound=8)')
        else:
            R.do(f'{name}.add_variable({vt!r}, {l!r})')
        if r.random() < .8:
            R.do(f'{name}.set_linear({l!r}, {fl(q8(r))})')
    if labels:
        for _ in range(r.choice([0, 0, 1, 2, 4, 7])):
            u, v = r.choice(labels), r.choice(labels)
            if (u == v and vts[u] in ('BINARY', 'SPIN')) or 'REAL' in (vts[u], vts[v]):
                continue
            R.do(f'{name}.add_quadratic({u!r}, {v!r}, {fl(q8(r))})')
    if r.random() < .8:
        R.do(f'{name}.offset = {fl(q8(r))}')
    return list(labels), vts
