#!/venv/bin/python
"""C20: random VALID op sequences against the dimod C++ headers.

Builds interp.cc (ASan+UBSan, asserts on, _GLIBCXX_ASSERTIONS), drives it
interactively, parses the printed states into exact Fractions and checks the
structural invariants of every adjacency it sees.

stdlib only.  See NOTES.md for the op grammar and the precondition decisions.
"""

import collections
import hashlib
import os
import random
import subprocess
import sys
import tempfile
from fractions import Fraction as F

HERE = os.path.join(os.path.dirname(os.path.dirname(os.path.abspath(__file__))), "cpp")
CXX = "clang++-14"
CXXFLAGS = [
    "-std=c++17", "-O1", "-g", "-fsanitize=address,undefined",
    "-fno-sanitize-recover=undefined", "-UNDEBUG", "-D_GLIBCXX_ASSERTIONS",
]
DEFAULT_INC = os.path.join(os.environ.get("VERIF_BUILD", "/repo"), "dimod", "include")

INF = float("inf")
INT_MAX = F(2 ** 53 - 1)
REAL_MAX = F(1e30)


# ---------------------------------------------------------------------------
# build


class BuildError(Exception):
    pass


def build(inc_dir, cache_dir, src=None):
    """Compile interp.cc against inc_dir; returns the path of the cached binary."""
    src = src or os.path.join(HERE, "interp.cc")
    h = hashlib.sha256()
    with open(src, "rb") as f:
        h.update(f.read())
    for root, dirs, files in os.walk(inc_dir):
        dirs.sort()
        for name in sorted(files):
            p = os.path.join(root, name)
            h.update(os.path.relpath(p, inc_dir).encode())
            h.update(b"\0")
            with open(p, "rb") as f:
                h.update(f.read())
            h.update(b"\0")
    key = h.hexdigest()[:20]
    os.makedirs(cache_dir, exist_ok=True)
    out = os.path.join(cache_dir, "interp-" + key)
    if os.path.exists(out):
        return out
    tmp = "%s.tmp%d" % (out, os.getpid())
    cmd = [CXX] + CXXFLAGS + ["-I" + inc_dir, src, "-o", tmp]
    r = subprocess.run(cmd, capture_output=True, text=True)
    if r.returncode != 0:
        try:
            os.unlink(tmp)
        except OSError:
            pass
        raise BuildError("%s\n%s%s" % (" ".join(cmd), r.stdout, r.stderr))
    os.replace(tmp, out)
    return out


# ---------------------------------------------------------------------------
# process


class InterpDied(Exception):
    def __init__(self, returncode, stderr, op):
        super().__init__("interpreter died (rc=%s) on %r" % (returncode, op))
        self.returncode = returncode
        self.stderr = stderr
        self.op = op


class Interp:
    def __init__(self, path):
        env = dict(os.environ)
        env["ASAN_OPTIONS"] = "abort_on_error=1:detect_leaks=1"
        env["UBSAN_OPTIONS"] = "print_stacktrace=1:halt_on_error=1"
        self._err = tempfile.TemporaryFile(mode="w+")
        self.p = subprocess.Popen([path], stdin=subprocess.PIPE, stdout=subprocess.PIPE,
                                  stderr=self._err, text=True, bufsize=1, env=env)
        self.ops = []

    def _stderr(self):
        self._err.flush()
        self._err.seek(0)
        return self._err.read()

    def send(self, op_line):
        self.ops.append(op_line)
        try:
            self.p.stdin.write(op_line + "\n")
            self.p.stdin.flush()
        except (BrokenPipeError, OSError):
            pass
        reply = self.p.stdout.readline()
        if not reply:
            rc = self.p.wait()
            raise InterpDied(rc, self._stderr(), op_line)
        return reply.rstrip("\n")

    def close(self):
        """Returns (returncode, stderr).  A LeakSanitizer report shows up in stderr
        (and makes the return code non-zero)."""
        try:
            self.p.stdin.close()
        except OSError:
            pass
        rc = self.p.wait()
        err = self._stderr()
        self.p.stdout.close()
        self._err.close()
        return rc, err


# ---------------------------------------------------------------------------
# parsing


def hexnum(s):
    x = float.fromhex(s)
    if x != x or x in (INF, -INF):
        return x
    return F(x)


def split_top(s, sep):
    out, cur, depth = [], [], 0
    for ch in s:
        if ch in "{[":
            depth += 1
        elif ch in "}]":
            depth -= 1
        if ch == sep and depth == 0:
            out.append("".join(cur))
            cur = []
        else:
            cur.append(ch)
    out.append("".join(cur))
    return out


def _fields(s):
    d = collections.OrderedDict()
    for part in split_top(s, ";"):
        k, eq, v = part.partition("=")
        if not eq:
            raise ValueError("bad field %r" % part)
        d[k] = v
    return d


def _numlist(s):
    return [hexnum(x) for x in s.split(",")] if s else []


def _intlist(s):
    return [int(x) for x in s.split(",")] if s else []


def _quad(d):
    n = int(d["n"])
    out = {"n": n, "off": hexnum(d["off"]), "lin": _numlist(d["lin"])}
    if "adj" not in d or n == 0:
        rows = [[] for _ in range(n)]
        if d.get("adj"):
            raise ValueError("adjacency rows for n == 0")
    else:
        rows = []
        for r in d["adj"].split("|"):
            row = []
            if r:
                for e in r.split(","):
                    v, _, b = e.partition(":")
                    row.append((int(v), hexnum(b)))
            rows.append(row)
    out["adj"] = rows
    out["ni"] = int(d["ni"])
    out["deg"] = _intlist(d["deg"])
    out["is_linear"] = d["lin?"] == "1"
    return out


def _expr(s):
    assert s[0] == "{" and s[-1] == "}", s
    d = _fields(s[1:-1])
    out = _quad(d)
    out["vars"] = _intlist(d["vars"])
    if "sense" in d:
        out.update(sense=d["sense"], rhs=hexnum(d["rhs"]), weight=hexnum(d["weight"]), pen=d["pen"],
                   disc=d["disc"] == "1", soft=d["soft"] == "1", onehot=d["onehot"] == "1")
    return out


def parse_state(text):
    """One state chunk ('b0 n=..;..' or 'c0 nv=..;..') -> dict with exact Fractions."""
    name, _, rest = text.strip().partition(" ")
    d = _fields(rest)
    if name[0] == "c":
        st = {"name": name, "kind": "cqm", "nv": int(d["nv"]), "vt": list(d["vt"]),
              "lb": _numlist(d["lb"]), "ub": _numlist(d["ub"]), "obj": _expr(d["obj"])}
        inner = d["cons"]
        assert inner[0] == "[" and inner[-1] == "]"
        inner = inner[1:-1]
        st["cons"] = [_expr(c) for c in split_top(inner, ",")] if inner else []
        st["pend"] = None if d["pend"] == "none" else _expr(d["pend"])
        return st
    st = _quad(d)
    st.update(name=name, kind="bqm" if name[0] == "b" else "qm", vt=list(d["vt"]),
              lb=_numlist(d["lb"]), ub=_numlist(d["ub"]), bvt=d.get("bvt", "-"))
    return st


def parse_reply(line):
    chunks = line.split(" ## ")
    head = chunks[0]
    r = {"status": None, "ret": None, "what": None, "states": collections.OrderedDict(),
         "inconsistent": [], "raw": line}
    if head == "ok" or head.startswith("ok "):
        r["status"] = "ok"
        if head.startswith("ok ret="):
            r["ret"] = head[len("ok ret="):]
    elif head.startswith("exc "):
        r["status"] = "exc"
        r["what"] = head[4:]
    elif head.startswith("err "):
        r["status"] = "err"
        r["what"] = head[4:]
        return r
    else:
        raise ValueError("unparsable reply %r" % line)
    for c in chunks[1:]:
        if c.startswith("INCONSISTENT "):
            r["inconsistent"] = c[len("INCONSISTENT "):].split(" ;; ")
        else:
            st = parse_state(c)
            r["states"][st["name"]] = st
    return r


# ---------------------------------------------------------------------------
# invariants


def _check_quad(q, vts, ctx):
    """Structural invariants of one adjacency.  vts: vartype letter per (local) variable
    or None when unknown."""
    bad = []
    n = q["n"]
    if len(q["lin"]) != n:
        bad.append("%s: len(lin)=%d != n=%d" % (ctx, len(q["lin"]), n))
    adj = q["adj"]
    if len(adj) != n:
        bad.append("%s: %d adjacency rows != n=%d" % (ctx, len(adj), n))
        return bad
    if len(q["deg"]) != n:
        bad.append("%s: len(deg)=%d != n=%d" % (ctx, len(q["deg"]), n))
    pairs = 0
    for u, row in enumerate(adj):
        prev = None
        for v, b in row:
            if not (0 <= v < n):
                bad.append("%s: adj[%d] has neighbour %d outside [0,%d)" % (ctx, u, v, n))
                continue
            if prev is not None and v <= prev:
                bad.append("%s: adj[%d] not strictly increasing (%d after %d)" % (ctx, u, v, prev))
            prev = v
            if v == u and vts is not None and u < len(vts) and vts[u] in "SB":
                bad.append("%s: self-loop on %s variable %d" % (ctx, vts[u], u))
            if v <= u:
                pairs += 1
            # symmetry with EQUAL bias
            back = [bb for (w, bb) in adj[v] if w == u]
            if not back:
                bad.append("%s: (%d,%d) in adj[%d] but %d not in adj[%d]" % (ctx, u, v, u, u, v))
            elif not any(bb == b or (bb != bb and b != b) for bb in back):
                bad.append("%s: bias mismatch (%d,%d): %s vs %s" % (ctx, u, v, b, back[0]))
        if u < len(q["deg"]) and q["deg"][u] != len(row):
            bad.append("%s: deg[%d]=%d but row has %d entries" % (ctx, u, q["deg"][u], len(row)))
    if q["ni"] != pairs:
        bad.append("%s: ni=%d but %d unordered pairs" % (ctx, q["ni"], pairs))
    if q["is_linear"] != all(not r for r in adj):
        bad.append("%s: is_linear=%s disagrees with the rows" % (ctx, q["is_linear"]))
    return bad


def _check_varinfo(vt, lb, ub, n, ctx, bqm=False):
    bad = []
    if not (len(vt) == len(lb) == len(ub) == n):
        bad.append("%s: vt/lb/ub lengths %d/%d/%d != n=%d" % (ctx, len(vt), len(lb), len(ub), n))
        return bad
    for v in range(n):
        t, l, u = vt[v], lb[v], ub[v]
        if t not in "SBIR":
            bad.append("%s: variable %d has vartype %r" % (ctx, v, t))
            continue
        if bqm and t not in "SB":
            bad.append("%s: bqm variable %d has vartype %s" % (ctx, v, t))
        if not l <= u:
            bad.append("%s: variable %d has lb %s > ub %s" % (ctx, v, l, u))
        if t == "S" and (l, u) != (-1, 1):
            bad.append("%s: SPIN variable %d has bounds (%s,%s)" % (ctx, v, l, u))
        if t == "B" and (l, u) != (0, 1):
            bad.append("%s: BINARY variable %d has bounds (%s,%s)" % (ctx, v, l, u))
        if t == "I" and not (-INT_MAX <= l and u <= INT_MAX):
            bad.append("%s: INTEGER variable %d bounds outside limits" % (ctx, v))
        if t == "R" and not (-REAL_MAX <= l and u <= REAL_MAX):
            bad.append("%s: REAL variable %d bounds outside limits" % (ctx, v))
    if bqm and len(set(vt)) > 1:
        bad.append("%s: bqm with mixed vartypes" % ctx)
    return bad


def _onehot(c, vt):
    if not c["is_linear"] or c["n"] < 2 or c["sense"] != "EQ" or c["off"] != 0:
        return False
    if any(not (0 <= g < len(vt)) or vt[g] != "B" for g in c["vars"]):
        return False
    return all(b == c["rhs"] for b in c["lin"])


def _check_expr(e, st, ctx):
    bad = []
    nv = st["nv"]
    vs = e["vars"]
    if len(set(vs)) != len(vs):
        bad.append("%s: duplicate labels in vars %s" % (ctx, vs))
    if any(not (0 <= g < nv) for g in vs):
        bad.append("%s: vars %s outside [0,%d)" % (ctx, vs, nv))
    if len(vs) != e["n"]:
        bad.append("%s: len(vars)=%d != n=%d" % (ctx, len(vs), e["n"]))
        vts = None
    elif any(not (0 <= g < nv) for g in vs) or len(st["vt"]) != nv:
        vts = None
    else:
        vts = [st["vt"][g] for g in vs]
    bad += _check_quad(e, vts, ctx)
    if "sense" in e:
        if e["soft"] != (e["weight"] != INF):
            bad.append("%s: soft=%s but weight=%s" % (ctx, e["soft"], e["weight"]))
        if len(st["vt"]) == nv and e["onehot"] != _onehot(e, st["vt"]):
            bad.append("%s: onehot=%s disagrees with the printed state" % (ctx, e["onehot"]))
        if e["sense"] not in ("LE", "GE", "EQ") or e["pen"] not in ("LINEAR", "QUADRATIC", "CONSTANT"):
            bad.append("%s: sense/penalty out of enum" % ctx)
    return bad


def check_invariants(st):
    """List of violated structural invariants of a parsed state (empty = fine)."""
    name = st["name"]
    if st["kind"] == "cqm":
        bad = _check_varinfo(st["vt"], st["lb"], st["ub"], st["nv"], name)
        bad += _check_expr(st["obj"], st, name + ".obj")
        for k, c in enumerate(st["cons"]):
            bad += _check_expr(c, st, "%s.cons[%d]" % (name, k))
        if st["pend"] is not None:
            bad += _check_expr(st["pend"], st, name + ".pend")
        return bad
    bad = _check_varinfo(st["vt"], st["lb"], st["ub"], st["n"], name, bqm=st["kind"] == "bqm")
    bad += _check_quad(st, st["vt"] if len(st["vt"]) == st["n"] else None, name)
    return bad


# ---------------------------------------------------------------------------
# helpers for the generator / oracle


def fmt(x):
    if isinstance(x, float):
        if x == INF:
            return "inf"
        if x == -INF:
            return "-inf"
        return x.hex()
    x = F(x)
    if abs(x.numerator) < 2 ** 40 and x.denominator < 2 ** 40:
        return str(x.numerator) if x.denominator == 1 else "%d/%d" % (x.numerator, x.denominator)
    return float(x).hex()


def ilist(xs):
    xs = list(xs)
    return ",".join(str(x) for x in xs) if xs else "-"


def dlist(xs):
    xs = list(xs)
    return ",".join(fmt(x) for x in xs) if xs else "-"


VT_NAME = {"S": "SPIN", "B": "BINARY", "I": "INTEGER", "R": "REAL"}
SCALES = [F(-2), F(-1), F(1, 2), F(2), F(3, 2), F(0)]
FIXVALS = [F(-1), F(0), F(1), F(1, 2), F(2), F(-3, 2), F(3)]
MULTS = [F(2), F(1, 2), F(-1), F(0), F(1), F(3, 2)]
OFFS = [F(-1), F(1, 2), F(0), F(1), F(-1, 2)]
THRS = [F(0), F(1, 8), F(1, 2), F(1), F(4)]
MAXN = 7


def quad_energy(q, sample):
    e = q["off"]
    for v, b in enumerate(q["lin"]):
        e += b * sample[v]
    for u, row in enumerate(q["adj"]):
        for v, b in row:
            if v <= u:
                e += b * sample[u] * sample[v]
    return e


def quad_scale(q):
    s = abs(q["off"]) + sum(abs(b) for b in q["lin"])
    for row in q["adj"]:
        s += sum(abs(b) for _, b in row)
    return s


def strip(st):
    """State without the slot name (for copy/move/swap comparisons)."""
    d = dict(st)
    d.pop("name", None)
    if d.get("kind") == "cqm":
        d["pend"] = None
    return d


def models_equal(a, b):
    """What QuadraticModelBase::is_equal is documented to test (bounds are not compared)."""
    return (a["n"] == b["n"] and a["off"] == b["off"] and a["lin"] == b["lin"] and a["vt"] == b["vt"]
            and a["adj"] == b["adj"])


def aqb_ok(adj, vts, u, v, strict=True):
    """add_quadratic_back(u, v) precondition on LOCAL indices.  The header says: undefined when
    u is less than the largest neighbour of v, or v less than the largest neighbour of u (its
    assert is `back().v <= u`).  With strict=True we additionally refuse `==`, i.e. appending an
    interaction that already exists (which the documented condition literally allows but which
    creates a duplicate entry) -- see NOTES.md."""
    lu = adj[u][-1][0] if adj[u] else None
    lv = adj[v][-1][0] if adj[v] else None
    if u == v:
        if lu is None:
            return True
        if vts[u] in "SB":
            return lu <= u  # nothing is appended in this case
        return lu < u if strict else lu <= u
    if strict:
        return (lu is None or lu < v) and (lv is None or lv < u)
    return (lu is None or lu <= v) and (lv is None or lv <= u)


class Gen:
    """Interactive generator: looks at the last parsed states to choose the next VALID op."""

    def __init__(self, rng, kind, avoid=()):
        self.rng = rng
        self.kind = kind
        self.avoid = set(avoid)
        self.st = {}  # slot name -> parsed state
        self.queue = collections.deque()
        self.wptr = False

    # -- small random helpers
    def bias(self):
        return F(self.rng.randint(-16, 16), 8)

    def nzbias(self):
        b = self.bias()
        return b if b else F(1, 8)

    def ch(self, xs):
        return self.rng.choice(list(xs))

    def weighted(self, table):
        names = [t[0] for t in table]
        weights = [t[1] for t in table]
        return self.rng.choices(names, weights)[0]

    def bounds_for(self, t):
        r = self.rng
        if t == "S":
            return F(-1), F(1)
        if t == "B":
            return F(0), F(1)
        if t == "I":
            lo = F(r.randint(-4, 3))
            return lo, lo + r.randint(0, 6)
        lo = F(r.randint(-32, 24), 8)
        return lo, lo + F(r.randint(0, 48), 8)

    def sample_for(self, vts, lbs, ubs):
        out = []
        for t, l, u in zip(vts, lbs, ubs):
            if t == "S":
                out.append(self.ch([F(-1), F(1)]))
            elif t == "B":
                out.append(self.ch([F(0), F(1)]))
            elif t == "I":
                out.append(F(self.rng.randint(-3, 3)))
            else:
                out.append(F(self.rng.randint(-12, 12), 4))
        return out

    def start_ops(self):
        """Ops that (re)initialise every slot the sequence will look at."""
        ops = []
        if self.kind == "bqm":
            ops += ["new b%d %s" % (i, self.ch(["SPIN", "BINARY"])) for i in range(4)]
        elif self.kind == "qm":
            ops += ["new q%d" % i for i in range(4)]
            ops += ["new b%d %s %d" % (i, self.ch(["SPIN", "BINARY"]), self.rng.randint(0, 3)) for i in range(2)]
        else:
            ops += ["new c0", "new c1"]
            ops += ["new q%d" % i for i in range(2)]
            ops += ["new b%d %s" % (i, self.ch(["SPIN", "BINARY"])) for i in range(2)]
        return ops

    def next_op(self):
        if self.queue:
            return self.queue.popleft()
        for _ in range(200):
            op = self._try()
            if op is None:
                continue
            if isinstance(op, list):
                self.queue.extend(op[1:])
                return op[0]
            return op
        return "q " + {"bqm": "b0", "qm": "q0", "cqm": "c0"}[self.kind]

    def _try(self):
        r = self.rng
        if self.kind == "bqm":
            return self.model_op("b%d" % self.ch([0, 0, 0, 1, 1, 2, 3]), ["b%d" % i for i in range(4)])
        if self.kind == "qm":
            if r.random() < 0.08:
                return self.model_op("b%d" % r.randint(0, 1), ["b0", "b1"])
            return self.model_op("q%d" % self.ch([0, 0, 0, 1, 1, 2, 3]), ["q%d" % i for i in range(4)])
        x = r.random()
        if x < 0.06:
            return self.model_op("q%d" % r.randint(0, 1), ["q0", "q1"])
        if x < 0.10:
            return self.model_op("b%d" % r.randint(0, 1), ["b0", "b1"])
        return self.cqm_op("c%d" % self.ch([0, 0, 0, 1]))

    # -- BQM / QM ---------------------------------------------------------

    def model_op(self, X, peers):
        r = self.rng
        s = self.st[X]
        isq = s["kind"] == "qm"
        n = s["n"]
        vts = s["vt"]
        adj = s["adj"]
        table = [
            ("new", 2), ("adddense", 3), ("coo", 4), ("addvar", 7 if n < 4 else 3), ("al", 4), ("sl", 3),
            ("ao", 2), ("so", 1), ("aq", 10), ("sq", 6), ("aqb", 6), ("ri", 6), ("rif", 3), ("rv", 5),
            ("rvs", 5), ("rs", 4), ("sc", 3), ("fx", 4), ("sv", 3), ("svs", 2), ("cv", 3), ("clear", 1),
            ("copy", 3), ("cctor", 3), ("move", 3), ("mctor", 2), ("swap", 3), ("energy", 3), ("eq", 2),
            ("q", 1), ("sll", 2), ("aqil", 2), ("zipsort", 1),
        ]
        if isq:
            table += [("addvars", 3), ("rsv", 4), ("slb", 2), ("sup", 2), ("svt", 1), ("qmfrombqm", 2),
                      ("qmfrombqmf", 1), ("rsgrow", 1)]
        else:
            table += [("dense", 3)]
        op = self.weighted(table)
        others = [p for p in peers if p != X]

        def anyvar():
            return r.randrange(n)

        if op == "zipsort":
            k = r.randint(0, 12)
            return "zipsort %s %s" % (ilist(r.randint(-3, 6) for _ in range(k)), dlist(self.bias() for _ in range(k)))
        if op == "aqil":
            k = r.randint(0, 3) if n else 0
            rows = [r.randrange(n) for _ in range(k)]
            cols = [r.randrange(n) for _ in range(k)]
            return "aqil %s %s %s %s" % (X, ilist(rows), ilist(cols), dlist(self.bias() for _ in range(k)))
        if op == "new":
            if isq:
                return "new %s" % X
            if r.random() < 0.15:
                return "new %s" % X  # default ctor
            if r.random() < 0.5:
                return "new %s %s" % (X, self.ch(["SPIN", "BINARY"]))
            return "new %s %s %d" % (X, self.ch(["SPIN", "BINARY"]), r.randint(0, 5))
        if op == "dense":
            k = r.randint(0, 4)
            vals = [self.bias() if r.random() < 0.6 else F(0) for _ in range(k * k)]
            return ("dense %s %s %d %s" % (X, self.ch(["SPIN", "BINARY"]), k, " ".join(map(fmt, vals)))).rstrip()
        if op == "adddense":
            k = r.randint(0, min(n, 4))
            vals = [self.bias() if r.random() < 0.6 else F(0) for _ in range(k * k)]
            return ("adddense %s %d %s" % (X, k, " ".join(map(fmt, vals)))).rstrip()
        if op == "coo":
            hi = MAXN if not isq else n - 1  # the BQM overload resizes itself; QM needs in-range labels
            if hi < 0:
                return "coo %s 0 - - -" % X
            ln = r.randint(0, 5)
            rows = [r.randint(0, hi) for _ in range(ln)]
            cols = [r.randint(0, hi) for _ in range(ln)]
            return "coo %s %d %s %s %s" % (X, ln, ilist(rows), ilist(cols), dlist(self.bias() for _ in range(ln)))
        if op == "addvar":
            if n > MAXN:
                return None
            if not isq:
                return "addvar %s" % X
            t = self.ch("SBIIRR")
            if r.random() < 0.4:
                return "addvar %s %s" % (X, VT_NAME[t])
            lo, hi = self.bounds_for(t)
            return "addvar %s %s %s %s" % (X, VT_NAME[t], fmt(lo), fmt(hi))
        if op == "addvars":
            k = r.randint(0, 3)
            if n + k > MAXN + 1:
                return None
            t = self.ch("SBIR")
            if r.random() < 0.5:
                return "addvars %s %s %d" % (X, VT_NAME[t], k)
            lo, hi = self.bounds_for(t)
            return "addvars %s %s %d %s %s" % (X, VT_NAME[t], k, fmt(lo), fmt(hi))
        if op in ("ao", "so"):
            return "%s %s %s" % (op, X, fmt(self.bias()))
        if op == "svs":
            return "svs %s %s %s" % (X, fmt(self.ch(MULTS)), fmt(self.ch(OFFS)))
        if op == "sc":
            return "sc %s %s" % (X, fmt(self.ch(SCALES)))
        if op == "rif":
            thr = self.ch(THRS)
            if "rif_selfloop" in self.avoid:
                # known finding F1: an odd number of removed self-loops trips assert(num_removed % 2 == 0)
                if any(v == u and abs(b) <= thr for u, row in enumerate(adj) for v, b in row):
                    return None
            return "rif %s %s" % (X, fmt(thr))
        if op == "clear":
            return "clear %s" % X
        if op == "q":
            return "q %s" % X
        if op == "rs":
            k = r.randint(0, n if isq else MAXN)  # QM::resize(n) is the shrinking form
            return "rs %s %d" % (X, k)
        if op == "rsgrow":
            # documented std::logic_error, no state change expected
            return "rs %s %d" % (X, n + r.randint(1, 2))
        if op == "rsv":
            t = self.ch("SB")
            if r.random() < 0.5:
                # resize(n, vartype): header says the vartype must be BINARY or SPIN
                return "rsv %s %d %s" % (X, r.randint(0, MAXN), VT_NAME[t])
            # resize(n, vartype, lb, ub) asserts n > 0
            t = self.ch("SBIR")
            lo, hi = self.bounds_for(t)
            return "rsv %s %d %s %s %s" % (X, r.randint(1, MAXN), VT_NAME[t], fmt(lo), fmt(hi))
        if op in ("copy", "cctor"):
            Y = self.ch(peers)
            return "%s %s %s" % (op, X, Y)
        if op in ("move", "mctor", "swap"):
            if not others:
                return None
            return "%s %s %s" % (op, X, self.ch(others))
        if op == "eq":
            pool = [p for p in self.st if p[0] in "bq"]
            return "eq %s %s" % (X, self.ch(pool))
        if op in ("qmfrombqm", "qmfrombqmf"):
            src = [p for p in self.st if p[0] == "b"]
            if not src:
                return None
            Y = self.ch(src)
            if op == "qmfrombqmf" and self.st[Y]["n"] == 0 and "qmfrombqmf_empty" in self.avoid:
                return None  # known finding F2
            return "%s %s %s" % (op, X, Y)
        if op == "cv":
            if not isq:
                t = self.ch(["SPIN", "BINARY", "SPIN", "BINARY", "SPIN", "BINARY", "INTEGER", "REAL"])
                return "cv %s %s" % (X, t)
            if n == 0:
                return None
            return "cv %s %s %d" % (X, VT_NAME[self.ch("SBSBSBIIR")], anyvar())

        # everything below needs at least one variable
        if n == 0:
            return None
        if op in ("al", "sl"):
            return "%s %s %d %s" % (op, X, anyvar(), fmt(self.bias()))
        if op == "sll":
            v = anyvar()
            k = r.randint(0, min(3, n - v))  # asserts v < n and v + len <= n
            return "sll %s %d %s" % (X, v, dlist(self.bias() for _ in range(k)))
        if op == "aq":
            u = anyvar()
            v = u if r.random() < 0.2 else anyvar()
            return "aq %s %d %d %s" % (X, u, v, fmt(self.bias()))
        if op == "sq":
            u = anyvar()
            v = u if r.random() < 0.25 else anyvar()
            if u == v and vts[u] in "SB":
                return None  # documented domain_error; the task says never
            return "sq %s %d %d %s" % (X, u, v, fmt(self.bias()))
        if op == "aqb":
            strict = "aqb_equal_allowed" not in self.avoid
            cands = [(u, v) for u in range(n) for v in range(n) if aqb_ok(adj, vts, u, v, strict)]
            if not cands:
                return None
            u, v = self.ch(cands)
            return "aqb %s %d %d %s" % (X, u, v, fmt(self.bias()))
        if op == "ri":
            u = anyvar()
            v = u if r.random() < 0.15 else anyvar()
            if adj[u] and r.random() < 0.6:
                v = self.ch(adj[u])[0]
            return "ri %s %d %d" % (X, u, v)
        if op == "rv":
            return "rv %s %d" % (X, anyvar())
        if op == "rvs":
            k = r.randint(0, n)
            vs = r.sample(range(n), k)  # distinct, unsorted
            return "rvs %s %s" % (X, ilist(vs))
        if op == "fx":
            v = anyvar()
            t = vts[v]
            a = self.ch([F(-1), F(1)]) if t == "S" else self.ch([F(0), F(1)]) if t == "B" else self.ch(FIXVALS)
            if r.random() < 0.2:
                a = self.ch(FIXVALS)
            return "fx %s %d %s" % (X, v, fmt(a))
        if op == "sv":
            return "sv %s %d %s %s" % (X, anyvar(), fmt(self.ch(MULTS)), fmt(self.ch(OFFS)))
        if op == "energy":
            return "energy %s %s" % (X, dlist(self.sample_for(vts, s["lb"], s["ub"])))
        if op in ("slb", "sup"):
            cands = [v for v in range(n) if vts[v] in "IR"]
            if not cands:
                return None
            v = self.ch(cands)
            if op == "slb":
                hi = s["ub"][v]
                x = hi - r.randint(0, 5) if vts[v] == "I" else hi - F(r.randint(0, 40), 8)
                x = max(x, -INT_MAX if vts[v] == "I" else -REAL_MAX)
                if vts[v] == "I" and x.denominator != 1:
                    x = F(x.numerator // x.denominator)
                    if x > hi:
                        return None
            else:
                lo = s["lb"][v]
                x = lo + r.randint(0, 5) if vts[v] == "I" else lo + F(r.randint(0, 40), 8)
                x = min(x, INT_MAX if vts[v] == "I" else REAL_MAX)
                if vts[v] == "I" and x.denominator != 1:
                    x = F(-((-x.numerator) // x.denominator))
                    if x < lo:
                        return None
            return "%s %s %d %s" % (op, X, v, fmt(x))
        if op == "svt":
            # set_vartype() touches nothing but the label: only use it where label, bounds and
            # self-loops stay coherent (towards INTEGER / REAL)
            v = anyvar()
            tgt = {"S": "IR", "B": "IR", "I": "R", "R": "R"}[vts[v]]
            return "svt %s %d %s" % (X, v, VT_NAME[self.ch(tgt)])
        return None

    # -- CQM --------------------------------------------------------------

    def expr_op(self, prefix, head, e, st, is_cons):
        """One op on an expression.  prefix in 'okp'; head = tokens after the op name."""
        r = self.rng
        nv = st["nv"]
        vts = st["vt"]
        vars_ = e["vars"]
        table = [("al", 8), ("sl", 4), ("aq", 10), ("sq", 6), ("aqb", 5), ("ao", 2), ("so", 1), ("ri", 5),
                 ("rif", 2), ("rv", 5), ("rvs", 3), ("rvsit", 2), ("sc", 2), ("fx", 3), ("sv", 3), ("svs", 1),
                 ("clear", 1), ("energy", 2)]
        if is_cons:
            table += [("sense", 2), ("rhs", 3), ("weight", 2), ("pen", 1), ("disc", 2)]
        eop = self.weighted(table)
        name = prefix + eop

        def out(*args):
            return " ".join([name, head] + [str(a) for a in args])

        def gvar(prefer_present=0.5):
            if vars_ and r.random() < prefer_present:
                return self.ch(vars_)
            return r.randrange(nv)

        if eop in ("ao", "so"):
            return out(fmt(self.bias()))
        if eop == "rif":
            thr = self.ch(THRS)
            if "rif_selfloop" in self.avoid:
                if any(v == u and abs(b) <= thr for u, row in enumerate(e["adj"]) for v, b in row):
                    return None
            return out(fmt(thr))
        if eop == "sc":
            return out(fmt(self.ch(SCALES)))
        if eop == "svs":
            return out(fmt(self.ch(MULTS)), fmt(self.ch(OFFS)))
        if eop == "clear":
            return out()
        if eop == "sense":
            return out(self.ch(["LE", "GE", "EQ"]))
        if eop == "rhs":
            return out(fmt(self.bias()))
        if eop == "weight":
            return out(self.ch(["inf", "1", "1/2", "3", "0"]))
        if eop == "pen":
            return out(self.ch(["LINEAR", "QUADRATIC", "CONSTANT"]))
        if eop == "disc":
            return out(r.randint(0, 1))
        if eop in ("rvs", "rvsit"):
            k = r.randint(0, min(nv, 4))
            return out(ilist(r.sample(range(nv), k)))
        if eop == "energy":
            return out(dlist(self.sample_for(vts, st["lb"], st["ub"])))
        if nv == 0:
            return None
        if eop in ("al", "sl"):
            return out(gvar(), fmt(self.bias()))
        if eop == "aq":
            u = gvar()
            v = u if r.random() < 0.15 else gvar()
            return out(u, v, fmt(self.bias()))
        if eop == "sq":
            u = gvar()
            v = u if r.random() < 0.25 else gvar()
            if u == v and vts[u] in "SB":
                return None
            return out(u, v, fmt(self.bias()))
        if eop == "aqb":
            u = gvar(0.7)
            v = u if r.random() < 0.15 else gvar(0.7)
            if u in vars_ and v in vars_:
                lu, lv = vars_.index(u), vars_.index(v)
                lvts = [vts[g] for g in vars_]
                if not aqb_ok(e["adj"], lvts, lu, lv, "aqb_equal_allowed" not in self.avoid):
                    return None
            # else: a new label gets the largest local index and an empty neighbourhood, so the
            # ordering condition holds whichever of the two arguments is evaluated first
            return out(u, v, fmt(self.bias()))
        if eop == "ri":
            return out(gvar(0.8), gvar(0.8))
        if eop == "rv":
            return out(gvar(0.7))
        if eop == "fx":
            return out(gvar(0.7), fmt(self.ch(FIXVALS)))
        if eop == "sv":
            return out(gvar(0.7), fmt(self.ch(MULTS)), fmt(self.ch(OFFS)))
        return None

    def find_mapping(self, src, st):
        """Injective mapping source variable -> cqm variable with equal vartype and bounds."""
        used = set()
        mapping = []
        order = list(range(st["nv"]))
        self.rng.shuffle(order)
        for i in range(src["n"]):
            sig = (src["vt"][i], src["lb"][i], src["ub"][i])
            for g in order:
                if g not in used and (st["vt"][g], st["lb"][g], st["ub"][g]) == sig:
                    used.add(g)
                    mapping.append(g)
                    break
            else:
                return None
        return mapping

    def build_source(self, Y, sigs):
        """Ops that build a fresh model in slot Y whose variables have the given (vt, lb, ub)."""
        r = self.rng
        ops = []
        n = len(sigs)
        if Y[0] == "b":
            ops.append("new %s %s %d" % (Y, VT_NAME[sigs[0][0]] if sigs else self.ch(["SPIN", "BINARY"]), n))
        else:
            ops.append("new %s" % Y)
            for t, lo, hi in sigs:
                ops.append("addvar %s %s %s %s" % (Y, VT_NAME[t], fmt(lo), fmt(hi)))
        for _ in range(r.randint(0, 4) if n else 0):
            k = r.random()
            if k < 0.3:
                ops.append("al %s %d %s" % (Y, r.randrange(n), fmt(self.nzbias())))
            else:
                u = r.randrange(n)
                v = u if r.random() < 0.2 else r.randrange(n)
                ops.append("aq %s %d %d %s" % (Y, u, v, fmt(self.nzbias())))
        if r.random() < 0.4:
            ops.append("ao %s %s" % (Y, fmt(self.bias())))
        return ops

    def cqm_op(self, Cn):
        r = self.rng
        st = self.st[Cn]
        other = "c1" if Cn == "c0" else "c0"
        nv = st["nv"]
        vts = st["vt"]
        nc = len(st["cons"])

        if st["pend"] is not None:
            # a detached constraint exists: only edit it or commit it (any other op drops it)
            x = r.random()
            if x < 0.55:
                return self.expr_op("p", Cn, st["pend"], st, True)
            if x < 0.80:
                return "kcommit %s" % Cn
            if x < 0.88:
                return "kcommitcopy %s" % Cn
            if x < 0.94:
                return "kcommitx %s %s" % (Cn, other)
            # fall through: drop it by doing something else

        table = [
            ("caddvar", 12 if nv < 4 else 3), ("caddvars", 3), ("obj", 45), ("cons", 50 if nc else 0),
            ("kadd", 5 if nc < 3 else 2), ("kadds", 1), ("klin", 4), ("knew", 4), ("kfrom", 2), ("kfrommv", 2),
            ("krm", 3 if nc else 0), ("krmif", 1), ("crv", 5), ("cfx", 4), ("cfxs", 3), ("csv", 3), ("ccv", 3),
            ("cslb", 1), ("csup", 1), ("csvt", 1), ("clear", 1), ("copy", 3), ("cctor", 3), ("move", 2),
            ("mctor", 2), ("swap", 2), ("adlswap", 2), ("setobj", 2), ("setobjm", 2), ("cenergy", 2),
            ("wptr", 1 if nc else 0), ("wchk", 1 if self.wptr else 0), ("q", 1),
            ("kassign", 2 if nc else 0), ("kswap", 2 if nc >= 2 else 0), ("oassign", 1 if nc else 0),
            ("kassignobj", 1 if nc else 0), ("scen", 6),
        ]
        op = self.weighted(table)

        if op == "scen":
            # a scripted source state followed at once by an operation that BUILDS A NEW native model / expression from it
            # (copying fix_variables, copy construction / assignment of models and of expressions): an expression in which
            # >= 3 variables interact, the interactions entered in random order and orientation, non-zero linear biases on
            # a random subset entered before / between / after them (so variables with a zero linear bias precede and follow
            # variables with a non-zero one in the expression's own order).  The printed state of the result is checked like
            # every state (sorted, symmetric, lookups = iteration, counts), and the following random ops edit it.
            ops, n = [], nv
            while n < 4 and n <= MAXN:
                ops.append("caddvar %s %s" % (Cn, VT_NAME[self.ch("BBIS")])); n += 1
            cand = [i for i in range(nv) if vts[i] != "R"] + list(range(nv, n))
            if len(cand) < 3:
                return None
            vs = r.sample(cand, min(len(cand), r.randint(3, 5)))
            rest = [i for i in range(n) if i not in vs]
            if nc and r.random() < 0.5:
                c = r.randrange(nc); pre, head = "k", "%s %d" % (Cn, c)
            else:
                c = None; pre, head = "o", Cn
            ops.append("%sclear %s" % (pre, head))
            pairs = [(u, v) for i, u in enumerate(vs) for v in vs[i + 1:]]
            r.shuffle(pairs)
            pairs = pairs[:max(3, r.randint(2, len(pairs)))]
            body = ["%saq %s %d %d %s" % ((pre, head) + (p if r.random() < 0.5 else p[::-1]) + (fmt(self.nzbias()),)) for p in pairs]
            lins = ["%sal %s %d %s" % (pre, head, v, fmt(self.nzbias())) for v in r.sample(vs, r.randint(1, len(vs) - 1))]
            for ln in lins:
                body.insert(r.randint(0, len(body)), ln)
            ops += body
            fixed = r.sample(rest, r.randint(0, len(rest))) if r.random() < 0.7 else r.sample(range(n), r.randint(0, max(0, n - 3)))
            dst = Cn if r.random() < 0.6 else other
            builder = self.weighted([("cfxs", 10), ("copy", 2), ("cctor", 2), ("obj2k", 2 if nc else 0), ("k2obj", 2 if nc else 0)])
            if builder == "cfxs":
                ops.append("cfxs %s %s %s %s" % (Cn, dst, ilist(fixed), dlist(self.ch(FIXVALS) for _ in fixed)))
            elif builder in ("copy", "cctor"):
                ops.append("%s %s %s" % (builder, other, Cn))
            elif builder == "obj2k":
                ops.append("kassignobj %s %d" % (Cn, r.randrange(nc)))
            else:
                ops.append("oassign %s %d" % (Cn, r.randrange(nc)))
            return ops

        if op == "caddvar":
            if nv > MAXN:
                return None
            t = self.ch("SBBIIR")
            if r.random() < 0.5:
                return "caddvar %s %s" % (Cn, VT_NAME[t])
            lo, hi = self.bounds_for(t)
            return "caddvar %s %s %s %s" % (Cn, VT_NAME[t], fmt(lo), fmt(hi))
        if op == "caddvars":
            k = r.randint(0, 3)
            if nv + k > MAXN + 1:
                return None
            t = self.ch("SBIR")
            if r.random() < 0.5:
                return "caddvars %s %s %d" % (Cn, VT_NAME[t], k)
            lo, hi = self.bounds_for(t)
            return "caddvars %s %s %d %s %s" % (Cn, VT_NAME[t], k, fmt(lo), fmt(hi))
        if op == "obj":
            return self.expr_op("o", Cn, st["obj"], st, False)
        if op == "cons":
            c = r.randrange(nc)
            return self.expr_op("k", "%s %d" % (Cn, c), st["cons"][c], st, True)
        if op == "kadd":
            return "kadd %s" % Cn if nc < 6 else None
        if op == "kadds":
            return "kadds %s %d" % (Cn, r.randint(0, 2)) if nc < 5 else None
        if op == "klin":
            if nc >= 6:
                return None
            k = r.randint(0, min(4, nv)) if nv else 0
            vs = [r.randrange(nv) for _ in range(k)]  # repeats are fine: add_linear accumulates
            return "klin %s %s %s %s %s" % (Cn, self.ch(["LE", "GE", "EQ"]), fmt(self.bias()), ilist(vs),
                                              dlist(self.nzbias() for _ in vs))
        if op == "knew":
            return "knew %s" % Cn if nc < 6 else None
        if op in ("kfrom", "kfrommv", "setobjm"):
            if op != "setobjm" and nc >= 6:
                return None
            tail = (lambda Y, m: "setobjm %s %s %s" % (Cn, Y, ilist(m))) if op == "setobjm" else (
                lambda Y, m: "%s %s %s %s %s %s" % (op, Cn, Y, self.ch(["LE", "GE", "EQ"]), fmt(self.bias()), ilist(m)))
            # an existing source slot that happens to be compatible ...
            if r.random() < 0.4:
                pool = [p for p in self.st if p[0] in "bq"]
                r.shuffle(pool)
                for Y in pool:
                    m = self.find_mapping(self.st[Y], st)
                    if m is not None:
                        return tail(Y, m)
            # ... or build one that mirrors k distinct cqm variables
            k = r.randint(0, min(nv, 4))
            targets = r.sample(range(nv), k)
            usebqm = r.random() < 0.4
            if usebqm:
                t = self.ch("SB")
                targets = [g for g in targets if vts[g] == t]
                Y = "b%d" % r.randint(0, 1)
                sigs = [(t,) + self.bounds_for(t) for _ in targets]
                ops = self.build_source(Y, sigs) if targets else ["new %s %s 0" % (Y, VT_NAME[t])]
            else:
                Y = "q%d" % r.randint(0, 1)
                sigs = [(vts[g], st["lb"][g], st["ub"][g]) for g in targets]
                ops = self.build_source(Y, sigs)
            return ops + [tail(Y, targets)]
        if op == "setobj":
            # set_objective(model): variables i < nv must match; the rest are appended to the cqm
            n = r.randint(0, min(nv + 2, MAXN + 1))
            if r.random() < 0.3:
                t = self.ch("SB")
                if any(vts[i] != t for i in range(min(n, nv))):
                    return None
                Y = "b%d" % r.randint(0, 1)
                ops = self.build_source(Y, [(t,) + self.bounds_for(t) for _ in range(n)])
                if n == 0:
                    ops = ["new %s %s 0" % (Y, VT_NAME[t])]
            else:
                Y = "q%d" % r.randint(0, 1)
                sigs = [(vts[i], st["lb"][i], st["ub"][i]) for i in range(min(n, nv))]
                for _ in range(n - len(sigs)):
                    t = self.ch("SBIR")
                    sigs.append((t,) + self.bounds_for(t))
                ops = self.build_source(Y, sigs)
            return ops + ["setobj %s %s" % (Cn, Y)]
        if op == "krm":
            return "krm %s %d" % (Cn, r.randrange(nc))
        if op == "kassign":
            return "kassign %s %d %d" % (Cn, r.randrange(nc), r.randrange(nc))  # i == j: self-assignment
        if op == "kswap":
            i, j = r.sample(range(nc), 2)
            return "kswap %s %d %d" % (Cn, i, j)
        if op in ("oassign", "kassignobj"):
            return "%s %s %d" % (op, Cn, r.randrange(nc))
        if op == "krmif":
            return "krmif %s %s" % (Cn, fmt(self.bias()))
        if op == "clear":
            return "clear %s" % Cn
        if op == "q":
            return "q %s" % Cn
        if op in ("copy", "cctor"):
            return "%s %s %s" % (op, Cn, self.ch([Cn, other, other]))
        if op in ("move", "mctor", "swap", "adlswap"):
            return "%s %s %s" % (op, Cn, other)
        if op == "cenergy":
            return "cenergy %s %s" % (Cn, dlist(self.sample_for(vts, st["lb"], st["ub"])))
        if op == "wptr":
            self.wptr = True
            return "wptr %s %d" % (Cn, r.randrange(nc))
        if op == "wchk":
            return "wchk"
        if op == "cfxs":
            k = r.randint(0, nv)
            vs = r.sample(range(nv), k)
            return "cfxs %s %s %s %s" % (Cn, self.ch([Cn, other]), ilist(vs), dlist(self.ch(FIXVALS) for _ in vs))
        if nv == 0:
            return None
        v = r.randrange(nv)
        if op == "crv":
            return "crv %s %d" % (Cn, v)
        if op == "cfx":
            return "cfx %s %d %s" % (Cn, v, fmt(self.ch(FIXVALS)))
        if op == "csv":
            return "csv %s %d %s %s" % (Cn, v, fmt(self.ch(MULTS)), fmt(self.ch(OFFS)))
        if op == "ccv":
            return "ccv %s %s %d" % (Cn, VT_NAME[self.ch("SBSBSBIIR")], v)
        if op in ("cslb", "csup"):
            cands = [g for g in range(nv) if vts[g] in "IR"]
            if not cands:
                return None
            g = self.ch(cands)
            if op == "cslb":
                x = st["ub"][g] - (r.randint(0, 5) if vts[g] == "I" else F(r.randint(0, 40), 8))
                if vts[g] == "I" and x.denominator != 1:
                    return None
                if x < (-INT_MAX if vts[g] == "I" else -REAL_MAX):
                    return None
            else:
                x = st["lb"][g] + (r.randint(0, 5) if vts[g] == "I" else F(r.randint(0, 40), 8))
                if vts[g] == "I" and x.denominator != 1:
                    return None
                if x > (INT_MAX if vts[g] == "I" else REAL_MAX):
                    return None
            return "%s %s %d %s" % (op, Cn, g, fmt(x))
        if op == "csvt":
            tgt = {"S": "IR", "B": "IR", "I": "R", "R": "R"}[vts[v]]
            return "csvt %s %d %s" % (Cn, v, VT_NAME[self.ch(tgt)])
        return None


# ---------------------------------------------------------------------------
# light oracle on top of the structural checks

EXPECTED_EXC = {
    # op -> substring of what()
    "cv": "unsupported vartype",
    "ccv": "unsupported vartype change",
    "rs": "n must be smaller than the number of variables",
    "kcommitx": "different parent",
}


def _close(got_hex, want, scale):
    got = hexnum(got_hex)
    if isinstance(got, float):
        return False
    return abs(got - want) <= F(1, 10 ** 9) * max(F(1), scale)


def post_check(op_line, before, reply):
    """Cheap semantic checks that need no model of the library (copies, moves, swaps,
    returned values, energies, documented exceptions)."""
    bad = []
    t = op_line.split()
    op = t[0]
    after = reply["states"]

    if reply["status"] == "exc":
        want = EXPECTED_EXC.get(op)
        if want is None or want not in reply["what"]:
            bad.append("unexpected exception: %s" % reply["what"])
        else:
            for name, st in after.items():
                if name in before and strip(before[name]) != strip(st):
                    bad.append("state of %s changed although %s threw" % (name, op))
        return bad
    if op == "kcommitx":
        bad.append("kcommitx did not throw")

    X = t[1] if len(t) > 1 else None
    if op in ("copy", "cctor"):
        Y = t[2]
        if strip(after[X]) != strip(before[Y]):
            bad.append("%s: %s differs from the source %s" % (op, X, Y))
        if Y != X and strip(after[Y]) != strip(before[Y]):
            bad.append("%s: source %s changed" % (op, Y))
    elif op in ("move", "mctor"):
        Y = t[2]
        if strip(after[X]) != strip(before[Y]):
            bad.append("%s: %s differs from the old %s" % (op, X, Y))
    elif op in ("swap", "adlswap"):
        Y = t[2]
        if strip(after[X]) != strip(before[Y]) or strip(after[Y]) != strip(before[X]):
            bad.append("%s: contents not exchanged" % op)
    elif op in ("qmfrombqm", "qmfrombqmf"):
        Y = t[2]
        a, b = after[X], before[Y]
        exact = op == "qmfrombqm"
        if not (a["n"] == b["n"] and a["vt"] == b["vt"] and a["lb"] == b["lb"] and a["ub"] == b["ub"]
                and [[v for v, _ in row] for row in a["adj"]] == [[v for v, _ in row] for row in b["adj"]]):
            bad.append("%s: structure differs from the source" % op)
        if exact and not models_equal(a, b):
            bad.append("qmfrombqm: biases differ from the source")
    elif op == "eq":
        Y = t[2]
        if (reply["ret"] == "1") != models_equal(before[X], before[Y]):
            bad.append("is_equal returned %s" % reply["ret"])
    elif op == "ri":
        u, v = int(t[2]), int(t[3])
        present = any(w == v for w, _ in before[X]["adj"][u])
        if (reply["ret"] == "1") != present:
            bad.append("remove_interaction returned %s, presence was %s" % (reply["ret"], present))
    elif op == "rif":
        thr = F(t[2])
        want = sum(1 for u, row in enumerate(before[X]["adj"]) for v, b in row if v <= u and abs(b) <= thr)
        if int(reply["ret"]) != want:
            bad.append("remove_interactions returned %s, expected %d" % (reply["ret"], want))
    elif op == "energy":
        sample = [F(x) for x in t[2].split(",")] if t[2] != "-" else []
        want = quad_energy(before[X], sample)
        if not _close(reply["ret"], want, quad_scale(before[X]) * max([1] + [abs(x) for x in sample]) ** 2):
            bad.append("energy returned %s, expected %s" % (reply["ret"], want))
    elif op == "cenergy":
        sample = [F(x) for x in t[2].split(",")] if t[2] != "-" else []
        got = reply["ret"].split(",")
        exprs = [before[X]["obj"]] + before[X]["cons"]
        for g, e in zip(got, exprs):
            want = quad_energy(e, [sample[v] for v in e["vars"]])
            if not _close(g, want, quad_scale(e) * max([1] + [abs(x) for x in sample]) ** 2):
                bad.append("expression energy returned %s, expected %s" % (g, want))
    elif op == "zipsort":
        ctrl = [int(x) for x in t[1].split(",")] if t[1] != "-" else []
        resp = [F(x) for x in t[2].split(",")] if t[2] != "-" else []
        gc, gr = reply["ret"].split(" ")
        gc = [int(x) for x in gc.split(",")] if gc != "-" else []
        gr = [hexnum(x) for x in gr.split(",")] if gr != "-" else []
        if gc != sorted(gc) or sorted(zip(gc, gr)) != sorted(zip(ctrl, resp)):
            bad.append("zip_sort returned %s" % reply["ret"])
    elif op == "kassign":
        i, j = int(t[2]), int(t[3])
        want = list(before[X]["cons"])
        want[i] = want[j]
        if after[X]["cons"] != want:
            bad.append("constraint assignment: unexpected constraints afterwards")
    elif op == "kswap":
        i, j = int(t[2]), int(t[3])
        want = list(before[X]["cons"])
        want[i], want[j] = want[j], want[i]
        if after[X]["cons"] != want:
            bad.append("constraint swap: unexpected constraints afterwards")
    elif op in ("oassign", "kassignobj"):
        i = int(t[2])
        keys = ("vars", "n", "off", "lin", "adj", "ni", "deg", "is_linear")
        src = before[X]["cons"][i] if op == "oassign" else before[X]["obj"]
        dst = after[X]["obj"] if op == "oassign" else after[X]["cons"][i]
        if any(src[k] != dst[k] for k in keys):
            bad.append("%s: expression not copied" % op)
    elif op in ("krm",):
        c = int(t[2])
        want = before[X]["cons"][:c] + before[X]["cons"][c + 1:]
        if after[X]["cons"] != want:
            bad.append("remove_constraint(%d): remaining constraints changed" % c)
    elif op == "cfxs":
        D = t[2]
        for k, c in enumerate(after[D]["cons"]):
            if c["disc"] and not c["onehot"]:
                bad.append("fix_variables: constraint %d marked discrete but not one-hot" % k)
        # the new model holds the polynomials obtained by fixing the variables by hand (independent dict computation)
        try:
            fv = [int(x) for x in t[3].split(",")] if t[3] != "-" else []
            vals = [F(x) for x in t[4].split(",")] if t[4] != "-" else []
            fixed = dict(zip(fv, vals))
            src = before[X]
            keep = [g for g in range(src["nv"]) if g not in fixed]
            new = {g: i for i, g in enumerate(keep)}

            def poly(e):
                lin, quad = {}, {}
                for i, g in enumerate(e["vars"]):
                    lin[g] = lin.get(g, 0) + e["lin"][i]
                    for j, b in e["adj"][i]:
                        if j <= i:
                            k2 = (min(g, e["vars"][j]), max(g, e["vars"][j]))
                            quad[k2] = quad.get(k2, 0) + b
                return lin, quad, e["off"]

            def fix(e):
                lin, quad, off = poly(e)
                nl, nq = {}, {}
                for g, b in lin.items():
                    if g in fixed:
                        off += b * fixed[g]
                    else:
                        nl[new[g]] = nl.get(new[g], 0) + b
                for (u, v), b in quad.items():
                    if u in fixed and v in fixed:
                        off += b * fixed[u] * fixed[v]
                    elif u in fixed:
                        nl[new[v]] = nl.get(new[v], 0) + b * fixed[u]
                    elif v in fixed:
                        nl[new[u]] = nl.get(new[u], 0) + b * fixed[v]
                    else:
                        nq[(new[u], new[v])] = nq.get((new[u], new[v]), 0) + b
                return nl, nq, off

            def same(a, b):
                (l1, q1, o1), (l2, q2, o2) = a, b
                z = lambda d: {k: v for k, v in d.items() if v != 0}
                return z(l1) == z(l2) and z(q1) == z(q2) and o1 == o2

            ok = all(isinstance(x, F) for e in [src["obj"]] + src["cons"] for x in [e["off"]] + e["lin"] + [b for row in e["adj"] for _, b in row])
            if ok and all(isinstance(v, F) for v in vals):
                pairs = [("objective", src["obj"], after[D]["obj"])] + [("constraint %d" % k, a, b) for k, (a, b) in enumerate(zip(src["cons"], after[D]["cons"]))]
                if len(src["cons"]) != len(after[D]["cons"]):
                    bad.append("fix_variables: %d constraints became %d" % (len(src["cons"]), len(after[D]["cons"])))
                for name, a, b in pairs:
                    if not same(fix(a), poly(b)):
                        bad.append("fix_variables: %s of the new model is %r, fixing by hand gives %r" % (name, poly(b), fix(a)))
        except (ValueError, KeyError, IndexError, TypeError):
            pass
    return bad


# ---------------------------------------------------------------------------
# driver


class Failure:
    def __init__(self, category, detail, ops):
        self.category = category
        self.detail = detail
        self.ops = list(ops)

    def signature(self):
        d = self.detail
        if self.category == "crash":
            for line in d.splitlines():
                if "Assertion" in line or "ERROR: AddressSanitizer" in line or "runtime error" in line \
                        or "Assertion '" in line or "LeakSanitizer" in line:
                    # keep the interesting part of an assert line
                    i = line.find("Assertion")
                    return "crash: " + (line[i:] if i >= 0 else line.strip())[:200]
            return "crash: " + (d.strip().splitlines() or ["(no stderr)"])[0][:200]
        import re
        return self.category + ": " + re.sub(r"\d+", "#", d.splitlines()[0])[:160]


def run_sequence(interp, rng, nops, kind, avoid=(), histogram=None):
    """Returns (log, failure).  log = [(op_line, reply_line, parsed_reply)]."""
    gen = Gen(rng, kind, avoid)
    log = []

    def step(op):
        before = dict(gen.st)
        try:
            line = interp.send(op)
        except InterpDied as e:
            return Failure("crash", "rc=%s\n%s" % (e.returncode, e.stderr), interp.ops)
        rep = parse_reply(line)
        log.append((op, line, rep))
        if histogram is not None:
            histogram[op.split()[0]] += 1
        if rep["status"] == "err":
            return Failure("harness", rep["what"] + " on " + op, interp.ops)
        for name, st in rep["states"].items():
            gen.st[name] = st
        problems = []
        if rep["inconsistent"]:
            problems.append(("INCONSISTENT", rep["inconsistent"]))
        inv = [m for st in rep["states"].values() for m in check_invariants(st)]
        if inv:
            problems.append(("invariant", inv))
        sem = post_check(op, before, rep)
        if sem:
            problems.append(("semantic", sem))
        if problems:
            cat, msgs = problems[0]
            return Failure(cat, "\n".join(msgs) + "\n  after op: " + op, interp.ops)
        return None

    for op in gen.start_ops():
        f = step(op)
        if f:
            return log, f
    for _ in range(nops):
        f = step(gen.next_op())
        if f:
            return log, f
    while gen.queue:  # finish a pending macro
        f = step(gen.queue.popleft())
        if f:
            return log, f
    return log, None


def gen_sequence(rng, nops, kinds=("bqm", "qm", "cqm")):
    """Generator protocol: valid ops depend on the current state, so generation is interactive --
    yields (kind, callable) pairs; call callable(interp) -> (log, failure).  Most users want
    run_sequence() directly."""
    for kind in kinds:
        yield kind, (lambda interp, kind=kind: run_sequence(interp, rng, nops, kind))


def replay(path, ops):
    """Run a list of op lines; returns (replies, returncode, stderr)."""
    it = Interp(path)
    replies = []
    try:
        for op in ops:
            if not op.strip() or op.startswith("#"):
                continue
            replies.append(it.send(op))
    except InterpDied as e:
        return replies, e.returncode, e.stderr
    rc, err = it.close()
    return replies, rc, err


KNOWN_AVOID = ("rif_selfloop", "qmfrombqmf_empty")


def main(argv=None):
    import argparse
    ap = argparse.ArgumentParser(description=__doc__)
    ap.add_argument("nseq", nargs="?", type=int, default=300)
    ap.add_argument("nops", nargs="?", type=int, default=60)
    ap.add_argument("--kinds", default="bqm,qm,cqm")
    ap.add_argument("--seed", type=int, default=20)
    ap.add_argument("--inc", default=DEFAULT_INC)
    ap.add_argument("--cache", default=os.path.join(HERE, "cache"))
    ap.add_argument("--out", default=HERE, help="directory for fail-<k>.ops")
    ap.add_argument("--no-avoid", action="store_true",
                    help="do not steer around the findings already written up in NOTES.md")
    ap.add_argument("--avoid", default=None, help="comma list overriding the default avoid set")
    ap.add_argument("--aqb-equal", action="store_true",
                    help="also call add_quadratic_back(u,v) when v == last neighbour (allowed by the "
                         "documented condition and by the assert, creates duplicates)")
    ap.add_argument("--max-fail-files", type=int, default=40)
    ap.add_argument("--replay", metavar="FILE", help="replay an .ops file, print replies, check invariants")
    args = ap.parse_args(argv)

    avoid = set() if args.no_avoid else set(KNOWN_AVOID)
    if args.avoid is not None:
        avoid = set(x for x in args.avoid.split(",") if x)
    if args.aqb_equal:
        avoid.add("aqb_equal_allowed")

    os.makedirs(args.out, exist_ok=True)
    path = build(args.inc, args.cache)
    print("interpreter:", path)
    link = os.path.join(HERE, "interp")
    try:
        tmp = link + ".tmp%d" % os.getpid()
        os.symlink(path, tmp)
        os.replace(tmp, link)
    except OSError:
        pass

    if args.replay:
        with open(args.replay) as fh:
            ops = [l.rstrip("\n") for l in fh]
        replies, rc, err = replay(path, ops)
        status = 0
        for line in replies:
            print(line)
            rep = parse_reply(line)
            for msg in rep["inconsistent"]:
                print("  INCONSISTENT:", msg)
                status = 1
            for st in rep["states"].values():
                for msg in check_invariants(st):
                    print("  INVARIANT:", msg)
                    status = 1
        if rc != 0 or err.strip():
            print("exit code %s; stderr:" % rc)
            print(err)
            status = 1
        return status
    print("avoid:", ",".join(sorted(avoid)) or "(nothing)")

    hist = collections.Counter()
    failures = []
    nops_total = 0
    k = 0
    for kind in [x for x in args.kinds.split(",") if x]:
        nfail = 0
        for i in range(args.nseq):
            rng = random.Random("%d/%s/%d" % (args.seed, kind, i))
            it = Interp(path)
            log, f = run_sequence(it, rng, args.nops, kind, avoid, hist)
            nops_total += len(log)
            if f is None:
                rc, err = it.close()
                if rc != 0 or err.strip():
                    f = Failure("crash", "at exit rc=%s\n%s" % (rc, err), it.ops)
            else:
                it.close()
            if f is not None:
                nfail += 1
                f.kind, f.index = kind, i
                failures.append(f)
                if k < args.max_fail_files:
                    fn = os.path.join(args.out, "fail-%d.ops" % k)
                    with open(fn, "w") as fh:
                        fh.write("# %s seq %d seed %d: %s\n" % (kind, i, args.seed, f.signature()))
                        for line in f.detail.splitlines()[:12]:
                            fh.write("#   " + line + "\n")
                        fh.write("\n".join(f.ops) + "\n")
                    f.file = fn
                    k += 1
        print("%-4s %d sequences, %d failed" % (kind, args.nseq, nfail))

    print("total ops executed: %d" % nops_total)
    print("op histogram:")
    items = sorted(hist.items(), key=lambda kv: (-kv[1], kv[0]))
    for j in range(0, len(items), 8):
        print("   " + "  ".join("%s=%d" % kv for kv in items[j:j + 8]))
    if not failures:
        print("RESULT: no invariant violation, INCONSISTENT, sanitizer report or crash")
        return 0
    groups = collections.OrderedDict()
    for f in failures:
        groups.setdefault(f.signature(), []).append(f)
    print("RESULT: %d failing sequences in %d groups" % (len(failures), len(groups)))
    for sig, fs in groups.items():
        shortest = min(fs, key=lambda f: len(f.ops))
        print("-- %d x %s" % (len(fs), sig))
        print("   shortest repro (%d ops): %s [%s seq %d]" % (
            len(shortest.ops), getattr(shortest, "file", "(not written)"), shortest.kind, shortest.index))
        for line in shortest.detail.splitlines()[:6]:
            print("      " + line[:300])
    return 1


if __name__ == "__main__":
    sys.exit(main())
