"""C20 (ii, systematic part) — every mutator of BinaryQuadraticModel (array back-ends float64 / float32, dict back-end,
labelled and range-labelled, empty, through a VartypeView) and of QuadraticModel x every argument position x every
class of malformed argument (unknown / None / unhashable / NaN labels, mistyped / non-finite / oversized biases,
malformed arrays: wrong rank, non-square, strings, NaN / non-zero diagonals, *and matrices / vectors larger than the
model*), each on a FRESH model.

Property predicate (evaluated on the real code only): a call that raises leaves the model unchanged, where "the
model" is the full observable state — labels, every coefficient through three read paths (get_*, iter_*,
to_numpy_vectors), offset, vartype(s), bounds, shape, num_variables, num_interactions, the degree of every variable,
the size of the native model behind the labels (`data.num_variables()`), and, for a view, also the state of the model
the view was taken from — and the model can still be read afterwards (twice, with the same result).  A crash of the
interpreter is attributed to the call by re-running the calls of the batch one per process.
"""
import json
import os
import subprocess
from concurrent.futures import ThreadPoolExecutor

PY = '/venv/bin/python'

PRELUDE = r'''
import json, sys, warnings
warnings.simplefilter('ignore')
import numpy as np, dimod

LQ = ({'a': 1.0, 'b': -0.5, 0: 0.25}, {('a', 'b'): 0.5, ('b', 0): -1.5}, 0.75)
RQ = ([1.0, -0.5, 0.25], {(0, 1): 0.5, (1, 2): -1.5}, 0.75)

def mk(kind):
    """(model the call is issued on, [objects whose state is observed])"""
    B = dimod.BinaryQuadraticModel
    if kind == 'bqm64': m = B(*LQ, 'SPIN'); return m, [m]
    if kind == 'bqm32': m = B(*LQ, 'BINARY', dtype=np.float32); return m, [m]
    if kind == 'bqmobj': m = B(*LQ, 'SPIN', dtype=object); return m, [m]
    if kind == 'rng64': m = B(*RQ, 'SPIN'); return m, [m]
    if kind == 'rng32': m = B(*RQ, 'BINARY', dtype=np.float32); return m, [m]
    if kind == 'rngobj': m = B(*RQ, 'BINARY', dtype=object); return m, [m]
    if kind == 'one64': m = B([1.0], {}, 0.0, 'BINARY'); return m, [m]
    if kind == 'empty64': m = B('BINARY'); return m, [m]
    if kind == 'view': b = B(*LQ, 'SPIN'); m = b.binary; return m, [m, b]
    if kind == 'rngview': b = B(*RQ, 'BINARY'); m = b.spin; return m, [m, b]
    if kind == 'objview': b = B(*LQ, 'SPIN', dtype=object); m = b.binary; return m, [m, b]
    if kind in ('qm', 'qm32'):
        m = dimod.QuadraticModel(dtype=np.float32) if kind == 'qm32' else dimod.QuadraticModel()
        m.add_variable('INTEGER', 'i', lower_bound=-2, upper_bound=5); m.add_variable('BINARY', 'x')
        m.add_variable('SPIN', 's'); m.add_variable('REAL', 'r', lower_bound=-1, upper_bound=3)
        m.add_linear('i', 1.5); m.add_quadratic('i', 'x', 0.5); m.add_quadratic('i', 'i', 2.0); m.add_quadratic('x', 's', -1.0)
        m.offset = 0.25
        return m, [m]
    if kind == 'qmrng':
        m = dimod.QuadraticModel()
        m.add_variable('INTEGER', lower_bound=-2, upper_bound=5); m.add_variable('BINARY'); m.add_variable('SPIN')
        m.add_linear(0, 1.5); m.add_quadratic(0, 1, 0.5); m.add_quadratic(0, 0, 2.0); m.offset = 0.25
        return m, [m]
    raise KeyError(kind)

def num(x):
    try:
        return float(x)
    except Exception:
        return repr(x)

def one_state(m):
    L = list(m.variables)
    out = [[repr(v) for v in L], m.num_variables, m.num_interactions, tuple(m.shape), num(m.offset)]
    out.append([num(m.get_linear(v)) for v in L])
    out.append([(repr(v), num(b)) for v, b in m.iter_linear()] if hasattr(m, 'iter_linear') else None)
    out.append(sorted((repr(u), repr(v), num(b)) for u, v, b in m.iter_quadratic()))
    out.append([(m.degree(v), sorted((repr(w), num(b)) for w, b in m.iter_neighborhood(v))) for v in L])
    nat = getattr(getattr(m, 'data', None), 'num_variables', None)
    out.append(nat() if callable(nat) else None)
    if isinstance(m, dimod.BinaryQuadraticModel):
        out.append(m.vartype.name)
        try:
            ld, (ir, ic, qd), off = m.to_numpy_vectors(variable_order=L)
            out.append(([num(x) for x in ld], sorted(zip(map(int, ir), map(int, ic), map(num, qd))), num(off)))
        except Exception as e:        # labels without an order: not an observation of this check
            out.append('to_numpy_vectors: ' + type(e).__name__)
    else:
        out.append([(m.vartype(v).name, num(m.lower_bound(v)), num(m.upper_bound(v))) for v in L])
    return out

def state(objs):
    return repr([one_state(o) for o in objs])
'''

BATCH = PRELUDE + r'''
cases = %(cases)r
out = []
for i, (kind, call) in enumerate(cases):
    m, objs = mk(kind)
    before = state(objs)
    raised = None
    print('@' + str(i), flush=True)          # a crash is attributed to the call after the last marker
    try:
        exec(call)
    except BaseException as e:
        raised = type(e).__name__ + ': ' + str(e)[:160]
    try:
        after = state(objs)
        again = state(objs)
    except BaseException as e:
        out.append(dict(result='unreadable', raised=raised, what=type(e).__name__ + ': ' + str(e)[:200])); continue
    if after != again:
        out.append(dict(result='unreadable', raised=raised, what='two consecutive reads differ: ' + after[:300] + ' / ' + again[:300])); continue
    if raised is not None and after != before:
        out.append(dict(result='changed', raised=raised, before=before[:900], after=after[:900]))
    else:
        out.append(dict(result='raised' if raised else 'accepted', raised=raised))
print('RESULT ' + json.dumps(out))
'''

REPRO = PRELUDE + r'''
m, objs = mk(%(kind)r)
before = state(objs); raised = None
try:
    %(call)s
except Exception as e:
    raised = e
after = state(objs)
print('raised', repr(raised)); print(before); print(after)
assert after == state(objs), 'two consecutive reads differ'
assert raised is None or after == before, 'a rejected call changed the model'
'''

BADL = ["'zz'", 'None', '[1]', '{}', "float('nan')", '-1', '99', 'object()', '1.5', "(1, [2])", 'slice(None)', '2**70']
BADB = ["'x'", 'None', "float('nan')", "float('inf')", '[1.0, 2.0]', 'object()', '1j', 'np.array([1., 2.])', "'1.5'", '10**400', '[]']
BADN = ['-1', '-5', "'x'", 'None', '2.5', "float('nan')", '[3]', '-2**63', '-2**70']


def dense_args(n):
    """malformed matrices for a model with n variables: rejected for their diagonal / shape / content, of every size
    relative to the model (smaller, equal, LARGER: the resize must not come before the rejection)"""
    out = []
    for k in sorted({1, max(n - 1, 1), n, n + 1, n + 2, n + 4}):
        for pos, pname in ((0, 'first'), (k - 1, 'last'), (k // 2, 'middle')):
            for val, vname in (('1.0', 'non-zero'), ("float('nan')", 'NaN'), ("float('inf')", 'inf'), ('-0.5', 'negative')):
                out.append((f'{k}x{k} vs n={n}, {vname} diagonal at the {pname} row',
                            f"(lambda d: (d.__setitem__(({pos}, {pos}), {val}), d)[1])(np.zeros(({k}, {k})))"))
        if k > 1:
            out.append((f'{k}x{k} vs n={n}, off-diagonal entries and a non-zero diagonal at the last row',
                        f"(lambda d: (d.__setitem__(({k - 1}, {k - 1}), 2.0), d)[1])(np.triu(np.ones(({k}, {k})), 1))"))
            out.append((f'{k}x{k} vs n={n}, integer dtype with a non-zero diagonal', f"np.eye({k}, dtype=np.int64)"))
            out.append((f'{k}x{k} vs n={n}, float32 identity', f"np.eye({k}, dtype=np.float32)"))
            out.append((f'{k}x{k} vs n={n}, non-contiguous view with a non-zero diagonal', f"np.eye({2 * k})[::2, ::2]"))
            out.append((f'{k}x{k} vs n={n}, Fortran order with a non-zero diagonal', f"np.asfortranarray(np.eye({k}))"))
            out.append((f'{k}x{k} vs n={n}, read-only with a non-zero diagonal', f"(lambda d: (d.setflags(write=False), d)[1])(np.eye({k}))"))
            out.append((f'{k}x{k} vs n={n}, nested lists with a non-zero diagonal', f"np.eye({k}).tolist()"))
            out.append((f'{k}x{k + 1} vs n={n}, not square', f"np.zeros(({k}, {k + 1}))"))
            out.append((f'{k + 1}x{k} vs n={n}, not square', f"np.zeros(({k + 1}, {k}))"))
            out.append((f'{k}x{k} vs n={n}, complex', f"np.zeros(({k}, {k}), dtype=complex)"))
            out.append((f'{k}x{k} vs n={n}, strings', f"np.full(({k}, {k}), 'a')"))
            out.append((f'{k}x{k} vs n={n}, object dtype with None', f"np.full(({k}, {k}), None, dtype=object)"))
            out.append((f'{k}x{k}x2 vs n={n}, rank 3', f"np.zeros(({k}, {k}, 2))"))
            out.append((f'length {k * k} vs n={n}, rank 1', f"np.zeros({k * k})"))
    out += [('None', 'None'), ('scalar', '5.0'), ('ragged', '[[0., 1.], [1.]]'), ('empty rank 1', '[]'), ('string', "'ab'")]
    return out


def array_args(n):
    out = []
    for k in sorted({1, n, n + 1, n + 3}):
        out += [(f'length {k} vs n={n}, strings', f"['a'] * {k}"), (f'length {k} vs n={n}, None', f"[None] * {k}"),
                (f'length {k} vs n={n}, complex', f"np.zeros({k}, dtype=complex)"), (f'{k}x2 vs n={n}, rank 2', f"np.zeros(({k}, 2))"),
                (f'length {k} vs n={n}, object dtype with a string at the end', f"np.array([1.0] * {k - 1} + ['x'], dtype=object)"),
                (f'1x{k} vs n={n}, rank 2', f"np.zeros((1, {k}))")]
    out += [('None', 'None'), ('scalar', '5.0'), ('ragged', '[[0., 1.], [1.]]'), ('string', "'ab'")]
    return out


def bqm_cases():
    out = []
    def add(kinds, site, cls, call):
        for k in kinds:
            out.append((k, 'BQM.' + site, cls, call))
    LAB = ['bqm64', 'bqm32', 'bqmobj', 'view', 'objview']
    RNG = ['rng64', 'rng32', 'rngobj', 'rngview', 'one64', 'empty64']
    NV = {'rng64': 3, 'rng32': 3, 'rngobj': 3, 'rngview': 3, 'one64': 1, 'empty64': 0, 'bqm64': 3, 'bqm32': 3, 'bqmobj': 3}
    for kinds, g0, g1, g2 in ((LAB, "'a'", "'b'", '0'), (RNG[:4], '0', '1', '2')):
        for l in BADL:
            c = f'label {l}'
            for f in ('add_linear', 'set_linear'):
                add(kinds, f + ' label', c, f'm.{f}({l}, 1.0)')
            for f in ('add_quadratic', 'set_quadratic'):
                add(kinds, f + ' first label', c, f'm.{f}({l}, {g1}, 1.0)')
                add(kinds, f + ' second label', c, f'm.{f}({g0}, {l}, 1.0)')
                add(kinds, f + ' first label, second new', c, f"m.{f}({l}, 'new', 1.0)")
                add(kinds, f + ' second label, first new', c, f"m.{f}('new', {l}, 1.0)")
                add(kinds, f + ' both labels', c, f'm.{f}({l}, {l}, 1.0)')
            add(kinds, 'add_variable label', c, f'm.add_variable({l}, 1.0)')
            add(kinds, 'remove_variable label', c, f'm.remove_variable({l})' if l != 'None' else "m.remove_variable('nope')")
            add(kinds, 'remove_interaction first label', c, f'm.remove_interaction({l}, {g1})')
            add(kinds, 'remove_interaction second label', c, f'm.remove_interaction({g0}, {l})')
            add(kinds, 'fix_variable label', c, f'm.fix_variable({l}, 1)')
            add(kinds, 'fix_variables first key', c, f'm.fix_variables([({l}, 1), ({g0}, 1)])')
            add(kinds, 'flip_variable label', c, f'm.flip_variable({l})')
            add(kinds, 'contract_variables first label', c, f'm.contract_variables({l}, {g1})')
            add(kinds, 'contract_variables second label', c, f'm.contract_variables({g0}, {l})')
            add(kinds, 'relabel_variables target', c, f'm.relabel_variables({{{g0}: {l}}})')
            add(kinds, 'add_linear_from first element label', c, f'm.add_linear_from([({l}, 1.0), ({g0}, 1.0)])')
            add(kinds, 'add_quadratic_from first element first label', c, f'm.add_quadratic_from([({l}, {g1}, 1.0), ({g0}, {g1}, 1.0)])')
            add(kinds, 'add_quadratic_from first element second label', c, f'm.add_quadratic_from([({g0}, {l}, 1.0), ({g0}, {g1}, 1.0)])')
            add(kinds, 'add_linear_equality_constraint first term label', c, f'm.add_linear_equality_constraint([({l}, 1.0), ({g0}, 1.0)], 1.0, 0.5)')
            add(kinds, 'scale ignored_variables', c, f'm.scale(2.0, ignored_variables=[{l}])')
            add(kinds, 'scale ignored_interactions', c, f'm.scale(2.0, ignored_interactions=[({g0}, {l})])')
            add(kinds, 'normalize ignored_variables', c, f'm.normalize(1.0, ignored_variables=[{l}])')
        add(kinds, 'add_quadratic self-loop', 'existing variable', f'm.add_quadratic({g0}, {g0}, 1.0)')
        add(kinds, 'add_quadratic self-loop', 'new variable', "m.add_quadratic('new', 'new', 1.0)")
        add(kinds, 'set_quadratic self-loop', 'existing variable', f'm.set_quadratic({g0}, {g0}, 1.0)')
        add(kinds, 'set_quadratic self-loop', 'new variable', "m.set_quadratic('new', 'new', 1.0)")
        add(kinds, 'remove_interaction', 'no such interaction', f'm.remove_interaction({g0}, {g2})')
        add(kinds, 'remove_interaction', 'same variable', f'm.remove_interaction({g0}, {g0})')
        add(kinds, 'contract_variables', 'same variable', f'm.contract_variables({g0}, {g0})')
        add(kinds, 'relabel_variables', 'target is another variable', f'm.relabel_variables({{{g0}: {g1}}})')
        add(kinds, 'relabel_variables', 'two variables to one target', f"m.relabel_variables({{{g0}: 'z', {g1}: 'z'}})")
        add(kinds, 'relabel_variables', 'mapping 5', 'm.relabel_variables(5)')
        add(kinds, 'relabel_variables', 'mapping None', 'm.relabel_variables(None)')
        add(kinds, 'add_quadratic_from', 'self-loop first', f'm.add_quadratic_from([({g0}, {g0}, 1.0), ({g0}, {g1}, 1.0)])')
        add(kinds, 'add_quadratic_from', 'short first element', f'm.add_quadratic_from([({g0},), ({g0}, {g1}, 1.0)])')
        add(kinds, 'add_quadratic_from', 'dict with a 1-tuple key', f'm.add_quadratic_from({{({g0},): 1.0}})')
        add(kinds, 'add_quadratic_from', 'not iterable', 'm.add_quadratic_from(5)')
        add(kinds, 'add_linear_from', 'not iterable', 'm.add_linear_from(5)')
        add(kinds, 'add_linear_from', 'bare label first', f'm.add_linear_from([{g0}, ({g0}, 1.0)])' if g0 != "'a'" else "m.add_linear_from([5, ('a', 1.0)])")
        for b in BADB:
            c = f'bias {b}'
            for f in ('add_linear', 'set_linear'):
                add(kinds, f + ' bias', c, f'm.{f}({g0}, {b})')
                add(kinds, f + ' bias, new variable', c, f"m.{f}('new', {b})")
            for f in ('add_quadratic', 'set_quadratic'):
                add(kinds, f + ' bias', c, f'm.{f}({g0}, {g1}, {b})')
                add(kinds, f + ' bias, no interaction yet', c, f'm.{f}({g0}, {g2}, {b})')
                add(kinds, f + ' bias, first new', c, f"m.{f}('new', {g1}, {b})")
                add(kinds, f + ' bias, second new', c, f"m.{f}({g0}, 'new', {b})")
                add(kinds, f + ' bias, both new', c, f"m.{f}('new', 'new2', {b})")
            add(kinds, 'add_variable bias', c, f"m.add_variable('new', {b})")
            add(kinds, 'add_variable bias, generated label', c, f'm.add_variable(None, {b})')
            add(kinds, 'add_variable bias, existing label', c, f'm.add_variable({g0}, {b})')
            add(kinds, 'offset value', c, f'm.offset = {b}')
            add(kinds, 'scale scalar', c, f'm.scale({b})')
            add(kinds, 'normalize bias_range', c, f'm.normalize({b})')
            add(kinds, 'normalize quadratic_range', c, f'm.normalize(1.0, {b})')
            add(kinds, 'fix_variable value', c, f'm.fix_variable({g0}, {b})')
            add(kinds, 'fix_variables first value', c, f'm.fix_variables([({g0}, {b}), ({g1}, 1)])')
            add(kinds, 'add_linear_from first element bias', c, f'm.add_linear_from([({g0}, {b}), ({g1}, 1.0)])')
            add(kinds, 'add_linear_from first element bias, new variable', c, f"m.add_linear_from([('new', {b}), ({g1}, 1.0)])")
            add(kinds, 'add_quadratic_from first element bias', c, f'm.add_quadratic_from([({g0}, {g1}, {b}), ({g0}, {g2}, 1.0)])')
            add(kinds, 'add_quadratic_from first element bias, new variables', c, f"m.add_quadratic_from([('new', 'new2', {b}), ({g0}, {g2}, 1.0)])")
            add(kinds, 'add_linear_equality_constraint first term bias', c, f'm.add_linear_equality_constraint([({g0}, {b}), ({g1}, 1.0)], 1.0, 0.5)')
            add(kinds, 'add_linear_equality_constraint first term bias, new variable', c, f"m.add_linear_equality_constraint([('new', {b}), ({g1}, 1.0)], 1.0, 0.5)")
            add(kinds, 'add_linear_equality_constraint lagrange_multiplier', c, f'm.add_linear_equality_constraint([({g0}, 1.0), ({g1}, 1.0)], {b}, 0.5)')
            add(kinds, 'add_linear_equality_constraint lagrange_multiplier, new variables', c, f"m.add_linear_equality_constraint([('new', 1.0), ('new2', 1.0)], {b}, 0.5)")
            add(kinds, 'add_linear_equality_constraint constant', c, f'm.add_linear_equality_constraint([({g0}, 1.0), ({g1}, 1.0)], 1.0, {b})')
            add(kinds, 'add_linear_equality_constraint constant, new variables', c, f"m.add_linear_equality_constraint([('new', 1.0), ('new2', 1.0)], 1.0, {b})")
            add(kinds, 'add_linear_inequality_constraint lagrange_multiplier', c, f"m.add_linear_inequality_constraint([({g0}, 1), ({g1}, 2)], {b}, 'c', ub=2)")
            add(kinds, 'add_linear_inequality_constraint ub', c, f"m.add_linear_inequality_constraint([({g0}, 1), ({g1}, 2)], 1.0, 'c', ub={b})")
            add(kinds, 'add_linear_inequality_constraint lb', c, f"m.add_linear_inequality_constraint([({g0}, 1), ({g1}, 2)], 1.0, 'c', lb={b}, ub=5)")
            add(kinds, 'add_linear_inequality_constraint constant', c, f"m.add_linear_inequality_constraint([({g0}, 1), ({g1}, 2)], 1.0, 'c', constant={b}, ub=2)")
            add(kinds, 'add_linear_inequality_constraint first term bias', c, f"m.add_linear_inequality_constraint([({g0}, {b}), ({g1}, 2)], 1.0, 'c', ub=2)")
        for o in ('5', 'None', "'x'", 'dimod.QuadraticModel()', '[1, 2]', 'dimod.ConstrainedQuadraticModel()', 'dimod.DiscreteQuadraticModel()', 'dimod.BinaryQuadraticModel'):
            add(kinds, 'update other', f'other {o}', f'm.update({o})')
        for t in ("'NOPE'", '5', 'None', '[1]', "'INTEGER'", "'REAL'", "'DISCRETE'"):
            add(kinds, 'change_vartype vartype', f'vartype {t}', f'm.change_vartype({t})')
            add(kinds, 'change_vartype vartype, copy', f'vartype {t}', f'm.change_vartype({t}, inplace=False)')
    for n in BADN:
        add(['bqm64', 'bqm32', 'bqmobj', 'rng64', 'rng32', 'rngobj', 'one64', 'empty64'], 'resize n', f'n {n}', f'm.resize({n})')
    # array adders: on range-labelled models the native model is resized to the array; on labelled models the call is
    # refused (dense) or falls back to single calls (linear)
    for k in ['rng64', 'rng32', 'rngobj', 'one64', 'empty64', 'bqm64', 'bqmobj', 'rngview', 'view']:
        n = NV.get(k, 3)
        for cls, src in dense_args(n):
            add([k], 'add_quadratic_from_dense array', cls, f'm.add_quadratic_from_dense({src})')
        for cls, src in array_args(n):
            add([k], 'add_linear_from_array array', cls, f'm.add_linear_from_array({src})')
    for k in ['bqm64', 'bqmobj']:   # valid matrix, labels not a range: refused as a whole
        add([k], 'add_quadratic_from_dense array', '5x5 valid, labels not a range', 'm.add_quadratic_from_dense(np.triu(np.ones((5, 5)), 1))')
    return out


def qm_cases():
    out = []
    def add(kinds, site, cls, call):
        for k in kinds:
            out.append((k, 'QM.' + site, cls, call))
    for kinds, g0, g1, g2 in ((['qm', 'qm32'], "'i'", "'x'", "'s'"), (['qmrng'], '0', '1', '2')):
        for l in BADL:
            c = f'label {l}'
            for f in ('add_linear', 'set_linear'):
                add(kinds, f + ' label', c, f'm.{f}({l}, 1.0)')
                add(kinds, f + ' label, default_vartype', c, f"m.{f}({l}, 1.0, default_vartype='INTEGER', default_lower_bound=3, default_upper_bound=1)" if f == 'add_linear' else f'm.{f}({l}, 2.0)')
            for f in ('add_quadratic', 'set_quadratic'):
                add(kinds, f + ' first label', c, f'm.{f}({l}, {g1}, 1.0)')
                add(kinds, f + ' second label', c, f'm.{f}({g0}, {l}, 1.0)')
                add(kinds, f + ' both labels', c, f'm.{f}({l}, {l}, 1.0)')
            add(kinds, 'add_variable label', c, f"m.add_variable('BINARY', {l})" if l != 'None' else "m.add_variable('NOPE', 'q')")
            add(kinds, 'add_variable label, other vartype', c, f"m.add_variable('REAL', {l}, lower_bound=2, upper_bound=1)")
            add(kinds, 'remove_variable label', c, f'm.remove_variable({l})' if l != 'None' else "m.remove_variable('nope')")
            add(kinds, 'remove_interaction first label', c, f'm.remove_interaction({l}, {g1})')
            add(kinds, 'remove_interaction second label', c, f'm.remove_interaction({g0}, {l})')
            add(kinds, 'fix_variable label', c, f'm.fix_variable({l}, 1)')
            add(kinds, 'fix_variables first key', c, f'm.fix_variables([({l}, 1), ({g0}, 1)])')
            add(kinds, 'flip_variable label', c, f'm.flip_variable({l})')
            add(kinds, 'change_vartype label', c, f"m.change_vartype('BINARY', {l})")
            add(kinds, 'set_lower_bound label', c, f'm.set_lower_bound({l}, 0)')
            add(kinds, 'set_upper_bound label', c, f'm.set_upper_bound({l}, 1)')
            add(kinds, 'add_linear_from first element label', c, f'm.add_linear_from([({l}, 1.0), ({g0}, 1.0)])')
            add(kinds, 'add_quadratic_from first element first label', c, f'm.add_quadratic_from([({l}, {g1}, 1.0), ({g0}, {g1}, 1.0)])')
            add(kinds, 'add_quadratic_from first element second label', c, f'm.add_quadratic_from([({g0}, {l}, 1.0), ({g0}, {g1}, 1.0)])')
            add(kinds, 'relabel_variables target', c, f'm.relabel_variables({{{g0}: {l}}})')
        add(kinds, 'add_quadratic self-loop', 'BINARY variable', f'm.add_quadratic({g1}, {g1}, 1.0)')
        add(kinds, 'set_quadratic self-loop', 'SPIN variable', f'm.set_quadratic({g2}, {g2}, 1.0)')
        add(kinds, 'remove_interaction', 'no such interaction', f'm.remove_interaction({g0}, {g2})')
        add(kinds, 'relabel_variables', 'target is another variable', f'm.relabel_variables({{{g0}: {g1}}})')
        add(kinds, 'relabel_variables', 'two variables to one target', f"m.relabel_variables({{{g0}: 'z', {g1}: 'z'}})")
        add(kinds, 'flip_variable', 'INTEGER variable', f'm.flip_variable({g0})')
        add(kinds, 'change_vartype', 'INTEGER to SPIN', f"m.change_vartype('SPIN', {g0})")
        add(kinds, 'change_vartype', 'BINARY to REAL', f"m.change_vartype('REAL', {g1})")
        add(kinds, 'add_variable', 'known label, other vartype', f"m.add_variable('SPIN', {g0})")
        add(kinds, 'add_variable', 'known label, other bounds', f"m.add_variable('INTEGER', {g0}, lower_bound=0, upper_bound=1)")
        add(kinds, 'add_variable', 'lower bound above upper bound', "m.add_variable('INTEGER', 'k', lower_bound=3, upper_bound=1)")
        add(kinds, 'add_variable', 'no integer between the bounds', "m.add_variable('INTEGER', 'k', lower_bound=0.25, upper_bound=0.75)")
        add(kinds, 'add_variables_from', 'second label known with other vartype', f"m.add_variables_from('SPIN', [{g0}])")
        add(kinds, 'add_variables_from', 'vartype NOPE', "m.add_variables_from('NOPE', ['k1', 'k2'])")
        add(kinds, 'set_lower_bound', 'above the upper bound', f'm.set_lower_bound({g0}, 99)')
        add(kinds, 'set_upper_bound', 'below the lower bound', f'm.set_upper_bound({g0}, -99)')
        add(kinds, 'set_lower_bound', 'BINARY variable below 0', f'm.set_lower_bound({g1}, -1)')
        add(kinds, 'set_upper_bound', 'SPIN variable', f'm.set_upper_bound({g2}, 5)')
        for b in BADB:
            c = f'bias {b}'
            for f in ('add_linear', 'set_linear'):
                add(kinds, f + ' bias', c, f'm.{f}({g0}, {b})')
            add(kinds, 'add_linear bias, new variable', c, f"m.add_linear('new', {b}, default_vartype='BINARY')")
            for f in ('add_quadratic', 'set_quadratic'):
                add(kinds, f + ' bias', c, f'm.{f}({g0}, {g1}, {b})')
                add(kinds, f + ' bias, self-loop', c, f'm.{f}({g0}, {g0}, {b})')
                add(kinds, f + ' bias, no interaction yet', c, f'm.{f}({g0}, {g2}, {b})')
            add(kinds, 'offset value', c, f'm.offset = {b}')
            add(kinds, 'scale scalar', c, f'm.scale({b})')
            add(kinds, 'fix_variable value', c, f'm.fix_variable({g0}, {b})')
            add(kinds, 'set_lower_bound value', c, f'm.set_lower_bound({g0}, {b})')
            add(kinds, 'set_upper_bound value', c, f'm.set_upper_bound({g0}, {b})')
            add(kinds, 'add_variable lower_bound', c, f"m.add_variable('INTEGER', 'k', lower_bound={b})")
            add(kinds, 'add_variable upper_bound', c, f"m.add_variable('REAL', 'k', upper_bound={b})")
            add(kinds, 'add_linear_from first element bias', c, f'm.add_linear_from([({g0}, {b}), ({g1}, 1.0)])')
            add(kinds, 'add_quadratic_from first element bias', c, f'm.add_quadratic_from([({g0}, {g1}, {b}), ({g0}, {g2}, 1.0)])')
        for o in ('5', 'None', "'x'", '[1, 2]', 'dimod.ConstrainedQuadraticModel()',
                  "(lambda q: (q.add_variable('SPIN', %s), q)[1])(dimod.QuadraticModel())" % g0,
                  "(lambda q: (q.add_variable('BINARY', 'fresh'), q.add_variable('INTEGER', %s, lower_bound=0, upper_bound=1), q)[2])(dimod.QuadraticModel())" % g0):
            add(kinds, 'update other', f'other {o[:60]}', f'm.update({o})')
        for t in ("'NOPE'", '5', 'None', '[1]'):
            add(kinds, 'change_vartype vartype', f'vartype {t}', f'm.change_vartype({t}, {g1})')
            add(kinds, 'add_variable vartype', f'vartype {t}', f"m.add_variable({t}, 'k')")
            add(kinds, 'add_linear default_vartype', f'vartype {t}', f"m.add_linear('new', 1.0, default_vartype={t})")
    return out


OBJ = ('bqmobj', 'rngobj', 'objview')

# Classes on which the UNCHANGED dimod violates the property (a rejected call leaves variables behind); each has a
# candidate repair under patches/.  They are generated and judged only with VERIF_C20_PENDING=1 until the repair is in
# /repo (then delete the entry: the class becomes part of every run).  (site prefix, object kinds or None = all, patch)
PENDING = []   # emptied: both repairs are in /repo (ca17f4d, 9966cf4); the five classes run every time


def pending(kind, site):
    return any(site.startswith(p) and (ks is None or kind in ks) for p, ks, _ in PENDING)


def all_cases():
    """an object-dtype model stores any object as a bias (a convention of this check since round 1): mistyped biases and
    object-dtype arrays are not "invalid" for it, so those classes are generated for the array back-ends only"""
    out = []
    with_pending = os.environ.get('VERIF_C20_PENDING') == '1'
    for c in bqm_cases() + qm_cases():
        kind, site, cls, call = c
        if kind in OBJ and (cls.startswith('bias ') or 'object dtype' in cls):
            continue
        if pending(kind, site) and not with_pending:
            continue
        out.append(c)
    return out


def run_batch(chunk, env, timeout=600):
    src = (BATCH % dict(cases=[(c[0], c[3]) for c in chunk]))
    try:
        p = subprocess.run([PY, '-c', src], capture_output=True, text=True, timeout=timeout, env=env)
    except subprocess.TimeoutExpired:
        return None, 'timeout'
    lines = p.stdout.strip().splitlines()
    if p.returncode == 0 and lines and lines[-1].startswith('RESULT '):
        return json.loads(lines[-1][7:]), None
    last = max([int(x[1:]) for x in lines if x.startswith('@')] or [0])
    return None, f'child process exited {p.returncode} during call #{last} `{chunk[last][3]}` on a fresh {chunk[last][0]}: {p.stderr[-300:]}'


def sweep_part(ctx):
    import time
    t0 = time.time()
    cases = all_cases()
    env = dict(os.environ)
    nchunk = 6
    chunks = [cases[i::nchunk] for i in range(nchunk)]
    with ThreadPoolExecutor(max_workers=nchunk) as ex:
        batches = list(ex.map(lambda ch: run_batch(ch, env), chunks))
    for chunk, (results, err) in zip(chunks, batches):
        if results is None:
            # a call of this batch killed the child: run the calls of the batch one per process
            with ThreadPoolExecutor(max_workers=4) as ex:
                singles = list(ex.map(lambda c: run_batch([c], env, 120), chunk))
            results = []
            for c, (r1, e1) in zip(chunk, singles):
                if r1 is None:
                    src = (BATCH % dict(cases=[(c[0], c[3])]))
                    ctx.fail('crash', c[1] + f' [{c[0]}]', c[2], f'`{c[3]}` on a fresh {c[0]}: {e1}',
                             repro="import subprocess, sys\nsrc = %r\np = subprocess.run([sys.executable, '-c', src], capture_output=True, text=True)\nprint(p.stdout[-800:], p.stderr[-800:]); assert p.returncode == 0\n" % (src,))
                    results.append(dict(result='crash'))
                else:
                    results.append(r1[0])
        for (kind, site, cls, call), res in zip(chunk, results):
            ctx.case(('sweep', kind, call), nontrivial=True,
                     sample=dict(kind='python boundary sweep', object=kind, call=call, outcome=res['result'], raised=res.get('raised'))
                     if ('5x5' in cls and 'last row' in cls and kind == 'rng64' and 'non-zero diagonal at' in cls) else None)
            ctx.tick('sweep:' + res['result'])
            ctx.tick('sweep-site:' + site.split(' ')[0] + ':' + res['result'])
            ctx.tick('sweep-object:' + kind)
            repro = REPRO % dict(kind=kind, call=call)
            if res['result'] == 'changed':
                ctx.fail('property', f'{site} [{kind}]', cls + ' (changed on raise)', f'`{call}` on a fresh {kind} raised {res["raised"]} but changed the model: '
                         f'{res["before"]} -> {res["after"]}', repro=repro, detail=res)
            elif res['result'] == 'unreadable':
                ctx.fail('property', f'{site} [{kind}]', cls + ' (model unreadable afterwards)', f'`{call}` on a fresh {kind} ({"raised " + res["raised"] if res["raised"] else "returned"}); '
                         f'reading the model back: {res["what"]}', repro=repro, detail=res)
    ctx.extra['sweep_seconds'] = round(time.time() - t0, 1)
    ctx.extra['sweep_cases'] = len(cases)
