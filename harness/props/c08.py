"""C08 — CQM feasibility / violation reports agree with one definition.

Definition (exact `Fraction` arithmetic on the label-keyed polynomials of `c05.Ref`):
  activity = lhs(sample) - rhs;  violation = |activity| (==), activity (<=), -activity (>=);
  satisfied iff violation <= atol + rtol*|rhs|;  feasible iff every *hard* constraint is satisfied;
  energy = objective + sum over violated soft constraints of weight*violation (linear) or weight*violation^2.

(i)  correspondence: the real reports vs the Lean model (`lean/DimodModel/Feasibility.lean`, driver
     `cqmdriver`, command `feas`): `iter_constraint_data`, `iter_violations` (plain / skip_satisfied / clip),
     both also with the `labels=` argument (None, empty, permuted subsets with repeats, an unknown label: driver
     command `feasl`), `check_feasible`, and `SampleSet.from_samples_cqm` (is_satisfied, is_feasible, energy);
(ii) property predicate: every one of those reports, plus `violations`, `ExactCQMSolver.sample_cqm`, against
     the definition above, for several rows with mixed satisfaction and dyadic tolerances including 0, and with the
     documented default tolerances (rtol=1e-6, atol=1e-8, passed by omission) taken as the exact rationals of those floats.

Both are driven **along histories on ONE model object** (like C05), not only on freshly built models: after the first
evaluation the same `cqm` is mutated (relabel_variables with swaps / cycles of labels that stay in the model, relabel to new
names, relabel_constraints, add / remove / fix / flip variable, change_vartype, set_objective, add / remove constraint) and
every report path is re-checked against the definition after each step, with the sample's label order kept from the previous
evaluation (so anything remembered per model between two evaluations — column look-ups, cached sub-samples — is exercised).
The Lean driver follows the same history (`relv`, `fix`, … then `feas` again on the same model value).
"""
import copy
import itertools
import warnings
from fractions import Fraction as F

import numpy as np

import dimod
from dimod import ConstrainedQuadraticModel as CQM, SampleSet
from harness.common import lab, rat, run_driver
from harness.props import c05

warnings.simplefilter('ignore')

TOLS = [0, 0, 0, F(1, 8), F(1, 2), 1, F(1, 1024), 2]
WIDE = 2 ** 21
# sample values around the integer dtype boundaries `as_samples` switches at (int8 / int16 / int32) and around
# sqrt(2^15), sqrt(2^31): products of two of them overflow the sample's own integer type but stay far below 2^53
BIG = sorted({s * (2 ** k + d) for k in (3, 6, 7, 8, 10, 14, 15, 16, 17, 20) for d in (-1, 0, 1) for s in (1, -1)}
             | {11, 12, 127, -128, 181, 182, 32767, -32768, 46340, 46341, -46341, 65535, 65536, 1000003, -1000003})
INT_DTYPES = [np.int8, np.int16, np.int32, np.int64]
# explicit UNSIGNED sample arrays (values in the upper half of the type included: 128..255 for uint8, …) — evaluated exactly like
# the signed / dict form of the same sample
UINT_DTYPES = [np.uint8, np.uint16, np.uint32, np.uint64]
ALL_INT_DTYPES = INT_DTYPES + UINT_DTYPES
# labels no generated model uses: superfluous variables of a sample
EXTRA_LABELS = ['__e1', 987654, ('__e', 2)]


def value(p, x):
    """the polynomial `p` (c05.Poly) at the assignment `x` (label -> Fraction)"""
    e = p.off
    for v, b in p.lin.items():
        e += b * x[v]
    for k, b in p.quad.items():
        vs = list(k)
        e += b * x[vs[0]] * x[vs[-1]]
    return e


def definition(ref, x, atol, rtol):
    """returns per-constraint (lhs, activity, violation, satisfied), feasible, energy"""
    per = {}
    en = value(ref.obj, x)
    feas = True
    for l, c in ref.cons.items():
        lhs = value(c.p, x)
        act = lhs - c.rhs
        viol = abs(act) if c.sense == '==' else (act if c.sense == '<=' else -act)
        sat = viol <= atol + rtol * abs(c.rhs)
        per[l] = (lhs, act, viol, sat)
        if c.weight is None:
            feas = feas and sat
        elif not sat:
            en += c.weight * (viol * viol if c.quadratic else viol)
    return per, feas, en


COMBOS = [(False, False), (True, False), (False, True), (True, True)]     # (skip_satisfied, clip)


def report(per, labels, skip, clip):
    """the documented report of `violations` for one option combination, from the definition's violations `per[l][2]`:
    skip_satisfied drops every constraint whose violation is not strictly positive; clip replaces a negative violation by 0"""
    return {l: (max(per[l][2], F(0)) if clip else per[l][2]) for l in labels if not skip or per[l][2] > 0}


def gen_cqm(ctx, r):
    """a CQM built through public calls; returns (cqm, ref, protocol lines, python source)"""
    cqm = CQM(); ref = c05.Ref(); lines = ['new']; src = []
    nv = r.choice([0, 1, 2, 2, 3, 3, 4])
    wide = r.random() < .4
    labs = r.sample(list(c05.KIND), nv)
    if wide:
        # at least two INTEGER variables so that products of two large sample values occur
        labs = list(dict.fromkeys(r.sample(['i', 'j', 2], r.choice([1, 2, 2, 3])) + labs))[:max(nv, 2)]
    for v in labs:
        vt = c05.KIND[v]
        lo, hi = c05.BOUNDS[vt]
        if wide and vt == 'INTEGER':
            lo, hi = -WIDE, WIDE
        kw = '' if vt in ('BINARY', 'SPIN') else f', lower_bound={lo!r}, upper_bound={hi!r}'
        code = f'cqm.add_variable({vt!r}, {v!r}{kw})'
        exec(code, dict(cqm=cqm)); src.append(code)
        if vt in ('BINARY', 'SPIN'):
            ref.add_variable(vt, v, None, None); lines.append(f'addvar {vt} {lab(v)} - -')
        else:
            ref.add_variable(vt, v, lo, hi); lines.append(f'addvar {vt} {lab(v)} {rat(lo)} {rat(hi)}')

    ints = [v for v in labs if c05.KIND[v] == 'INTEGER']

    def terms(const_only):
        ts = []
        if wide and not const_only and ints and r.random() < .8:
            # a squared term or a product of two wide INTEGER variables
            u, v = r.choice(ints), r.choice(ints)
            ts.append((u, v, r.choice([-2, -1, -.5, .25, .5, 1, 1.5, 2])))
        for _ in range(r.randint(0 if not const_only else 1, 4)):
            k = 0 if const_only or not labs else r.choice([0, 1, 1, 2, 2])
            if k == 0:
                ts.append((r.randint(-8, 8) / 2,))
            elif k == 1:
                ts.append((r.choice(labs), r.randint(-8, 8) / 4))
            else:
                u, v = r.choice(labs), r.choice(labs)
                if 'REAL' in (ref.vars[u][0], ref.vars[v][0]):
                    continue
                ts.append((u, v, r.randint(-8, 8) / 4))
        return ts

    ts = terms(r.random() < .25)
    if labs and r.random() < .4:
        # an expression that spans the whole model, its private order = the model's order
        ts = [(v, r.randint(-8, 8) / 4) for v in labs] + ts
        ctx.tick('objective spans the model in model order')
    code = f'cqm.set_objective({ts!r})'
    exec(code, dict(cqm=cqm)); src.append(code); ref.set_objective_terms(ts); lines.append('objt ' + c05.terms_arg(ts))
    for i in range(r.choice([0, 1, 2, 3, 3, 4])):
        const = r.random() < .25
        ts = terms(const)
        if labs and not const and r.random() < .25:
            ts = [(v, r.randint(-8, 8) / 4) for v in labs] + ts
            ctx.tick('constraint spans the model in model order')
        sense = r.choice(c05.SENSES); rhs = r.randint(-6, 6) / 2; label = r.choice([f'c{i}', i, ('c', i)])
        weight = r.choice([.5, 2.0, 1.25]) if r.random() < .45 else None
        penalty = 'linear'
        if weight is not None and r.random() < .5 and all(ref.vars[v][0] in ('BINARY', 'SPIN') for t in ts for v in t[:-1]):
            penalty = 'quadratic'
        kw = f'label={label!r}' + (f', weight={weight!r}, penalty={penalty!r}' if weight is not None else '')
        code = f'cqm.add_constraint({ts!r}, {sense!r}, {rhs!r}, {kw})'
        exec(code, dict(cqm=cqm)); src.append(code)
        ref.add_constraint_terms(ts, sense, rhs, label, weight, penalty)
        lines.append(f'cont {lab(label)} {sense} {rat(rhs)} {"-" if weight is None else rat(weight)} {c05.PEN[penalty]} {c05.terms_arg(ts)}')
        ctx.tick('constraint:' + ('const' if not ref.cons[label].p.order else 'vars') + (':soft-' + penalty if weight is not None else ':hard'))
    bins = [v for v in labs if c05.KIND[v] == 'BINARY']
    if len(bins) >= 2 and r.random() < .3:
        # a discrete (one-hot) constraint next to the others: reported like any other equality `sum == 1`
        dv = r.sample(bins, r.choice([2, 2, 3]) if len(bins) > 2 else 2)
        code = f'cqm.add_discrete({dv!r}, label="disc")'
        exec(code, dict(cqm=cqm)); src.append(code)
        ref.add_discrete_vars(dv, 'disc', True)
        lines.append(f'discv {lab("disc")} 1 ' + ','.join(lab(v) for v in dv))
        ctx.tick('constraint:discrete')
    ctx.tick('objective:' + ('const' if not ref.obj.order else 'vars'))
    if wide:
        ctx.tick('wide INTEGER model')
    return cqm, ref, lines, src


def rand_value(r, info):
    vt, lo, hi = info
    if vt == 'BINARY':
        return r.choice([0, 1])
    if vt == 'SPIN':
        return r.choice([-1, 1])
    if vt == 'INTEGER':
        if hi > 1000:
            return r.choice(BIG) if r.random() < .85 else r.randint(-200, 200)
        return r.randint(int(lo), int(hi))
    return r.randint(int(lo * 4), int(hi * 4)) / 4


def cls_of(ref, label=None):
    if label is not None and not ref.cons[label].p.order:
        return 'constant-only constraint'
    return 'general'


def rand_terms(r, ref, const_only=False):
    """terms for `set_objective` / `add_constraint` on the current variables (types from `ref`)"""
    labs = list(ref.vars)
    ints = [v for v in labs if ref.vars[v][0] == 'INTEGER' and ref.vars[v][2] > 1000]
    ts = []
    if ints and not const_only and r.random() < .7:
        ts.append((r.choice(ints), r.choice(ints), r.choice([-2, -1, -.5, .25, .5, 1, 1.5, 2])))
    for _ in range(r.randint(1 if const_only else 0, 4)):
        k = 0 if const_only or not labs else r.choice([0, 1, 1, 2, 2])
        if k == 0:
            ts.append((r.randint(-8, 8) / 2,))
        elif k == 1:
            ts.append((r.choice(labs), r.randint(-8, 8) / 4))
        else:
            u, v = r.choice(labs), r.choice(labs)
            if 'REAL' in (ref.vars[u][0], ref.vars[v][0]):
                continue
            ts.append((u, v, r.randint(-8, 8) / 4))
    return ts


MUTS = (['relv-perm'] * 6 + ['relv-new'] * 2 + ['relc'] * 2 + ['addvar', 'rmvar', 'fix', 'flip', 'cvt', 'objt', 'cont', 'rmcon'])


def mutate(ctx, r, cqm, ref, ncon):
    """one successful public mutation of `cqm`, mirrored on `ref`; returns (kind, protocol line, python source) or None"""
    for _ in range(6):
        k = r.choice(MUTS)
        vs = list(ref.vars); cl = list(ref.cons)
        ref2 = ref.copy()
        try:
            if k == 'relv-perm':
                if len(vs) < 2:
                    continue
                ks = r.sample(vs, r.choice([2, 2, 3]) if len(vs) > 2 else 2)
                mp = {ks[i]: ks[(i + 1) % len(ks)] for i in range(len(ks))}     # a swap or a 3-cycle of labels that stay
                line = 'relv ' + ','.join(f'{lab(a)}={lab(b)}' for a, b in mp.items())
                code = f'cqm.relabel_variables({mp!r}, inplace=True)'; ref2.relabel_variables(mp)
            elif k == 'relv-new':
                new = [x for x in c05.NEWLABS + list(c05.KIND) if x not in ref.vars]
                if not vs or not new:
                    continue
                ks = r.sample(vs, r.randint(1, min(2, len(vs), len(new))))
                mp = dict(zip(ks, r.sample(new, len(ks))))
                line = 'relv ' + ','.join(f'{lab(a)}={lab(b)}' for a, b in mp.items())
                code = f'cqm.relabel_variables({mp!r})'; ref2.relabel_variables(mp)
            elif k == 'relc':
                if not cl:
                    continue
                if len(cl) > 1 and r.random() < .6:
                    ks = r.sample(cl, 2); mp = {ks[0]: ks[1], ks[1]: ks[0]}
                else:
                    mp = {r.choice(cl): r.choice([x for x in ['k', 5, ('k', 1), 'c9'] if x not in ref.cons])}
                line = 'relc ' + ','.join(f'{lab(a)}={lab(b)}' for a, b in mp.items())
                code = f'cqm.relabel_constraints({mp!r})'; ref2.relabel_constraints(mp)
            elif k == 'addvar':
                new = [x for x in list(c05.KIND) + c05.NEWLABS if x not in ref.vars]
                if not new:
                    continue
                v = r.choice(new); vt = r.choice(['BINARY', 'SPIN', 'INTEGER', 'REAL'])
                lo, hi = c05.BOUNDS[vt]
                if vt in ('BINARY', 'SPIN'):
                    code = f'cqm.add_variable({vt!r}, {v!r})'; ref2.add_variable(vt, v, None, None); line = f'addvar {vt} {lab(v)} - -'
                else:
                    code = f'cqm.add_variable({vt!r}, {v!r}, lower_bound={lo!r}, upper_bound={hi!r})'
                    ref2.add_variable(vt, v, lo, hi); line = f'addvar {vt} {lab(v)} {rat(lo)} {rat(hi)}'
            elif k == 'rmvar':
                if not vs:
                    continue
                v = r.choice(vs); line = f'rmvar {lab(v)}'; code = f'cqm.remove_variable({v!r})'; ref2.remove_variable(v)
            elif k == 'fix':
                if not vs:
                    continue
                v = r.choice(vs); vt = ref.vars[v][0]
                a = r.choice([0, 1]) if vt == 'BINARY' else r.choice([-1, 1]) if vt == 'SPIN' else r.choice([-1, 0, 1, 2]) if vt == 'INTEGER' else r.choice([-1, 0.5, 2])
                line = f'fix {lab(v)} {rat(a)}'; code = f'cqm.fix_variable({v!r}, {a!r})'; ref2.fix_variable(v, a)
            elif k == 'flip':
                c = [v for v in vs if ref.vars[v][0] in ('BINARY', 'SPIN')]
                if not c:
                    continue
                v = r.choice(c); line = f'flip {lab(v)}'; code = f'cqm.flip_variable({v!r})'; ref2.flip(v)
            elif k == 'cvt':
                c = [v for v in vs if ref.vars[v][0] in ('BINARY', 'SPIN')]
                if not c:
                    continue
                v = r.choice(c); vt = r.choice(['SPIN', 'INTEGER'] if ref.vars[v][0] == 'BINARY' else ['BINARY', 'INTEGER'])
                line = f'cvt {vt} {lab(v)}'; code = f'cqm.change_vartype({vt!r}, {v!r})'; ref2.change_vartype(vt, v)
            elif k == 'objt':
                ts = rand_terms(r, ref, r.random() < .2)
                line = 'objt ' + c05.terms_arg(ts); code = f'cqm.set_objective({ts!r})'; ref2.set_objective_terms(ts)
            elif k == 'cont':
                ts = rand_terms(r, ref, r.random() < .2)
                ncon[0] += 1
                sense = r.choice(c05.SENSES); rhs = r.randint(-6, 6) / 2; label = r.choice([f'd{ncon[0]}', 100 + ncon[0], ('d', ncon[0])])
                weight = r.choice([.5, 2.0, 1.25]) if r.random() < .4 else None
                kw = f'label={label!r}' + (f', weight={weight!r}, penalty=\'linear\'' if weight is not None else '')
                code = f'cqm.add_constraint({ts!r}, {sense!r}, {rhs!r}, {kw})'
                ref2.add_constraint_terms(ts, sense, rhs, label, weight, 'linear')
                line = f'cont {lab(label)} {sense} {rat(rhs)} {"-" if weight is None else rat(weight)} 0 {c05.terms_arg(ts)}'
            else:
                if not cl:
                    continue
                l = r.choice(cl); cas = r.random() < .4
                line = f'rmcon {lab(l)} {int(cas)}'; code = f'cqm.remove_constraint({l!r}, cascade={cas})'; ref2.remove_constraint(l, cas)
        except c05.Bad:
            continue
        try:
            exec(code, dict(cqm=cqm))
        except Exception:  # noqa  (what raises and what it leaves behind is C05's business)
            ctx.tick('history: mutation raised, history abandoned')
            return None
        ref.__dict__.update(ref2.__dict__)
        if list(cqm.variables) != list(ref.vars) or list(cqm.constraints) != list(ref.cons):
            ctx.tick('history: label order differs from the specification (C05), history abandoned')
            return None
        return k, line, code
    return None


def check_one(ctx, r, out):
    """one model, evaluated when fresh and — on the same object — after each step of a short history"""
    cqm, ref, lines, src = gen_cqm(ctx, r)
    st = dict(pending=list(lines), all=list(lines), src=src, order=None, last=None)
    if not evaluate(ctx, r, out, cqm, ref, st):
        return
    if r.random() < .45:
        return
    ncon = [0]
    for _ in range(r.choice([1, 1, 2, 2, 3, 4])):
        m = mutate(ctx, r, cqm, ref, ncon)
        if m is None:
            return
        k, line, code = m
        st['pending'].append(line); st['all'].append(line); st['src'].append(code); st['last'] = k
        ctx.tick('history step: ' + k)
        if not evaluate(ctx, r, out, cqm, ref, st):
            return


def evaluate(ctx, r, out, cqm, ref, st):
    """every report path of `cqm` in its present state against the definition; False = stop this model"""
    src = st['src']
    lines = st['all']
    labs = list(ref.vars)
    nrows = r.choice([1, 2, 3, 5])
    rows = [[rand_value(r, ref.vars[v]) for v in labs] for _ in range(nrows)]
    atol, rtol = F(r.choice(TOLS)), F(r.choice(TOLS))
    fa, fr_ = float(atol), float(rtol)
    tolkw = f', rtol={fr_!r}, atol={fa!r}'
    tol = dict(rtol=fr_, atol=fa)
    if r.random() < .25:
        # the documented defaults (rtol=1e-6, atol=1e-8), passed by NOT passing them, or another non-dyadic pair: the
        # definition uses the exact rational value of those floats.  Every violation here is 0 or a multiple of 2^-14
        # while atol + rtol*|rhs| < 2^-18, so the float rounding of that sum cannot change a comparison: still exact.
        if r.random() < .6:
            atol, rtol, tolkw, tol = F(1e-8), F(1e-6), '', {}
        else:
            atol, rtol = F(1e-9), F(3e-7)
            tolkw, tol = ', rtol=3e-07, atol=1e-09', dict(rtol=3e-7, atol=1e-9)
        fa, fr_ = float(atol), float(rtol)
        ctx.tick('non-dyadic tolerances' + (' (defaults)' if not tol else ''))
    elif ref.cons and r.random() < .3:
        # the tolerance boundary: atol chosen so that a violated constraint of row 0 sits EXACTLY at atol + rtol*|rhs| (satisfied,
        # the test is <=) or 2^-10 above it (not satisfied); all quantities dyadic with few bits, so float arithmetic is exact
        per0, _, _ = definition(ref, {v: F(a) for v, a in zip(labs, rows[0])}, F(0), F(0))
        cand = [l for l in ref.cons if 0 < per0[l][2] < 2 ** 30]
        if cand:
            l = r.choice(cand)
            rt = F(r.choice([0, 0, F(1, 8), F(1, 2), 1]))
            below = r.random() < .5
            a = per0[l][2] - rt * abs(ref.cons[l].rhs) - (F(1, 1024) if below else 0)
            if a >= 0:
                atol, rtol = a, rt
                fa, fr_ = float(atol), float(rtol)
                assert F(fa) == atol and F(fr_) == rtol
                tolkw = f', rtol={fr_!r}, atol={fa!r}'
                tol = dict(rtol=fr_, atol=fa)
                ctx.tick('tolerance boundary: ' + ('violation 2^-10 above the tolerance' if below else 'violation exactly at the tolerance'))
    elif r.random() < .15:
        # one tolerance given, the other left to its documented default (exact rational value of that float; every violation is
        # a multiple of 2^-14 at least 1e-9 away from any such sum, so float rounding of the sum cannot change a comparison)
        if r.random() < .5:
            atol, tolkw, tol = F(1e-8), f', rtol={fr_!r}', dict(rtol=fr_)
        else:
            rtol, tolkw, tol = F(1e-6), f', atol={fa!r}', dict(atol=fa)
        fa, fr_ = float(atol), float(rtol)
        ctx.tick('one tolerance given, the other defaulted')
    clabels = list(ref.cons)
    pre = c05.PRELUDE + 'from dimod import SampleSet, ExactCQMSolver\n' + '\n'.join(src) + '\n'
    key = (tuple(lines), tuple(map(tuple, rows)), atol, rtol)
    extra_out = []   # `labels=` lines for the Lean driver, sent right after the `feas` line of this evaluation
    # the order in which the sample names its variables: kept from the previous evaluation of this object where possible
    # (labels that are still there keep their place), otherwise the model's order
    if st['order'] is not None and r.random() < .8:
        sorder = [v for v in st['order'] if v in ref.vars] + [v for v in labs if v not in st['order']]
    else:
        sorder = list(labs)
    st['order'] = sorder
    spos = [labs.index(v) for v in sorder]
    after = f' after {st["last"]}' if st['last'] else ''
    ran = []     # the evaluations performed, as source (part of the history of this object)

    def depends_on_history():
        """does a deep copy of the object (no past) report something else than the object itself?"""
        try:
            cp = copy.deepcopy(cqm)
            for row in rows:
                sample = {v: row[i] for v, i in zip(sorder, spos)}
                rep = lambda m: ([(d.label, d.lhs_energy) for d in m.iter_constraint_data(sample)], m.objective.energy(sample) if labs else 0)  # noqa: E731
                if rep(cqm) != rep(cp):
                    return True
            return False
        except Exception:  # noqa
            return True

    def fail(site, icls, what, check):
        if after and depends_on_history():
            icls, what = f'evaluated again{after}', what + f' [{icls}; a deep copy of the model reports something else than the model itself]'
        ctx.fail('property', site, icls, what, repro=pre + check, detail=dict(build=src, rows=rows, atol=str(atol), rtol=str(rtol)))

    # ---------------- per-sample path
    per_row = []
    ok = True
    for row in rows:
        x = {v: F(a) for v, a in zip(labs, row)}
        sample = {v: row[i] for v, i in zip(sorder, spos)}
        if labs and r.random() < .3:
            xs = r.sample(EXTRA_LABELS, r.choice([1, 2]))
            if r.random() < .5:
                sample.update({e: r.choice([0, 1]) for e in xs})
            else:
                sample = {**{e: r.choice([0, 1]) for e in xs}, **sample}
            ctx.tick('single sample with superfluous variables')
        per, feas, en = definition(ref, x, atol, rtol)
        try:
            data = list(cqm.iter_constraint_data(sample))
            # every option combination, the options given explicitly or left to their defaults
            expl = r.random() < .5
            okw = lambda sk, cl: ({'skip_satisfied': sk, 'clip': cl} if expl else {k: True for k, b in (('skip_satisfied', sk), ('clip', cl)) if b})   # noqa: E731
            vs_ = {sc: list(cqm.iter_violations(sample, **okw(*sc))) for sc in COMBOS}
            ds_ = {sc: cqm.violations(sample, **okw(*sc)) for sc in COMBOS}
            v0, v1, v2, v3 = (vs_[sc] for sc in COMBOS)
            cf = cqm.check_feasible(sample, **tol)
            if len(tol) == 2 and bool(cqm.check_feasible(sample, tol['rtol'], tol['atol'])) != bool(cf):
                fail('CQM.check_feasible', 'positional tolerances', f'check_feasible({sample!r}, rtol, atol) given positionally differs from the keyword form',
                     f'assert cqm.check_feasible({sample!r}, {tol["rtol"]!r}, {tol["atol"]!r}) == cqm.check_feasible({sample!r}{tolkw})\n')
                return False
        except Exception as e:  # noqa
            fail('CQM.iter_constraint_data', 'raises', f'{type(e).__name__}: {e}', f'list(cqm.iter_constraint_data({sample!r}))\n')
            return False
        vl = lambda l: ','.join(f'{lab(a)}={rat(b)}' for a, b in l)   # noqa: E731
        per_row.append(','.join(f'{rat(d.lhs_energy)}:{rat(d.rhs_energy)}:{d.sense.value}:{rat(d.activity)}:{rat(d.violation)}' for d in data)
                       + f'|{vl(v0)}|{vl(v1)}|{vl(v2)}|{vl(v3)}|' + '/'.join(vl(list(ds_[sc].items())) for sc in COMBOS) + f'|{int(bool(cf))}')
        # predicate: against the definition
        if [d.label for d in data] != clabels:
            fail('CQM.iter_constraint_data', 'labels', 'labels out of order', f'assert [d.label for d in cqm.iter_constraint_data({sample!r})] == {clabels!r}\n'); return False
        for d in data:
            lhs, act, viol, sat = per[d.label]
            got = (F(float(d.lhs_energy)), F(float(d.rhs_energy)), d.sense.value, F(float(d.activity)), F(float(d.violation)))
            want = (lhs, ref.cons[d.label].rhs, ref.cons[d.label].sense, act, viol)
            if got != want:
                fail('CQM.iter_constraint_data', cls_of(ref, d.label), f'constraint {d.label!r} at {sample!r}: (lhs, rhs, sense, activity, violation) = {tuple(map(str, got))}, definition {tuple(map(str, want))}',
                     f'd = [d for d in cqm.iter_constraint_data({sample!r}) if d.label == {d.label!r}][0]\n'
                     f'assert (d.lhs_energy, d.activity, d.violation) == ({float(lhs)!r}, {float(act)!r}, {float(viol)!r}), d\n')
                ok = False
                break
        if not ok:
            break
        want0 = report(per, clabels, False, False)
        for l in clabels:
            c_ = ref.cons[l]
            ctx.tick(f'constraint at row: {c_.sense} {"violated" if per[l][2] > 0 else "met exactly" if per[l][2] == 0 else "strictly slack"} '
                     f'{"soft" if c_.weight is not None else "hard"}{"" if c_.p.order else " constant-only"}')
        for sc in COMBOS:
            wd = report(per, clabels, *sc)
            gd, gl = ds_[sc], vs_[sc]
            g = {a: F(float(b)) for a, b in gd.items()}
            if g != wd or list(gd) != list(wd) or [(a, F(float(b))) for a, b in gl] != list(wd.items()):
                bad = next((l for l in clabels if g.get(l) != wd.get(l)), None)
                if bad is None:
                    bad = next((l for l in clabels if dict((a, F(float(b))) for a, b in gl).get(l) != wd.get(l)), None)
                kw = ''.join(f', {k}={v}' for k, v in okw(*sc).items())
                icls = cls_of(ref, bad) if bad is not None else 'general'
                if bad is not None and sc == (True, True) and report(per, clabels, True, False) == {a: F(float(b)) for a, b in ds_[(True, False)].items()}:
                    icls = 'skip_satisfied and clip together'
                wsrc = {a: float(b) for a, b in wd.items()}
                fail('CQM.violations', icls, f'violations / iter_violations({kw[2:] or "no options"}) at {sample!r} = {gd!r} / {gl!r}, definition {wsrc!r}',
                     f'got = cqm.violations({sample!r}{kw}); it = list(cqm.iter_violations({sample!r}{kw}))\nprint(got, it)\n'
                     f'assert got == {wsrc!r} and list(got) == {list(wd)!r}, got\nassert it == {[(a, float(b)) for a, b in wd.items()]!r}, it\n')
                ok = False
                break
        if not ok:
            break
        # ---- the `labels=` argument (first row of every evaluation): default None, an explicit empty selection, a
        # permuted subset (possibly with a repeat), everything reversed, and a selection with an unknown label
        if row is rows[0]:
            sels = [None, []]
            if clabels:
                sub = r.sample(clabels, r.randint(1, len(clabels)))
                if r.random() < .3:
                    sub.append(r.choice(sub))
                sels += [sub, list(reversed(clabels))]
                bad = list(sub); bad.insert(r.randrange(len(bad) + 1), 'nope'); sels.append(bad)
            else:
                sels.append(['nope'])
            for ls in sels:
                conv = r.choice([list, tuple]) if ls is not None else (lambda z: z)
                lsrc = 'None' if ls is None else repr(conv(ls))
                want_raise = ls is not None and any(l not in ref.cons for l in ls)
                sel = clabels if ls is None else ls
                ctx.tick('labels=' + ('None' if ls is None else 'empty' if not ls else 'unknown label' if want_raise else 'selection'))

                def lcall(f):
                    try:
                        return list(f())
                    except ValueError:
                        return 'raise:value'
                    except Exception as e:  # noqa
                        return 'raise:' + type(e).__name__
                arg = None if ls is None else conv(ls)
                gd = lcall(lambda: cqm.iter_constraint_data(sample, labels=arg))
                g0 = lcall(lambda: cqm.iter_violations(sample, labels=arg))
                g1 = lcall(lambda: cqm.iter_violations(sample, skip_satisfied=True, labels=arg))
                g2 = lcall(lambda: cqm.iter_violations(sample, clip=True, labels=arg))
                g3 = lcall(lambda: cqm.iter_violations(sample, clip=True, skip_satisfied=True, labels=arg))
                shd = gd if isinstance(gd, str) else ','.join(
                    f'{lab(d.label)}:{rat(d.lhs_energy)}:{rat(d.rhs_energy)}:{d.sense.value}:{rat(d.activity)}:{rat(d.violation)}' for d in gd)
                shv = lambda g: g if isinstance(g, str) else ','.join(f'{lab(a)}={rat(b)}' for a, b in g)   # noqa: E731
                larg = 'none' if ls is None else (','.join(lab(l) for l in ls) or '-')
                extra_out.append(dict(lines=[f'feasl {larg} ' + (','.join(rat(a) for a in row) or '-')],
                                      expect=f'L {shd}|{shv(g0)}|{shv(g1)}|{shv(g2)}|{shv(g3)}', src=list(src), rows=[row]))
                if want_raise:
                    # a generator: what is yielded before the unknown label is reached is not part of `list(...)`
                    okl = gd == g0 == g1 == g2 == g3 == 'raise:value'
                    wantd = 'ValueError (unknown constraint label)'
                else:
                    wd = [(l, per[l][0], ref.cons[l].rhs, ref.cons[l].sense, per[l][1], per[l][2]) for l in sel]
                    okl = (not isinstance(gd, str) and not isinstance(g0, str) and not isinstance(g1, str) and not isinstance(g2, str) and not isinstance(g3, str)
                           and [(a, F(float(b))) for a, b in g3] == [(l, per[l][2]) for l in sel if per[l][2] > 0]
                           and [(d.label, F(float(d.lhs_energy)), F(float(d.rhs_energy)), d.sense.value, F(float(d.activity)), F(float(d.violation))) for d in gd] == wd
                           and [(a, F(float(b))) for a, b in g0] == [(l, per[l][2]) for l in sel]
                           and [(a, F(float(b))) for a, b in g1] == [(l, per[l][2]) for l in sel if per[l][2] > 0]
                           and [(a, F(float(b))) for a, b in g2] == [(l, max(per[l][2], F(0))) for l in sel])
                    wantd = f'the data of {list(sel)!r} in that order'
                if not okl:
                    got0 = g0 if isinstance(g0, str) else [(a, float(b)) for a, b in g0]
                    fail('CQM.iter_violations', 'labels=' + ('None' if ls is None else 'empty selection' if not ls else 'unknown label' if want_raise else 'selection'),
                         f'iter_constraint_data / iter_violations({sample!r}, labels={lsrc}): expected {wantd}; iter_violations gave {got0!r}, '
                         f'iter_constraint_data {"raised" if isinstance(gd, str) else [d.label for d in gd]}',
                         f'print(list(cqm.iter_violations({sample!r}, labels={lsrc})))\nprint([d.label for d in cqm.iter_constraint_data({sample!r}, labels={lsrc})])\n'
                         + (f'assert False, "expected ValueError"\n' if want_raise else
                            f'assert [l for l, _ in cqm.iter_violations({sample!r}, labels={lsrc})] == {list(sel)!r}\n'
                            f'assert [d.label for d in cqm.iter_constraint_data({sample!r}, labels={lsrc})] == {list(sel)!r}\n'))
                    ok = False
                    break
            if not ok:
                break
        # the same sample as an explicit NumPy row of every integer dtype that holds it (the C++ loops are
        # instantiated per sample dtype; products of two sample values must not be formed in that type)
        if labs and all(float(a).is_integer() for a in row):
            for dt in ALL_INT_DTYPES:
                if not all(np.iinfo(dt).min <= a <= np.iinfo(dt).max for a in row):
                    continue
                srow = [row[i] for i in spos]
                sorder_ = list(sorder)
                if r.random() < .3:
                    # a superfluous column before / between / after the model's variables
                    pos_ = r.choice([0, len(srow), r.randrange(len(srow) + 1)])
                    srow = srow[:pos_] + [r.choice([0, 1])] + srow[pos_:]; sorder_ = sorder_[:pos_] + ['__e1'] + sorder_[pos_:]
                    ctx.tick('explicit row with a superfluous column')
                arr1 = np.array([srow], dtype=dt)
                ctx.tick('row dtype ' + np.dtype(dt).name)
                try:
                    gd = {a: F(float(b)) for a, b in cqm.violations((arr1, sorder_)).items()}
                    cfd = bool(cqm.check_feasible((arr1, sorder_), **tol))
                    sc = r.choice(COMBOS[1:])
                    gsc = {a: F(float(b)) for a, b in cqm.violations((arr1, sorder_), skip_satisfied=sc[0], clip=sc[1]).items()}
                    if gsc != report(per, clabels, *sc):
                        fail('CQM.violations', f'{np.dtype(dt).name} sample', f'violations(skip_satisfied={sc[0]}, clip={sc[1]}) of the {np.dtype(dt).name} row {srow!r} (columns {sorder_!r}) = '
                             f'{ {a: float(b) for a, b in gsc.items()} !r}, definition { {a: float(b) for a, b in report(per, clabels, *sc).items()} !r}',
                             f'assert cqm.violations((np.array([{srow!r}], dtype=np.{np.dtype(dt).name}), {sorder_!r}), skip_satisfied={sc[0]}, clip={sc[1]}) == '
                             f'{ {a: float(b) for a, b in report(per, clabels, *sc).items()} !r}\n')
                        ok = False
                        break
                except Exception as e:  # noqa
                    fail('CQM.violations', 'raises', f'{type(e).__name__}: {e} for a {np.dtype(dt).name} row', f'cqm.violations((np.array([{srow!r}], dtype=np.{np.dtype(dt).name}), {sorder_!r}))\n')
                    ok = False
                    break
                if gd != want0 or cfd != feas:
                    fail('CQM.violations', f'{np.dtype(dt).name} sample', f'violations of the {np.dtype(dt).name} row {srow!r} (columns {sorder_!r}) = { {a: float(b) for a, b in gd.items()} !r} (feasible {cfd}), '
                         f'definition { {a: float(b) for a, b in want0.items()} !r} (feasible {feas})',
                         f'assert cqm.violations((np.array([{srow!r}], dtype=np.{np.dtype(dt).name}), {sorder_!r})) == { {a: float(b) for a, b in want0.items()} !r}\n')
                    ok = False
                    break
            if not ok:
                break
        if bool(cf) != feas:
            hard_ok = all(per[l][3] for l in clabels if ref.cons[l].weight is None)
            soft_bad = any(not per[l][3] for l in clabels if ref.cons[l].weight is not None)
            const_bad = any(not ref.cons[l].p.order for l in clabels)
            icls = 'violated soft constraint' if (hard_ok and soft_bad and not cf) else ('constant-only constraint' if const_bad else 'general')
            fail('CQM.check_feasible', icls, f'check_feasible({sample!r}{tolkw}) = {cf}, definition (every hard constraint satisfied) {feas}',
                 f'assert cqm.check_feasible({sample!r}{tolkw}) == {feas}\n')
            ok = False
            break
    if not ok:
        return False
    # ---------------- vectorised path
    if any(isinstance(a, float) for row in rows for a in row):
        dt = float
    else:
        flat = [a for row in rows for a in row]
        fits = [d for d in ALL_INT_DTYPES if all(np.iinfo(d).min <= a <= np.iinfo(d).max for a in flat)]
        dt = r.choice(fits)   # also the smallest one NumPy / as_samples would pick
        ctx.tick('matrix dtype ' + np.dtype(dt).name)
    arr = np.array(rows, dtype=dt).reshape(nrows, len(labs))
    perm = list(spos)       # the columns in the order the per-sample path named them …
    if r.random() < .35:
        r.shuffle(perm)     # … or in another order
    mat = arr[:, perm]; cols = [labs[i] for i in perm]
    if labs and r.random() < .45:
        # SUPERFLUOUS sample variables (labels the model does not have: samples of a larger model) before / between / after the
        # model's variables, with the model's variables in or out of model order, one or several rows
        where = r.choice(['after', 'after', 'before', 'between'])
        for e in r.sample(EXTRA_LABELS, r.choice([1, 1, 2])):
            pos = len(cols) if where == 'after' else 0 if where == 'before' else r.randrange(len(cols) + 1)
            col = np.array([r.choice([0, 1]) for _ in range(nrows)], dtype=mat.dtype).reshape(nrows, 1)
            mat = np.concatenate([mat[:, :pos], col, mat[:, pos:]], axis=1); cols.insert(pos, e)
        inorder = [c_ for c_ in cols if c_ in ref.vars] == labs
        ctx.tick(f'superfluous sample variables {where}, model variables {"in" if inorder else "out of"} model order, {"1 row" if nrows == 1 else "several rows"}')
    mat = np.ascontiguousarray(mat)
    sl = (mat, cols)
    slsrc = f'(np.array({mat.tolist()!r}, dtype=np.{np.dtype(dt).name}), {cols!r})' if labs else f'(np.empty(({nrows}, 0)), [])'
    if labs and r.random() < .3:
        # round 8: the same labelled rows handed over in the other samples_like forms `as_samples` dispatches on
        dicts = [{c_: mat[i, j].item() for j, c_ in enumerate(cols)} for i in range(nrows)]
        form = r.choice(['list of dicts', 'SampleSet', 'dict' if nrows == 1 else 'list of dicts'])
        if form == 'list of dicts':
            sl = dicts; slsrc = repr(dicts)
        elif form == 'dict':
            sl = dicts[0]; slsrc = repr(dicts[0])
        else:
            sl = SampleSet.from_samples((mat, cols), vartype='INTEGER', energy=[0] * nrows)
            slsrc = f'SampleSet.from_samples({slsrc}, vartype="INTEGER", energy={[0] * nrows!r})'
        ctx.tick('from_samples_cqm given a ' + form)
    try:
        ss = SampleSet.from_samples_cqm(sl, cqm, **tol)
        rec = ss.record
        sat_m = [[bool(b) for b in rec.is_satisfied[i]] for i in range(nrows)]
        fe_v = [bool(b) for b in rec.is_feasible]
        en_v = [F(float(e)) for e in rec.energy]
        # rows come back in the order given; columns in ss.variables order
        back = [[F(float(rec.sample[i][list(ss.variables).index(v)])) for v in labs] for i in range(nrows)]
    except Exception as e:  # noqa
        fail('SampleSet.from_samples_cqm', 'raises', f'{type(e).__name__}: {e}', f'SampleSet.from_samples_cqm({slsrc}, cqm{tolkw})\n')
        return False
    if labs:
        # correspondence of the gather step: energies of the objective and of every lhs for the LAST row of the labelled array as
        # given (its column order, its superfluous columns) against the Lean model of `_energies` (`feasw`)
        one = (np.ascontiguousarray(mat[-1:, :]), cols)
        try:
            wexp = 'W ' + rat(cqm.objective.energy(one)) + '|' + ','.join(rat(cqm.constraints[l].lhs.energy(one)) for l in clabels) + '|0'
            extra_out.append(dict(lines=['feasw ' + ','.join(lab(c_) for c_ in cols) + ' ' + ','.join(rat(a) for a in mat[-1].tolist())], expect=wexp, src=list(src), rows=[rows[-1]]))
        except Exception:  # noqa  (the vectorised comparison below reports what is wrong)
            pass
        ran.append(f'cqm.violations({ {v: rows[0][i] for v, i in zip(sorder, spos)} !r}); cqm.check_feasible({ {v: rows[0][i] for v, i in zip(sorder, spos)} !r})')
    ran.append(f'SampleSet.from_samples_cqm({slsrc}, cqm)')
    vec = ','.join(''.join(str(int(b)) for b in row) for row in sat_m) + '|' + ''.join(str(int(b)) for b in fe_v) + '|' + ','.join(rat(e) for e in en_v)
    rows_arg = ';'.join(','.join(rat(a) for a in row) or '-' for row in rows)
    out.append(dict(lines=st['pending'] + [f'feas {rat(atol)} {rat(rtol)} {rows_arg}'],
                    expect='P ' + ' ; '.join(per_row) + f' V {vec} W {vec}', src=list(src), rows=rows))
    st['pending'] = []
    out.extend(extra_out)
    if back != [[F(a) for a in row] for row in rows] or ss.info.get('constraint_labels') != clabels:
        fail('SampleSet.from_samples_cqm', 'rows/labels', 'samples or constraint labels not as given',
             f'ss = SampleSet.from_samples_cqm({slsrc}, cqm)\nassert ss.info["constraint_labels"] == {clabels!r}\n')
        return False
    def vec_class(default):
        """input class of a vectorised failure: is it the superfluous sample variables? (the same rows restricted to the model's
        variables report something else)"""
        if len(cols) == len(labs):
            return default
        try:
            keep = [j for j, c_ in enumerate(cols) if c_ in ref.vars]
            s2 = SampleSet.from_samples_cqm((np.ascontiguousarray(mat[:, keep]), [cols[j] for j in keep]), cqm, **tol)
            same = (np.array_equal(s2.record.energy, rec.energy) and np.array_equal(s2.record.is_satisfied, rec.is_satisfied)
                    and np.array_equal(s2.record.is_feasible, rec.is_feasible))
        except Exception:  # noqa
            same = True
        return default if same else 'superfluous sample variables' + (', several rows' if nrows > 1 else '')
    nontrivial = False
    for i, row in enumerate(rows):
        x = {v: F(a) for v, a in zip(labs, row)}
        per, feas, en = definition(ref, x, atol, rtol)
        wsat = [per[l][3] for l in clabels]
        nontrivial = nontrivial or not all(wsat)
        if sat_m[i] != wsat:
            j = next(j for j in range(len(clabels)) if sat_m[i][j] != wsat[j])
            fail('SampleSet.from_samples_cqm', vec_class(cls_of(ref, clabels[j])), f'is_satisfied row {i} = {sat_m[i]}, definition {wsat}',
                 f'ss = SampleSet.from_samples_cqm({slsrc}, cqm{tolkw})\nassert list(ss.record.is_satisfied[{i}]) == {wsat!r}\n')
            return False
        if fe_v[i] != feas:
            fail('SampleSet.from_samples_cqm', vec_class('is_feasible'), f'is_feasible row {i} = {fe_v[i]}, definition {feas}',
                 f'ss = SampleSet.from_samples_cqm({slsrc}, cqm{tolkw})\nassert bool(ss.record.is_feasible[{i}]) == {feas}\n')
            return False
        if en_v[i] != en:
            icls = 'constant-only objective' if (not ref.obj.order and F(float(cqm.objective.energy(dict(zip(labs, row))))) != value(ref.obj, x)) else 'energy'
            fail('SampleSet.from_samples_cqm', vec_class(icls), f'energy row {i} = {float(en_v[i])}, definition {float(en)}',
                 f'ss = SampleSet.from_samples_cqm({slsrc}, cqm{tolkw})\nassert ss.record.energy[{i}] == {float(en)!r}, ss.record.energy\n')
            return False
    ctx.case(key, nontrivial=nontrivial, sample=dict(build=src, rows=rows, atol=str(atol), rtol=str(rtol)))
    # ---------------- exact solver on small models
    dom = []
    for v in labs:
        vt, lo, hi = ref.vars[v]
        dom.append(None if vt == 'REAL' or hi - lo > 200 else ([0, 1] if vt == 'BINARY' else [-1, 1] if vt == 'SPIN' else list(range(int(lo), int(hi) + 1))))
    if labs and all(d is not None for d in dom) and np.prod([len(d) for d in dom]) <= 150 and r.random() < .5:
        try:
            es = dimod.ExactCQMSolver().sample_cqm(cqm, **tol)
        except Exception as e:  # noqa
            fail('ExactCQMSolver.sample_cqm', 'raises', f'{type(e).__name__}: {e}', f'ExactCQMSolver().sample_cqm(cqm{tolkw})\n')
            return False
        ctx.tick('exact_solver')
        ran.append(f'ExactCQMSolver().sample_cqm(cqm)')
        out.append(dict(lines=[f'exact {rat(atol)} {rat(rtol)}'], check=exact_cmp(es), src=list(src), rows=[]))
        seen = set()
        esv = list(es.variables)
        for i in range(len(es.record)):
            x = {v: F(float(es.record.sample[i][esv.index(v)])) for v in labs}
            seen.add(tuple(x[v] for v in labs))
            per, feas, en = definition(ref, x, atol, rtol)
            gsat = [bool(b) for b in es.record.is_satisfied[i]]
            if (gsat != [per[l][3] for l in es.info['constraint_labels']] or bool(es.record.is_feasible[i]) != feas
                    or F(float(es.record.energy[i])) != en):
                fail('ExactCQMSolver.sample_cqm', 'row', f'row {dict((k, float(a)) for k, a in x.items())}: energy {es.record.energy[i]}, feasible {es.record.is_feasible[i]}, satisfied {gsat}; '
                     f'definition {float(en)}, {feas}, {[per[l][3] for l in clabels]}',
                     f'es = ExactCQMSolver().sample_cqm(cqm{tolkw})\nprint(es)\nassert False\n')
                return False
        # the expected rows: the product of the domains — one-hot assignments only for the variables of a discrete constraint
        groups = [list(c_.p.order) for c_ in ref.cons.values() if ref.discrete(c_)]
        gvars = [v for g_ in groups for v in g_]
        want_rows = None
        if len(set(gvars)) == len(gvars):
            free = [v for v in labs if v not in gvars]
            want_rows = set()
            for combo in itertools.product(*[dom[labs.index(v)] for v in free]):
                base = dict(zip(free, combo))
                for hots in itertools.product(*groups):
                    row_ = dict(base)
                    for g_, hot in zip(groups, hots):
                        for v in g_:
                            row_[v] = 1 if v == hot else 0
                    want_rows.add(tuple(F(row_[v]) for v in labs))
            if groups:
                ctx.tick('exact_solver: with a discrete constraint')
        if want_rows is not None and seen != want_rows:
            fail('ExactCQMSolver.sample_cqm', 'enumeration', 'the rows are not exactly the assignments of the variables\' domains',
                 f'es = ExactCQMSolver().sample_cqm(cqm)\nassert len(es) == {len(want_rows)}\n')
            return False
    elif (not labs or any(ref.vars[v][0] == 'REAL' for v in labs)) and r.random() < .3:
        # no variable at all (an empty sample set WITHOUT feasibility fields — recorded, not judged) / a REAL variable (ValueError)
        try:
            es0 = dimod.ExactCQMSolver().sample_cqm(cqm, **tol); exc = None
        except ValueError:
            es0 = None; exc = 'value'
        except Exception as e:  # noqa
            fail('ExactCQMSolver.sample_cqm', 'raises', f'{type(e).__name__}: {e}', f'ExactCQMSolver().sample_cqm(cqm{tolkw})\n')
            return False
        ctx.tick('exact_solver: ' + ('no variables' if not labs else 'REAL variable'))
        if labs and exc is None:
            fail('ExactCQMSolver.sample_cqm', 'REAL variable', 'a model with a REAL variable was enumerated', f'ExactCQMSolver().sample_cqm(cqm)\nassert False\n')
            return False
        out.append(dict(lines=[f'exact {rat(atol)} {rat(rtol)}'], check=exact_cmp(es0, exc), src=list(src), rows=[]))
    # the single-sample guard of the per-sample path: any number of rows other than one is a ValueError, from every entry point
    if r.random() < .12:
        k = r.choice([0, 2, 3])
        garr = (np.zeros((k, len(labs)), dtype=np.int8), list(labs))
        gsrc = f'(np.zeros(({k}, {len(labs)}), dtype=np.int8), {list(labs)!r})'

        def raises_value(f):
            try:
                f()
            except ValueError:
                return True
            except Exception:  # noqa
                return False
            return False
        res = [raises_value(lambda: list(cqm.iter_constraint_data(garr))), raises_value(lambda: list(cqm.iter_violations(garr))),
               raises_value(lambda: cqm.check_feasible(garr, **tol)), raises_value(lambda: cqm.violations(garr))]
        ctx.tick(f'single-sample guard: {k} rows')
        if not all(res):
            fail('CQM.iter_constraint_data', 'not exactly one sample', f'{k} samples given: ValueError expected from iter_constraint_data / iter_violations / check_feasible / violations, raised: {res}',
                 f'try:\n    cqm.violations({gsrc}); cqm.check_feasible({gsrc})\nexcept ValueError:\n    pass\nelse:\n    assert False, "no ValueError"\n')
            return False
        out.append(dict(lines=[f'feasg {k}'], expect='G ' + ''.join(str(int(b)) for b in res[:3]), src=list(src), rows=[]))
    # the first branch of from_samples_cqm: an argument of length 0 (no rows given as a list / array; for a model without
    # variables also ONE sample given as an empty dict — `len({}) == 0` — recorded as coded)
    if r.random() < .12:
        forms = [('[]', [], 0), (f'np.empty((0, {len(labs)}))', np.empty((0, len(labs))), 0), (f'(np.empty((0, {len(labs)})), {labs!r})', (np.empty((0, len(labs))), labs), 2)]
        fsrc, farg, flen = r.choice(forms)
        try:
            e0 = SampleSet.from_samples_cqm(farg, cqm, **tol)
            shp = e0.record.is_satisfied.shape
            got0 = f'Z {shp[1] if len(shp) > 1 else 0} {int("constraint_labels" in e0.info)}'
            nrow0 = len(e0.record)
        except Exception as e:  # noqa
            fail('SampleSet.from_samples_cqm', 'no rows', f'{type(e).__name__}: {e}', f'SampleSet.from_samples_cqm({fsrc}, cqm)\n')
            return False
        ctx.tick(f'from_samples_cqm without rows: len(argument) = {flen}' + (' (one empty dict)' if fsrc == '{}' else ''))
        if nrow0 != 0 and fsrc != '{}':
            fail('SampleSet.from_samples_cqm', 'no rows', f'{nrow0} rows reported for an input without rows', f'assert len(SampleSet.from_samples_cqm({fsrc}, cqm)) == 0\n')
            return False
        out.append(dict(lines=[f'feas0 {flen}'], expect=got0, src=list(src), rows=[]))
    if not labs:
        # round 8 (judged: "for every CQM and sample"): ONE sample given as an empty dict, for a model without variables, is one row and
        # is evaluated like `check_feasible({})` / `violations({})` / `from_samples_cqm([{}], cqm)` evaluate it — `len({}) == 0` is not "no rows"
        per_d, feas_d, en_d = definition(ref, {}, atol, rtol)
        try:
            e1 = SampleSet.from_samples_cqm({}, cqm, **tol)
            n1 = len(e1.record)
            got1 = (n1, [F(float(t)) for t in e1.record.energy], [bool(b) for b in e1.record.is_satisfied[0]] if n1 else None,
                    [bool(b) for b in e1.record.is_feasible], list(e1.info.get('constraint_labels', [])), bool(cqm.check_feasible({}, **tol)))
        except Exception as e:  # noqa
            got1 = f'{type(e).__name__}: {e}'
        want1 = (1, [en_d], [per_d[l][3] for l in ref.cons], [feas_d], list(ref.cons), feas_d)
        ctx.tick('from_samples_cqm: one empty-dict sample, model without variables')
        ctx.case(('empty-dict', tuple(src), str(atol), str(rtol)), nontrivial=bool(ref.cons))
        if got1 != want1:
            fail('SampleSet.from_samples_cqm', 'one empty-dict sample, model without variables',
                 f'(rows, energy, is_satisfied[0], is_feasible, constraint_labels, check_feasible({{}})) = {got1!r}; the definition gives {want1!r}',
                 f's = SampleSet.from_samples_cqm({{}}, cqm{tolkw})\nassert len(s) == 1, "one sample (an empty dict) was given, " + str(len(s)) + " rows reported"\n'
                 f'assert [float(t) for t in s.record.energy] == {[float(en_d)]!r}\nassert [bool(b) for b in s.record.is_satisfied[0]] == {[per_d[l][3] for l in ref.cons]!r}\n'
                 f'assert bool(s.record.is_feasible[0]) == bool(cqm.check_feasible({{}}{tolkw})) == {feas_d!r}\n')
            return False
        sat1 = ''.join(str(int(b)) for b in got1[2])
        out.append(dict(lines=[f'feas0m 1 0 {rat(atol)} {rat(rtol)}'], expect=f'R {sat1}|{int(got1[3][0])}|{rat(got1[1][0])}', src=list(src), rows=[]))
    st['src'] = src + ran      # the evaluations are part of what happened to this object
    return True


def exact_cmp(es, exc=None):
    """comparison of the real `ExactCQMSolver` result with the Lean model's `exact` line: column set, the rows IN ORDER, is_satisfied,
    is_feasible, energies, presence of `constraint_labels`; returns a function(model line) -> None | message"""
    def cmp(g):
        if exc is not None:
            return None if g == 'X raise:' + exc else f'impl raised {exc}, model `{g[:200]}`'
        names = es.record.dtype.names
        if 'is_feasible' not in names:
            return None if g == 'X nofields' else f'impl returned a sample set without feasibility fields, model `{g[:200]}`'
        parts = g[2:].split('|') if g.startswith('X ') else []
        if len(parts) != 6:
            return f'model `{g[:200]}`, impl returned {len(es.record)} rows'
        cols, rows, sat, fe, en, lbl = parts
        cols = cols.split(',') if cols else []
        esl = [lab(v) for v in es.variables]
        if sorted(cols) != sorted(esl):
            return f'columns: impl {esl}, model {cols}'
        idx = [esl.index(c) for c in cols]
        n = len(es.record)
        mrows = rows.split(';') if rows else []
        if len(mrows) != n:
            return f'impl {n} rows, model {len(mrows)}'
        smp = np.asarray(es.record.sample)[:, idx]
        for i in range(n):
            if ','.join(str(int(a)) for a in smp[i]) != mrows[i]:
                return f'row {i}: impl {smp[i].tolist()} (columns {cols}), model {mrows[i]} — the enumeration order differs'
        isat = ','.join(''.join(str(int(b)) for b in es.record.is_satisfied[i]) for i in range(n))
        ife = ''.join(str(int(b)) for b in es.record.is_feasible)
        ien = ','.join(rat(e) for e in es.record.energy)
        if (isat, ife, ien) != (sat, fe, en):
            return f'reports: impl {isat[:150]}|{ife[:80]}|{ien[:150]} model {sat[:150]}|{fe[:80]}|{en[:150]}'
        if ('constraint_labels' in es.info) != (lbl == '1'):
            return 'presence of info["constraint_labels"]'
        return None
    return cmp


# ------------------------------------------------------------------------------------------------------------------
# ExactCQMSolver over domains whose enumeration sits at an integer-dtype boundary

# (lo, hi) of an INTEGER variable: the enumerated values straddle int8 / uint8 / int16 / uint16 limits, are all non-negative
# (an implementation may pick an unsigned type), all negative, or mixed
DOMAINS_QUICK = [(0, 127), (0, 128), (0, 129), (0, 200), (0, 255), (0, 256), (0, 300), (100, 200), (128, 255), (120, 136), (250, 260),
                 (-1, 200), (-128, 127), (-129, 127), (-128, 128), (-200, -100), (-130, -120), (1, 130)]
DOMAINS_THOROUGH = [(0, 32767), (0, 32768), (0, 40000), (0, 65535), (0, 65536), (32700, 32800), (65500, 65600), (-32769, -32700), (-32768, 32767)]
SMALL = [(0, 1), (0, 3), (0, 2), (1, 2), (-1, 1), (5, 6)]
EDGE = {0, 1, -1, 126, 127, 128, 129, 254, 255, 256, 257, -127, -128, -129, -130, 32766, 32767, 32768, 32769, 65534, 65535, 65536, 65537, -32768, -32769}


def exact_domains(ctx, r, thorough, out):
    """`ExactCQMSolver.sample_cqm` on a CQM whose variables' domains sit at integer-dtype boundaries, every combination of:
    all-INTEGER non-negative / with a negative bound / next to a BINARY or SPIN variable, with or without a discrete constraint.
    Every row with a boundary value and a random sample of the others is compared with the definition; the set of rows must be
    the product of the domains (one-hot assignments for the variables of a discrete constraint).  Returns False to stop."""
    cqm = CQM(); ref = c05.Ref(); src = []; lines = ['new']
    doms = {}

    def addvar(v, vt, lo=None, hi=None):
        if vt == 'INTEGER':
            code = f'cqm.add_variable("INTEGER", {v!r}, lower_bound={lo!r}, upper_bound={hi!r})'
            ref.add_variable(vt, v, lo, hi); doms[v] = list(range(lo, hi + 1)); lines.append(f'addvar {vt} {lab(v)} {rat(lo)} {rat(hi)}')
        else:
            code = f'cqm.add_variable({vt!r}, {v!r})'
            ref.add_variable(vt, v, None, None); doms[v] = [0, 1] if vt == 'BINARY' else [-1, 1]; lines.append(f'addvar {vt} {lab(v)} - -')
        exec(code, dict(cqm=cqm)); src.append(code)

    big = r.choice(DOMAINS_QUICK + (DOMAINS_THOROUGH if thorough and r.random() < .5 else []))
    shape = r.choice(['one', 'one', 'two', 'two', 'two', 'with-binary', 'with-spin', 'with-negative', 'with-discrete'])
    order = []
    if shape in ('with-binary', 'with-spin', 'with-negative', 'with-discrete') and r.random() < .5:
        order.append('other')
    order.insert(r.randrange(len(order) + 1), 'big')
    if shape == 'two':
        order.insert(r.randrange(len(order) + 1), 'small')
    elif 'other' not in order and shape != 'one':
        order.append('other')
    disc = []
    for what in order:
        if what == 'big':
            addvar('i', 'INTEGER', *big)
        elif what == 'small':
            addvar('j', 'INTEGER', *r.choice(SMALL))
        elif shape == 'with-binary':
            addvar('x', 'BINARY')
        elif shape == 'with-spin':
            addvar('s', 'SPIN')
        elif shape == 'with-negative':
            addvar('j', 'INTEGER', -1, r.choice([0, 1]))
        else:
            disc = ['x', 'y'] + (['z'] if r.random() < .4 else [])
            for v in disc:
                addvar(v, 'BINARY')
    labs = list(ref.vars)
    if len(doms['i']) * int(np.prod([len(doms[v]) for v in labs if v != 'i'])) > (300000 if thorough else 2500):
        return True

    def terms():
        ts = []
        for _ in range(r.randint(1, 4)):
            k = r.choice([0, 1, 1, 1, 2, 2])
            if k == 0:
                ts.append((r.randint(-8, 8) / 2,))
            elif k == 1:
                ts.append((r.choice(labs), r.randint(-8, 8) / 4))
            else:
                ts.append((r.choice(labs), r.choice(labs), r.randint(-8, 8) / 4))
        if r.random() < .8:
            ts.append(('i', r.choice([-3, -1, -.5, .25, 1, 2, 2.5])))
        return ts

    ts = terms()
    code = f'cqm.set_objective({ts!r})'
    exec(code, dict(cqm=cqm)); src.append(code); ref.set_objective_terms(ts); lines.append('objt ' + c05.terms_arg(ts))
    mid = (big[0] + big[1]) // 2
    for n in range(r.choice([1, 2, 2, 3])):
        ts = terms()
        sense = r.choice(c05.SENSES)
        # a right-hand side in the range the left-hand side takes, so that satisfaction is mixed over the rows
        x0 = {v: F(mid if v == 'i' else doms[v][0]) for v in labs}
        p0, _ = ref.poly_of_terms(ts)
        rhs = float(value(p0, x0)) + r.randint(-4, 4) / 2
        weight = r.choice([.5, 2.0, 1.25]) if r.random() < .4 else None
        kw = f'label="c{n}"' + (f', weight={weight!r}, penalty="linear"' if weight is not None else '')
        code = f'cqm.add_constraint({ts!r}, {sense!r}, {rhs!r}, {kw})'
        exec(code, dict(cqm=cqm)); src.append(code)
        ref.add_constraint_terms(ts, sense, rhs, f'c{n}', weight, 'linear')
        lines.append(f'cont {lab(f"c{n}")} {sense} {rat(rhs)} {"-" if weight is None else rat(weight)} 0 {c05.terms_arg(ts)}')
    if disc:
        code = f'cqm.add_discrete({disc!r}, label="d")'
        exec(code, dict(cqm=cqm)); src.append(code)
        ref.add_discrete_vars(disc, 'd', True)
        lines.append(f'discv {lab("d")} 1 ' + ','.join(lab(v) for v in disc))
    clabels = list(ref.cons)
    atol, rtol = F(r.choice(TOLS)), F(r.choice(TOLS))
    tol = dict(rtol=float(rtol), atol=float(atol))
    tolkw = f', rtol={float(rtol)!r}, atol={float(atol)!r}'
    pre = c05.PRELUDE + 'from dimod import SampleSet, ExactCQMSolver\n' + '\n'.join(src) + '\n'
    unsigned_only = all(ref.vars[v][0] == 'INTEGER' and ref.vars[v][1] >= 0 for v in labs)
    icls = (f'domain [{big[0]}, {big[1]}]' + (', every variable a non-negative INTEGER' if unsigned_only else '') + (', discrete constraint' if disc else ''))
    ctx.tick(f'exact solver domains: {shape}' + (' (all non-negative INTEGER)' if unsigned_only else ''))
    ctx.tick('exact solver big domain ' + ('>= 0' if big[0] >= 0 else '< 0 only' if big[1] < 0 else 'mixed sign')
             + (' reaching 128..255' if big[1] >= 128 and big[1] <= 255 else ' reaching >= 256' if big[1] >= 256 else ''))

    def fail(what, check, icls_=None):
        ctx.fail('property', 'ExactCQMSolver.sample_cqm', icls_ or icls, what, repro=pre + check, detail=dict(build=src, atol=str(atol), rtol=str(rtol)))

    try:
        es = dimod.ExactCQMSolver().sample_cqm(cqm, **tol)
    except Exception as e:  # noqa
        fail(f'{type(e).__name__}: {e}', f'ExactCQMSolver().sample_cqm(cqm{tolkw})\n', 'raises')
        return False
    esv = list(es.variables)
    col = [esv.index(v) for v in labs]
    smp = es.record.sample
    nrows = len(es.record)
    want_n = len(doms['i'])
    for v in labs:
        if v != 'i' and v not in disc:
            want_n *= len(doms[v])
    want_n *= len(disc) or 1
    # the set of rows: exactly the product of the domains (one-hot over the discrete variables)
    got_rows = set(map(tuple, np.asarray(smp, dtype=object)[:, col].tolist())) if nrows <= 3000 else None
    okrows = nrows == want_n and es.info.get('constraint_labels') == clabels
    if okrows and got_rows is not None:
        free = [v for v in labs if v not in disc]
        want_rows = set()
        for combo in itertools.product(*[doms[v] for v in free]):
            base = dict(zip(free, combo))
            for hot in (disc or [None]):
                row = dict(base)
                for v in disc:
                    row[v] = 1 if v == hot else 0
                want_rows.add(tuple(row[v] for v in labs))
        okrows = {tuple(int(a) for a in t) for t in got_rows} == want_rows and all(float(a).is_integer() for t in got_rows for a in t)
    if not okrows:
        fail(f'{nrows} rows / labels {es.info.get("constraint_labels")!r}: not exactly the {want_n} assignments of the domains',
             f'es = ExactCQMSolver().sample_cqm(cqm)\nassert len(es) == {want_n}, len(es)\n', 'enumeration')
        return False
    # rows to compare: every row holding a boundary value, and a random sample of the rest
    icol = col[labs.index('i')]
    ivals = np.asarray(smp[:, icol], dtype=np.int64)
    edge = np.isin(ivals, sorted(EDGE | {big[0], big[1], mid}))
    idx = set(np.nonzero(edge)[0].tolist()[:400]) | set(r.sample(range(nrows), min(nrows, 120)))
    # the upper half of every unsigned width that could hold the domain
    for lo_, hi_ in ((128, 255), (32768, 65535)):
        up = np.nonzero((ivals >= lo_) & (ivals <= hi_))[0].tolist()
        idx |= set(r.sample(up, min(len(up), 60)))
    nontrivial = False
    for i in sorted(idx):
        x = {v: F(float(smp[i][c])) for v, c in zip(labs, col)}
        per, feas, en = definition(ref, x, atol, rtol)
        gsat = [bool(b) for b in es.record.is_satisfied[i]]
        wsat = [per[l][3] for l in clabels]
        nontrivial = nontrivial or not all(wsat)
        if gsat != wsat or bool(es.record.is_feasible[i]) != feas or F(float(es.record.energy[i])) != en:
            sample = {v: int(x[v]) for v in labs}
            # do the other report paths agree with the definition on this very sample?  (then it is the solver's hand-over)
            try:
                direct = bool(cqm.check_feasible(sample, **tol)) == feas
            except Exception:  # noqa
                direct = False
            fail(f'row {sample}: energy {float(es.record.energy[i])}, feasible {bool(es.record.is_feasible[i])}, satisfied {gsat}; definition {float(en)}, {feas}, {wsat}'
                 + (' (check_feasible on the same sample given as a dict agrees with the definition)' if direct else ''),
                 f'es = ExactCQMSolver().sample_cqm(cqm{tolkw})\n'
                 f'd = [d for d in es.data(["sample", "energy", "is_satisfied", "is_feasible"]) if dict(d.sample) == {sample!r}][0]\nprint(d)\n'
                 f'assert d.energy == {float(en)!r} and list(map(bool, d.is_satisfied)) == {wsat!r} and bool(d.is_feasible) == {feas}, d\n')
            return False
    ctx.case(('exact-domains', tuple(src), atol, rtol), nontrivial=nontrivial, sample=dict(build=src, atol=str(atol), rtol=str(rtol)))
    if nrows <= 3000:
        # correspondence: the Lean model of the solver on the same model (column set, row ORDER, every report)
        out.append(dict(lines=lines + [f'exact {rat(atol)} {rat(rtol)}'], check=exact_cmp(es), src=list(src), rows=[]))
    return True


# ------------------------------------------------------------------------------------------------------------------
# the documented DEFAULT tolerances, at their boundary

def default_tolerance_boundary(ctx, r, out):
    """Constraints whose violation sits one step of 2^-40 below / above `atol + rtol*|rhs|` for the documented defaults
    (rtol=1e-6, atol=1e-8, passed by omission), through every entry point that has its own copy of the defaults: `check_feasible`,
    `from_samples_cqm`, `ExactCQMSolver.sample_cqm`.  Constant-only left-hand sides, so every float operation is exact: the
    violation is `(rhs ± v) - rhs = v` with `v` a multiple of 2^-40, and the float tolerance differs from the exact rational
    one by < 2^-70 while `v` is at least 2^-60 away from it (checked).  Returns False to stop."""
    A, R = F(1e-8), F(1e-6)
    cqm = CQM(); ref = c05.Ref(); src = []; lines = ['new']
    code = "cqm.add_variable('BINARY', 'x')"
    exec(code, dict(cqm=cqm)); src.append(code); ref.add_variable('BINARY', 'x', None, None); lines.append(f'addvar BINARY {lab("x")} - -')
    ts = [('x', r.choice([1.0, -2.0, .5])), (r.randint(-4, 4) / 2,)]
    code = f'cqm.set_objective({ts!r})'
    exec(code, dict(cqm=cqm)); src.append(code); ref.set_objective_terms(ts); lines.append('objt ' + c05.terms_arg(ts))
    ncons = r.choice([1, 2, 3, 4])
    for n in range(ncons):
        sense = r.choice(c05.SENSES)
        rhs = F(r.choice([0, 0, 1, -1, 2, -2, .5, 3, -3.5, 4]))
        tolx = A + R * abs(rhs)
        nlo = (tolx * 2 ** 40).__floor__()
        if min(tolx - F(nlo, 2 ** 40), F(nlo + 1, 2 ** 40) - tolx) < F(1, 2 ** 60):
            continue
        kind = r.choice(['just satisfied', 'just violated', 'just satisfied', 'just violated', 'half the tolerance', 'twice the tolerance'])
        v = {'just satisfied': F(nlo, 2 ** 40), 'just violated': F(nlo + 1, 2 ** 40), 'half the tolerance': F(nlo // 2, 2 ** 40),
             'twice the tolerance': F(2 * nlo + 2, 2 ** 40)}[kind]
        off = rhs + v if sense == '<=' else rhs - v if sense == '>=' else rhs + r.choice([1, -1]) * v
        assert F(float(off)) == off and F(float(off) - float(rhs)) == off - rhs
        weight = r.choice([2.0, .5]) if r.random() < .4 else None
        ts = [(float(off),)]
        kw = f'label="c{n}"' + (f', weight={weight!r}, penalty="linear"' if weight is not None else '')
        code = f'cqm.add_constraint({ts!r}, {sense!r}, {float(rhs)!r}, {kw})'
        exec(code, dict(cqm=cqm)); src.append(code)
        ref.add_constraint_terms(ts, sense, float(rhs), f'c{n}', weight, 'linear')
        lines.append(f'cont {lab(f"c{n}")} {sense} {rat(float(rhs))} {"-" if weight is None else rat(weight)} 0 {c05.terms_arg(ts)}')
        ctx.tick(f'default tolerances: {sense} {kind}' + (' (soft)' if weight is not None else ''))
    clabels = list(ref.cons)
    if not clabels:
        return True
    pre = c05.PRELUDE + 'from dimod import SampleSet, ExactCQMSolver\n' + '\n'.join(src) + '\n'
    nontrivial = False
    try:
        es = dimod.ExactCQMSolver().sample_cqm(cqm)
        for xv in (0, 1):
            sample = {'x': xv}
            per, feas, en = definition(ref, {'x': F(xv)}, A, R)
            wsat = [per[l][3] for l in clabels]
            nontrivial = nontrivial or not all(wsat)
            cf = bool(cqm.check_feasible(sample))
            ss = SampleSet.from_samples_cqm(sample, cqm)
            gsat = [bool(b) for b in ss.record.is_satisfied[0]]
            row = [i for i in range(len(es.record)) if int(es.record.sample[i][list(es.variables).index('x')]) == xv][0]
            esat = [bool(b) for b in es.record.is_satisfied[row]]
            checks = [('CQM.check_feasible', cf == feas, f'check_feasible({sample!r}) = {cf}, definition {feas}', f'assert cqm.check_feasible({sample!r}) == {feas}\n'),
                      ('SampleSet.from_samples_cqm', gsat == wsat and bool(ss.record.is_feasible[0]) == feas and F(float(ss.record.energy[0])) == en,
                       f'from_samples_cqm({sample!r}, cqm): is_satisfied {gsat}, is_feasible {bool(ss.record.is_feasible[0])}, energy {float(ss.record.energy[0])!r}; definition {wsat}, {feas}, {float(en)!r}',
                       f'ss = SampleSet.from_samples_cqm({sample!r}, cqm)\nassert list(map(bool, ss.record.is_satisfied[0])) == {wsat!r} and bool(ss.record.is_feasible[0]) == {feas} and ss.record.energy[0] == {float(en)!r}, ss.record\n'),
                      ('ExactCQMSolver.sample_cqm', esat == wsat and bool(es.record.is_feasible[row]) == feas and F(float(es.record.energy[row])) == en,
                       f'ExactCQMSolver row x={xv}: is_satisfied {esat}, is_feasible {bool(es.record.is_feasible[row])}, energy {float(es.record.energy[row])!r}; definition {wsat}, {feas}, {float(en)!r}',
                       f'es = ExactCQMSolver().sample_cqm(cqm)\nd = [d for d in es.data(["sample", "energy", "is_satisfied", "is_feasible"]) if d.sample["x"] == {xv}][0]\n'
                       f'assert list(map(bool, d.is_satisfied)) == {wsat!r} and bool(d.is_feasible) == {feas} and d.energy == {float(en)!r}, d\n')]
            for site, ok, what, check in checks:
                if not ok:
                    ctx.fail('property', site, 'default tolerances at their boundary', what + ' (rtol, atol left to their documented defaults 1e-6, 1e-8)',
                             repro=pre + check, detail=dict(build=src))
                    return False
    except Exception as e:  # noqa
        ctx.fail('property', 'CQM.check_feasible', 'raises', f'{type(e).__name__}: {e}', repro=pre + 'cqm.check_feasible({"x": 0})\n', detail=dict(build=src))
        return False
    ctx.case(('default-boundary', tuple(src)), nontrivial=nontrivial, sample=dict(build=src))
    out.append(dict(lines=lines + [f'exact {rat(A)} {rat(R)}'], check=exact_cmp(es), src=list(src), rows=[]))
    return True


def run(ctx):
    r = ctx.rng
    n = ctx.scale(800, 12000)
    ctx.rule = ('random CQMs (0-4 variables of all four types, 0-4 constraints of mixed senses, hard and soft side by side, linear and '
                'quadratic penalties, constant-only objectives/constraints, wide INTEGER variables) x 1-5 in-domain rows x dyadic atol/rtol incl. 0, '
                'evaluated when freshly built and again on the SAME object after each of 1-4 mutations (label swaps / cycles, relabel to new '
                'names, relabel_constraints, add/remove/fix/flip variable, change_vartype, set_objective, add/remove constraint); a case = one '
                '(history, rows, tolerances); non-trivial = at least one constraint violated on at least one row')
    out = []
    for _ in range(n):
        check_one(ctx, r, out)
        if len([f for f in ctx.failures if f['kind'] == 'property']) >= 10:
            break
    thorough = ctx.scale(0, 1) == 1
    for _ in range(ctx.scale(60, 1500)):
        if not exact_domains(ctx, r, thorough, out):
            break
    for _ in range(ctx.scale(120, 3000)):
        if not default_tolerance_boundary(ctx, r, out):
            break
    lines = [ln for o in out for ln in o['lines']]
    got = run_driver('cqmdriver', lines)
    ctx.corr_lines += len(lines)
    k = 0
    nbad = 0
    explained = any(f['kind'] == 'property' for f in ctx.failures)
    for o in out:
        k += len(o['lines'])
        g = got[k - 1] if k - 1 < len(got) else 'MISSING'
        msg = o['check'](g) if 'check' in o else (None if g == o['expect'] else f'impl `{o["expect"][:400]}` model `{g[:400]}`')
        if msg is not None:
            nbad += 1
            if explained:
                ctx.notes.append('model/impl report lines differ on a case; property failures were reported for this run')
                break
            ctx.fail('correspondence', 'CQM reports vs Lean Feas', o['lines'][-1].split()[0], msg,
                     detail=dict(build=o['src'], rows=o['rows']))
            if nbad >= 3:
                break
