"""Histories on ONE CQM whose expressions keep their variables in a private order that differs from the model's
(descending, interleaved, rotated, random), shared by C01 (energy = polynomial of the coefficients every accessor reports)
and C03 (in-place fixing = substitution).

`build(r, R)` writes a CQM into recipe `R` (variables registered up front, so the model order is fixed, then an objective and
1-3 constraints, each over its own subset in its own order; built from a QM handed over, or in place through the expression
view's `add_linear` / `add_quadratic`) and returns `(labels, vts, targets, refs)`; `refs[target]` is an independent reference
polynomial (`RefExpr`, exact Fractions, plain Python — nothing of dimod or of the Lean models in it).
`step(r, R, st)` applies one history operation to the CQM and to every reference: `fix_variable`, `fix_variables` (mapping /
pairs / iterator, in place), `remove_variable`, `relabel_variables`, the expression view's own `remove_variable`,
`set_linear` / `add_linear` / `add_quadratic` on a view (also for a variable the expression does not have yet), a new model
variable, `flip_variable`.  Returns a description with the structural facts the seeds of this class depended on
(`succ_before`: some expression lists the removed variable's successor BEFORE it).
"""
from fractions import Fraction

import os

from harness.props.energy_common import LABELS, HEADER, Recipe, q8, fl, domain, perm_of


class LoggedRecipe(Recipe):
    """a recipe that writes every line to `fd` BEFORE executing it (so that a line that aborts the interpreter is known)"""
    fd = None

    def do(self, line):
        if LoggedRecipe.fd is not None:
            os.write(LoggedRecipe.fd, (line + '\n').encode())
        Recipe.do(self, line)


def canary(fn):
    """run `fn()` in a forked copy of this process first (same generator state, results discarded).  Returns None when the copy
    finished, else (signal number, the recipe lines it had logged — the last one is the call that killed the interpreter).
    An assertion of the code under test (`-UNDEBUG` build) or a segfault must not take the harness down with it."""
    rfd, wfd = os.pipe()
    pid = os.fork()
    if pid == 0:
        code = 0
        try:
            os.close(rfd)
            __import__('signal').alarm(120)      # a hang of the code under test ends the copy (reported as signal 14)
            LoggedRecipe.fd = wfd
            devnull = os.open(os.devnull, os.O_WRONLY)
            os.dup2(devnull, 1)
            os.dup2(devnull, 2)
            fn()
        except BaseException:  # noqa  (a Python-level error is reported by the in-process run)
            code = 3
        finally:
            os._exit(code)
    os.close(wfd)
    chunks = []
    while True:
        b = os.read(rfd, 65536)
        if not b:
            break
        chunks.append(b)
    os.close(rfd)
    _, status = os.waitpid(pid, 0)
    if os.WIFSIGNALED(status):
        return os.WTERMSIG(status), b''.join(chunks).decode().splitlines()
    return None


def F(x):
    return x if isinstance(x, Fraction) else Fraction(float(x))


def qkey(u, v):
    return (u, u) if u == v else frozenset((u, v))


class RefExpr:
    """reference polynomial of one expression: offset, linear, quadratic over labels + the set of its variables"""

    def __init__(self):
        self.off = Fraction(0)
        self.vars = []          # in the order the expression got them (checked against the model only as a set)
        self.lin = {}
        self.quad = {}

    def enforce(self, v):
        if v not in self.lin:
            self.vars.append(v)
            self.lin[v] = Fraction(0)

    def add_linear(self, v, b):
        self.enforce(v)
        self.lin[v] += F(b)

    def set_linear(self, v, b):
        self.enforce(v)
        self.lin[v] = F(b)

    def add_quadratic(self, u, v, b):
        self.enforce(v)
        self.enforce(u)
        k = qkey(u, v)
        self.quad[k] = self.quad.get(k, Fraction(0)) + F(b)

    def remove(self, v):
        if v in self.lin:
            self.vars.remove(v)
            del self.lin[v]
            self.quad = {k: b for k, b in self.quad.items() if v not in k}

    def fix(self, v, a):
        """substitute v := a"""
        if v not in self.lin:
            return
        a = F(a)
        self.off += self.lin[v] * a
        for k, b in self.quad.items():
            if v in k:
                if isinstance(k, tuple):
                    self.off += b * a * a
                else:
                    (u,) = [w for w in k if w != v]
                    self.lin[u] += b * a
        self.remove(v)

    def flip(self, v, vartype):
        """SPIN: s -> -s; BINARY: x -> 1 - x"""
        if v not in self.lin:
            return
        if vartype == 'SPIN':
            self.lin[v] = -self.lin[v]
            self.quad = {k: (-b if v in k else b) for k, b in self.quad.items()}
        else:
            self.off += self.lin[v]
            self.lin[v] = -self.lin[v]
            for k, b in list(self.quad.items()):
                if v in k:
                    (u,) = [w for w in k if w != v]
                    self.lin[u] += b
                    self.quad[k] = -b

    def relabel(self, mapping):
        g = lambda v: mapping.get(v, v)  # noqa
        self.vars = [g(v) for v in self.vars]
        self.lin = {g(v): b for v, b in self.lin.items()}
        self.quad = {(qkey(*(g(w) for w in k)) if isinstance(k, frozenset) else (g(k[0]), g(k[0]))): b for k, b in self.quad.items()}

    def poly(self):
        return self.off, dict(self.lin), dict(self.quad)

    def value(self, row):
        e = Fraction(self.off)
        for v, b in self.lin.items():
            e += b * F(row[v])
        for k, b in self.quad.items():
            u, v = tuple(k) if isinstance(k, frozenset) else k
            e += b * F(row[u]) * F(row[v])
        return e


ORDERS = ['descending', 'interleaved', 'rotated', 'random', 'successor first', 'ascending']


def private_order(r, sub, style):
    """`sub` is in model order"""
    sub = list(sub)
    if style == 'descending':
        return sub[::-1]
    if style == 'interleaved':
        return sub[1::2] + sub[0::2]
    if style == 'rotated':
        k = r.randint(1, max(1, len(sub) - 1))
        return sub[k:] + sub[:k]
    if style == 'random':
        return perm_of(r, sub)
    if style == 'successor first':      # one adjacent pair swapped, the rest ascending
        if len(sub) >= 2:
            i = r.randrange(len(sub) - 1)
            sub[i], sub[i + 1] = sub[i + 1], sub[i]
        return sub
    return sub


def add_var_line(vt, l, obj='c'):
    if vt in ('INTEGER', 'REAL'):
        return f'{obj}.add_variable({vt!r}, {l!r}, lower_bound=-4, upper_bound=8)'
    return f'{obj}.add_variable({vt!r}, {l!r})'


def build(r, R, nmin=3, nmax=6):
    n = r.randint(nmin, nmax)
    labels = r.sample(LABELS, n)
    R.do('c = CQM()')
    vts = {}
    for l in labels:
        vts[l] = r.choice(['BINARY', 'SPIN', 'INTEGER', 'INTEGER', 'REAL'])
        R.do(add_var_line(vts[l], l))
    targets, refs, styles = [], {}, {}
    nexpr = r.choice([1, 2, 2, 3])
    for ei in range(nexpr + 1):
        k = r.randint(2, n) if r.random() < .85 else r.randint(0, 1)
        sub = [l for l in labels if l in set(r.sample(labels, k))]          # model order
        style = r.choice(ORDERS[:-1]) if r.random() < .9 else 'ascending'
        order = private_order(r, sub, style)
        ref = RefExpr()
        inplace = r.random() < .4
        target = 'c.objective' if ei == 0 else f'c.constraints[{f"k{ei}"!r}].lhs'
        if inplace:
            # the view's own mutators (enforce_variable path)
            if ei > 0:
                R.do(f'c.add_constraint_from_model(QM(), {r.choice(["<=", ">=", "=="])!r}, {fl(q8(r))}, label={f"k{ei}"!r})')
            obj = target
        else:
            R.do(f'q{ei} = QM()')
            obj = f'q{ei}'
        for l in order:
            b = q8(r) if r.random() < .85 else 0
            if inplace:
                R.do(f'{obj}.add_linear({l!r}, {fl(b)})')
            else:
                R.do(add_var_line(vts[l], l, obj))
                R.do(f'{obj}.set_linear({l!r}, {fl(b)})')
            ref.add_linear(l, b)
        if order:
            pairs = [(order[0], order[-1])] + [(r.choice(order), r.choice(order)) for _ in range(r.choice([0, 1, 2, 4]))]
            for u, v in pairs:
                if (u == v and vts[u] in ('BINARY', 'SPIN')) or 'REAL' in (vts[u], vts[v]):
                    continue
                b = q8(r) if r.random() < .9 else 0
                R.do(f'{obj}.add_quadratic({u!r}, {v!r}, {fl(b)})')
                ref.add_quadratic(u, v, b)
        if r.random() < .8:
            b = q8(r, 1, 16)
            R.do(f'{obj}.offset = {fl(b)}' if not inplace else f'{obj}.offset += {fl(b)}')
            ref.off += F(b)
        if not inplace:
            if ei == 0:
                R.do('c.set_objective(q0)')
            else:
                R.do(f'c.add_constraint_from_model(q{ei}, {r.choice(["<=", ">=", "=="])!r}, {fl(q8(r))}, label={f"k{ei}"!r})')
        targets.append(target)
        refs[target] = ref
        styles[target] = style + (' (built in place)' if inplace else '')
    return dict(labels=labels, vts=vts, targets=targets, refs=refs, styles=styles, fresh=0)


def succ_before(R, st, v):
    """targets whose `variables` list the model successor of `v` BEFORE `v` (the shape `reindex_variables` must get right)"""
    c = R['c']
    mv = list(c.variables)
    i = mv.index(v)
    out = []
    for t in st['targets']:
        ev = list(R.ev(t).variables)
        if v in ev and any(w in ev and ev.index(w) < ev.index(v) for w in mv[i + 1:i + 2]):
            out.append(t)
    return out


FIX_OPS = ['fix_variable'] * 3 + ['fix_variables'] * 3 + ['remove_variable']


def step(r, R, st, before=None, ops=None):
    """one operation on the CQM + the references; returns (op name, input-class facts) or None when nothing applies.
    `before(kind, v, a, target)` is called right before a single-variable removal is executed (kind 'R' parent
    remove_variable, 'F' parent fix_variable with value a, 'V' the view `target`'s own remove_variable)."""
    before = before or (lambda *a: None)
    ops_arg = ops
    c = R['c']
    mv = list(c.variables)
    st['vts'] = {v: c.vartype(v).name for v in mv}     # generation only (which values / operations are admissible)
    vts, refs = st['vts'], st['refs']
    ops = ops_arg or (['fix_variable'] * 4 + ['fix_variables'] * 3 + ['remove_variable'] * 3 +
                      ['relabel', 'expr.remove_variable', 'expr.set_linear', 'expr.add_quadratic', 'add_variable', 'flip_variable'])
    op = r.choice(ops)
    st['last'] = None
    if not mv and op != 'add_variable':
        return None
    facts = {}
    if op == 'fix_variable':
        v = r.choice(mv)
        a = r.choice(domain(vts[v]))
        facts['successor listed before the removed variable'] = bool(succ_before(R, st, v))
        before('F', v, a, None)
        R.do(f'c.fix_variable({v!r}, {fl(a)})')
        st['last'] = {v: a}
        for ref in refs.values():
            ref.fix(v, a)
    elif op == 'fix_variables':
        k = r.randint(1, min(3, len(mv)))
        vs = r.sample(mv, k)
        vals = {v: r.choice(domain(vts[v])) for v in vs}
        facts['successor listed before the removed variable'] = bool(succ_before(R, st, vs[0]))
        body = ', '.join(f'{v!r}: {fl(vals[v])}' for v in vs)
        pairs = ', '.join(f'({v!r}, {fl(vals[v])})' for v in vs)
        form = r.choice(['{%s}' % body, '[%s]' % pairs, 'iter([%s])' % pairs])
        R.do(f'c.fix_variables({form}, inplace=True)' if r.random() < .5 else f'c.fix_variables({form})')
        for v in vs:
            for ref in refs.values():
                ref.fix(v, vals[v])
        op = f'fix_variables[{len(vs)}]'
        st['last'] = dict(vals)
    elif op == 'remove_variable':
        v = r.choice(mv)
        facts['successor listed before the removed variable'] = bool(succ_before(R, st, v))
        before('R', v, None, None)
        R.do(f'c.remove_variable({v!r})')
        st['last'] = {v: 0}
        for ref in refs.values():
            ref.remove(v)
    elif op == 'relabel':
        k = r.randint(1, min(2, len(mv)))
        vs = r.sample(mv, k)
        new = [l for l in LABELS + ['z0', 'z1', 'z2', 'z3'] if l not in mv]
        if r.random() < .3 and len(vs) == 2:
            mapping = {vs[0]: vs[1], vs[1]: vs[0]}
        else:
            mapping = dict(zip(vs, new))
        if not mapping:
            return None
        R.do(f'c.relabel_variables({mapping!r})')
        for ref in refs.values():
            ref.relabel(mapping)
        st['vts'] = {v: c.vartype(v).name for v in c.variables}
    elif op == 'expr.remove_variable':
        t = r.choice(st['targets'])
        ev = list(R.ev(t).variables)
        if not ev:
            return None
        v = r.choice(ev)
        before('V', v, None, t)
        R.do(f'{t}.remove_variable({v!r})')
        refs[t].remove(v)
    elif op == 'expr.set_linear':
        t = r.choice(st['targets'])
        v = r.choice(mv)
        b = q8(r)
        how = r.choice(['set_linear', 'add_linear'])
        facts['variable new to the expression'] = v not in list(R.ev(t).variables)
        R.do(f'{t}.{how}({v!r}, {fl(b)})')
        getattr(refs[t], how)(v, b)
        op = f'expr.{how}'
    elif op == 'expr.add_quadratic':
        t = r.choice(st['targets'])
        u, v = r.choice(mv), r.choice(mv)
        if (u == v and vts[u] in ('BINARY', 'SPIN')) or 'REAL' in (vts[u], vts[v]):
            return None
        b = q8(r)
        ev = list(R.ev(t).variables)
        facts['variable new to the expression'] = u not in ev or v not in ev
        R.do(f'{t}.add_quadratic({u!r}, {v!r}, {fl(b)})')
        refs[t].add_quadratic(u, v, b)
    elif op == 'add_variable':
        st['fresh'] += 1
        l = f'n{st["fresh"]}'
        vt = r.choice(['BINARY', 'SPIN', 'INTEGER'])
        R.do(add_var_line(vt, l))
        st['vts'][l] = vt
        vts[l] = vt
        t = r.choice(st['targets'])
        b = q8(r)
        R.do(f'{t}.add_linear({l!r}, {fl(b)})')
        refs[t].add_linear(l, b)
    elif op == 'flip_variable':
        cand = [v for v in mv if vts[v] in ('SPIN', 'BINARY')]
        if not cand:
            return None
        v = r.choice(cand)
        R.do(f'c.flip_variable({v!r})')
        for ref in refs.values():
            ref.flip(v, vts[v])
    return op, facts
