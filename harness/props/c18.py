"""C18 — model equality is total, symmetric and sensitive to every coefficient.

Pool per round: one random polynomial realised as BQM / QM / objective view / constraint view (permuted
variable orders, float64 / float32 / object dtype, parents with extra variables), single-field
perturbations of it (one linear bias, one quadratic bias, offset, one label, one variable type, an
interaction added / dropped, all labels replaced = same shape with disjoint labels), CQMs built from it
(and their perturbations: constraint label, sense, rhs, one lhs bias, permuted orders, a variable that
occurs in no expression), numbers, and non-model objects.  Every ordered pair is examined.

Also: numbers as operands of `==` / `!=` on EITHER side (Python int / float, NumPy scalars; `model == 3` builds a
comparison whose truth value is taken), and `==` / `!=` on the mapping views `m.linear`, `m.adj`, `m.adj[v]`, `m.quadratic`
(view vs view, view vs plain dict, plain dict vs view; keys of the quadratic dict in either orientation) for every class mix.

(i)  correspondence: `is_equal`, `is_almost_equal`, `==`, `!=` on the real objects vs the Lean model
     (`lean/DimodModel/Equality.lean`, driver `eqdriver`) — value or exception class;
Canonical form (what "the same quadratic biases" means, for `is_equal` and — "behaves the same with biases
compared after rounding" — for `is_almost_equal` alike): the set of variables with their types, the offset, one linear
bias per variable, and the *set of interactions* with one bias per interaction.  An interaction stored with an
explicit zero bias (`add_quadratic(u, v, 0)`, two cancelling additions) IS part of the canonical form, exactly as a
variable with linear bias 0 is: `is_equal` compares the `adj` mappings (keys and values), so two models with the
same number of interactions but different interaction sets are different, whatever the biases, in both orders.

(ii) property predicate: the answer must be a bool (no exception) and equal to the comparison of
     canonical forms computed here from the *descriptors* the objects were built from (labels, types,
     offset, linear, quadratic [, constraint labels / senses / rhs]) — order- and dtype-independent;
     symmetric; reflexive; `is_almost_equal` the same with |difference|·10^places <= 1/2 per bias.
"""
import copy
import warnings
from fractions import Fraction as F

import numpy as np

import dimod
from dimod import BinaryQuadraticModel as BQM, ConstrainedQuadraticModel as CQM, QuadraticModel as QM
from harness.common import lab, rat, run_driver

warnings.simplefilter('ignore')

LABELS = ['a', 'b', 'c', 0, 1, ('t', 1)]
FRESH = ['p', 'q', 'r', 7, 8, ('u', 2)]
KINDS = ['bqm', 'qm', 'objview', 'conview']


# ------------------------------------------------------------------------------------------------ descriptors

def rand_spec(r):
    n = r.choice([0, 0, 1, 2, 2, 3, 3, 3, 4, 4])
    labs = r.sample(LABELS, n)
    mode = r.random()
    if mode < .45:
        vt = r.choice(['BINARY', 'SPIN'])
        vts = [vt] * n
    else:
        vts = [r.choice(['BINARY', 'SPIN', 'INTEGER']) for _ in labs]
    # explicit zero biases are first-class structure: a variable with linear bias 0, an interaction with bias 0
    lin = {v: (F(0) if r.random() < .25 else F(r.randint(-8, 8), 4)) for v in labs}
    quad = {}
    for _ in range(r.randint(0, 4) if n else 0):
        i, j = r.randrange(n), r.randrange(n)
        if i == j and vts[i] != 'INTEGER':
            continue
        quad[frozenset((labs[i], labs[j]))] = F(0) if r.random() < .25 else F(r.randint(-8, 8), 4)
    return dict(vars=list(zip(labs, vts)), lin=lin, quad=quad, off=F(r.randint(-4, 4), 2))


def cp(s):
    return dict(vars=list(s['vars']), lin=dict(s['lin']), quad=dict(s['quad']), off=s['off'])


def perturbations(r, s, tiny=False):
    """single-field changes of a descriptor: (name, new descriptor)"""
    out = []
    d = F(1, 2 ** 30) if tiny else F(r.choice([1, -1, 2]), 4)
    labs = [v for v, _ in s['vars']]
    t = cp(s); t['off'] += d; out.append(('offset', t))
    if labs:
        v = r.choice(labs)
        t = cp(s); t['lin'][v] += d; out.append(('linear bias', t))
    if s['quad']:
        k = r.choice(list(s['quad']))
        t = cp(s); t['quad'][k] += d; out.append(('quadratic bias', t))
        if not tiny:
            t = cp(s); del t['quad'][k]; out.append(('interaction dropped', t))
    if tiny:
        return out
    vts_ = dict(s['vars'])
    allpairs = [frozenset((u, v)) for i, u in enumerate(labs) for v in labs[i:] if u != v or vts_[u] == 'INTEGER']
    free = [k for k in allpairs if k not in s['quad']]
    if s['quad'] and free:
        # same variables, same NUMBER of interactions, different interaction SETS
        k = r.choice(list(s['quad'])); k2 = r.choice(free)
        t = cp(s); b = t['quad'].pop(k); t['quad'][k2] = b; out.append(('interaction moved to another pair', t))
        # ... where the moved interaction carries an explicit zero bias on both sides
        z = cp(s); z['quad'][k] = F(0); out.append(('quadratic bias set to zero', z))
        t = cp(z); del t['quad'][k]; t['quad'][k2] = F(0); out.append(('zero interaction moved to another pair', t))
        t = cp(z); del t['quad'][k]; t['quad'][k2] = F(r.choice([1, -3]), 4); out.append(('zero interaction replaced by another pair', t))
    if labs:
        v = r.choice(labs)
        t = cp(s); t['lin'][v] = F(0) if s['lin'][v] != 0 else F(1, 4); out.append(('linear bias to/from zero', t))
    if len(labs) >= 2:
        free = [frozenset((u, v)) for u in labs for v in labs if u != v and frozenset((u, v)) not in s['quad']]
        if free:
            t = cp(s); t['quad'][r.choice(free)] = F(0); out.append(('zero-bias interaction added', t))
    if labs:
        v = r.choice(labs); new = r.choice([x for x in FRESH if x not in labs])
        ren = lambda x: new if x == v else x   # noqa: E731
        t = dict(vars=[(ren(a), b) for a, b in s['vars']], lin={ren(a): b for a, b in s['lin'].items()},
                 quad={frozenset(ren(a) for a in k): b for k, b in s['quad'].items()}, off=s['off'])
        out.append(('one label', t))
        m = dict(zip(labs, r.sample(FRESH, len(labs))))
        t = dict(vars=[(m[a], b) for a, b in s['vars']], lin={m[a]: b for a, b in s['lin'].items()},
                 quad={frozenset(m[a] for a in k): b for k, b in s['quad'].items()}, off=s['off'])
        out.append(('disjoint labels', t))
        iso = [x for x in labs if not any(x in k for k in s['quad'])]
        if iso:
            v = r.choice(iso); new = r.choice([x for x in FRESH if x not in labs])
            ren = lambda x: new if x == v else x   # noqa: E731
            t = dict(vars=[(ren(a), b) for a, b in s['vars']], lin={ren(a): (F(0) if a == v else b) for a, b in s['lin'].items()},
                     quad=dict(s['quad']), off=s['off'])
            out.append(('isolated variable renamed, bias 0', t))
        i = r.randrange(len(labs))
        if frozenset((labs[i],)) not in s['quad']:
            t = cp(s)
            t['vars'][i] = (labs[i], r.choice([x for x in ('BINARY', 'SPIN', 'INTEGER') if x != s['vars'][i][1]]))
            out.append(('variable type', t))
        extra = r.choice([x for x in FRESH if x not in labs])
        t = cp(s); t['vars'].append((extra, s['vars'][0][1])); t['lin'][extra] = F(0); out.append(('variable added', t))
    return out


# ------------------------------------------------------------------------------------------------ realisations

class Obj:
    """a real object + what it was built from"""
    def __init__(self, kind, spec, obj, src, keep=None, cspec=None):
        self.kind, self.spec, self.obj, self.src, self.keep, self.cspec = kind, spec, obj, src, keep, cspec

    @property
    def cls(self):
        return {'bqm': 'BQM', 'qm': 'QM', 'objview': 'ExpressionView', 'conview': 'ExpressionView', 'cqm': 'CQM',
                'num': 'number', 'other': 'object'}[self.kind]


def terms_of(spec, order):
    ts = [(v, float(spec['lin'][v])) for v in order]
    for k, b in spec['quad'].items():
        vs = sorted(k, key=order.index)
        ts.append((vs[0], vs[-1], float(b)))
    ts.append((float(spec['off']),))
    return ts


def realise(r, spec, kind, f32ok=True):
    """python source building the object as `_o` (and `_keep` for a view's parent)"""
    labs = [v for v, _ in spec['vars']]
    vts = dict(spec['vars'])
    order = list(labs); r.shuffle(order)
    dts = ['np.float64', 'np.float64', 'np.float32'] if f32ok else ['np.float64']
    if kind == 'bqm':
        kinds = set(vts.values())
        if not (len(kinds) <= 1 and kinds <= {'BINARY', 'SPIN'}):
            return None
        vt = next(iter(kinds)) if kinds else r.choice(['BINARY', 'SPIN'])
        dt = r.choice(dts + (['object'] if f32ok else []))
        src = f'_o = BQM({vt!r}, dtype={dt})\n'
        for v in order:
            src += f'_o.add_variable({v!r}, {float(spec["lin"][v])!r})\n'
        for k, b in spec['quad'].items():
            vs = list(k)
            src += f'_o.add_quadratic({vs[0]!r}, {vs[-1]!r}, {float(b)!r})\n'
        src += f'_o.offset = {float(spec["off"])!r}\n'
        return src
    if kind == 'qm':
        src = f'_o = QM(dtype={r.choice(dts)})\n'
        for v in order:
            src += f'_o.add_variable({vts[v]!r}, {v!r})\n_o.set_linear({v!r}, {float(spec["lin"][v])!r})\n'
        for k, b in spec['quad'].items():
            vs = list(k)
            src += f'_o.add_quadratic({vs[0]!r}, {vs[-1]!r}, {float(b)!r})\n'
        src += f'_o.offset = {float(spec["off"])!r}\n'
        return src
    # views: a parent CQM that also holds other variables
    pool = LABELS + FRESH
    extra = [(x, r.choice(['BINARY', 'SPIN', 'INTEGER']) if r.random() < .4 else (spec['vars'][0][1] if spec['vars'] else 'BINARY'))
             for x in r.sample(pool, r.choice([0, 2, 4, len(pool)])) if x not in labs]
    parent = [(v, vts[v]) for v in order] + extra
    r.shuffle(parent)
    src = '_keep = CQM()\n'
    for v, vt in parent:
        src += f'_keep.add_variable({vt!r}, {v!r})\n'
    ts = terms_of(spec, order)
    if kind == 'objview':
        src += f'_keep.set_objective({ts!r})\n_o = _keep.objective\n'
    else:
        src += f'_keep.add_constraint({ts!r}, "<=", 0.0, label="k")\n_o = _keep.constraints["k"].lhs\n'
    return src


def build(src):
    ns = dict(BQM=BQM, QM=QM, CQM=CQM, np=np)
    exec(src, ns)
    return ns['_o'], ns.get('_keep')


def rand_cspec(r, base):
    """descriptor of a CQM: variables (label -> type), objective, constraints {label: (sense, rhs, spec)}"""
    vts = dict(base['vars'])
    cons = {}
    for i in range(r.randint(0, 3)):
        labs = [v for v in vts if r.random() < .6]
        s = dict(vars=[(v, vts[v]) for v in labs], lin={v: F(r.randint(-8, 8), 4) for v in labs}, quad={}, off=F(r.randint(-4, 4), 2))
        for _ in range(r.randint(0, 2) if len(labs) >= 2 else 0):
            u, v = r.sample(labs, 2)
            s['quad'][frozenset((u, v))] = F(r.randint(-8, 8), 4)
        cons[r.choice([f'c{i}', i, ('c', i)])] = (r.choice(['<=', '>=', '==']), F(r.randint(-4, 4), 2), s)
    # variables that NO expression uses (declared with add_variable only, or left behind by remove_constraint): they are
    # variables of the model all the same, with a label and a type
    for x in r.sample(FRESH, r.choice([0, 1, 1, 2])):
        if x not in vts:
            vts[x] = r.choice(['BINARY', 'SPIN', 'INTEGER'])
    return dict(vars=vts, obj=cp(base), cons=cons)


def unused_vars(c):
    used = {v for v, _ in c['obj']['vars']} | {v for _, _, s in c['cons'].values() for v, _ in s['vars']}
    return [v for v in c['vars'] if v not in used]


VALUE_ONLY = ('offset', 'linear bias', 'quadratic bias', 'interaction dropped', 'interaction moved to another pair', 'quadratic bias set to zero',
              'linear bias to/from zero', 'zero-bias interaction added')


def ccp(c):
    return dict(vars=dict(c['vars']), obj=cp(c['obj']), cons={l: (a, b, cp(s)) for l, (a, b, s) in c['cons'].items()})


def cqm_perturbations(r, c):
    out = []
    t = ccp(c); t['obj']['off'] += F(1, 4); out.append(('objective offset', t))
    if c['cons']:
        l = r.choice(list(c['cons']))
        sn, rhs, s = c['cons'][l]
        t = ccp(c); t['cons'][l] = (r.choice([x for x in ('<=', '>=', '==') if x != sn]), rhs, cp(s)); out.append(('sense', t))
        t = ccp(c); t['cons'][l] = (sn, rhs + F(1, 2), cp(s)); out.append(('rhs', t))
        t = ccp(c); s2 = cp(s); s2['off'] += F(1, 4); t['cons'][l] = (sn, rhs, s2); out.append(('lhs offset', t))
        if s['lin']:
            v = r.choice(list(s['lin']))
            t = ccp(c); s2 = cp(s); s2['lin'][v] += F(1, 4); t['cons'][l] = (sn, rhs, s2); out.append(('lhs linear bias', t))
        t = ccp(c); t['cons'] = {('renamed' if k == l else k): v for k, v in c['cons'].items()}; out.append(('constraint label', t))
        t = ccp(c); del t['cons'][l]; out.append(('constraint removed', t))
    new = r.choice([x for x in FRESH + ['zz'] if x not in c['vars']])
    t = ccp(c); t['vars'][new] = r.choice(['BINARY', 'SPIN', 'INTEGER']); out.append(('unused variable added', t))
    # ---- single-field changes of a variable that no expression uses: its type only, its label only, its presence
    un = unused_vars(c)
    if un:
        v = r.choice(un)
        for vt in ('BINARY', 'SPIN', 'INTEGER'):
            if vt != c['vars'][v]:
                t = ccp(c); t['vars'][v] = vt; out.append(('unused variable type', t))
        t = ccp(c); t['vars'] = {(new if k == v else k): x for k, x in c['vars'].items()}; out.append(('unused variable label', t))
        t = ccp(c); del t['vars'][v]; out.append(('unused variable removed', t))
    # ---- the type of a variable that expressions do use (changed consistently everywhere it occurs)
    usedv = [v for v in c['vars'] if v not in un
             and not any(frozenset((v,)) in s_['quad'] for s_ in [c['obj']] + [x[2] for x in c['cons'].values()])]
    if usedv:
        v = r.choice(usedv); vt = r.choice([x for x in ('BINARY', 'SPIN', 'INTEGER') if x != c['vars'][v]])
        t = ccp(c); t['vars'][v] = vt
        retype = lambda s_: s_.update(vars=[(a, vt if a == v else b) for a, b in s_['vars']])   # noqa: E731
        retype(t['obj'])
        for l_ in t['cons']:
            retype(t['cons'][l_][2])
        out.append(('used variable type', t))
    # ---- every value field of the objective and of one constraint's lhs (the generic single-field changes of a polynomial)
    for name, o2 in perturbations(r, c['obj']):
        if name in VALUE_ONLY:
            t = ccp(c); t['obj'] = o2; out.append(('objective ' + name, t))
    if c['cons']:
        l = r.choice(list(c['cons']))
        sn, rhs, s_ = c['cons'][l]
        for name, s2 in perturbations(r, s_):
            if name in VALUE_ONLY:
                t = ccp(c); t['cons'][l] = (sn, rhs, s2); out.append(('lhs ' + name, t))
    return out


def all_field_perturbations(c):
    """EVERY single-field change of a CQM descriptor, systematically (no sampling): for the objective and for every constraint
    every bias (offset, each linear bias, each quadratic bias, each interaction dropped), for every constraint both other
    senses, the rhs, its label, its presence; for every variable its type (both other types; a used variable consistently in
    every expression) and, where no expression uses it, its label and presence; one more unused variable.
    Returns (field class, descriptor) pairs; every one differs from `c` in exactly that field."""
    out = []
    d = F(1, 4)

    def poly_fields(s, put, where):
        t = cp(s); t['off'] += d; put(t, where + ' offset')
        for v in s['lin']:
            t = cp(s); t['lin'][v] += d; put(t, where + ' linear bias')
        for k in s['quad']:
            t = cp(s); t['quad'][k] += d; put(t, where + ' quadratic bias')
            t = cp(s); del t['quad'][k]; put(t, where + ' interaction dropped')
            if s['quad'][k] != 0:
                t = cp(s); t['quad'][k] = F(0); put(t, where + ' quadratic bias set to zero (interaction kept)')

    def put_obj(t, name):
        n = ccp(c); n['obj'] = t; out.append((name, n))
    poly_fields(c['obj'], put_obj, 'objective')
    for l, (sn, rhs, s_) in c['cons'].items():
        def put_con(t, name, l=l, sn=sn, rhs=rhs):
            n = ccp(c); n['cons'][l] = (sn, rhs, t); out.append((name, n))
        poly_fields(s_, put_con, 'lhs')
        for sn2 in ('<=', '>=', '=='):
            if sn2 != sn:
                n = ccp(c); n['cons'][l] = (sn2, rhs, cp(s_)); out.append(('sense', n))
        for dr in (F(1, 2), -F(1, 4)):
            n = ccp(c); n['cons'][l] = (sn, rhs + dr, cp(s_)); out.append(('rhs', n))
        n = ccp(c); n['cons'] = {(('renamed', 1) if k == l else k): v for k, v in c['cons'].items()}; out.append(('constraint label', n))
        n = ccp(c); del n['cons'][l]; out.append(('constraint removed', n))
    un = unused_vars(c)
    exprs = [c['obj']] + [x[2] for x in c['cons'].values()]
    fresh = [x for x in FRESH + ['zz'] if x not in c['vars']]
    for v, vt in c['vars'].items():
        selfloop = any(frozenset((v,)) in s_['quad'] for s_ in exprs)
        for vt2 in ('BINARY', 'SPIN', 'INTEGER'):
            if vt2 == vt or selfloop:
                continue
            n = ccp(c); n['vars'][v] = vt2
            for s_ in [n['obj']] + [x[2] for x in n['cons'].values()]:
                s_['vars'] = [(a, vt2 if a == v else b) for a, b in s_['vars']]
            out.append(('unused variable type' if v in un else 'used variable type', n))
        if v in un and fresh:
            n = ccp(c); n['vars'] = {(fresh[0] if k == v else k): x for k, x in c['vars'].items()}; out.append(('unused variable label', n))
            n = ccp(c); del n['vars'][v]; out.append(('unused variable removed', n))
    if fresh:
        for vt in ('BINARY', 'INTEGER'):
            n = ccp(c); n['vars'][fresh[-1]] = vt; out.append(('unused variable added', n))
    return out


def cqm_field_sweep(ctx, r, base, lines, expect, meta):
    """one CQM against every single-field change of it (both argument orders, `is_equal` and `is_almost_equal(places=7)`): always
    False; against a re-realisation with constraints / variables / terms in another order: True; and — recorded, compared with
    the model only, not judged (outside the property's list of compared fields) — against a copy that differs only in a soft
    weight / penalty, a variable bound, or the discrete mark."""
    c = rand_cspec(r, base)
    while len(c['cons']) < 2:
        c2 = rand_cspec(r, base)
        for l, v in c2['cons'].items():
            c['cons'].setdefault(l, v)
    srcA = realise_cqm(r, c)
    A, _ = build(srcA)
    a = Obj('cqm', c['obj'], A, srcA, None, c)
    wa = wire(a)

    def compare(b, tag, want, a=a, wa=wa):
        wb = wire(b)
        for x, y, wx, wy in ((a, b, wa, wb), (b, a, wb, wa)):
            for op, f in (('eq', lambda: x.obj.is_equal(y.obj)), ('aeq', lambda: x.obj.is_almost_equal(y.obj, places=7))):
                got = call(f)
                lines.append(f'eq {wx} {wy}' if op == 'eq' else f'aeq 7 {wx} {wy}')
                expect.append(EXC.get(got, got)); meta.append((op, 'CQM', 'CQM', 'sweep base', tag))
                ctx.case((op, 7 if op == 'aeq' else None, wx, wy), nontrivial=True)
                if want is None:
                    ctx.tick(f'scope (recorded, not judged): {tag} -> {op} {got}')
                    continue
                if got != ('T' if want else 'F'):
                    meth = 'is_equal' if op == 'eq' else 'is_almost_equal'
                    expr = 'A.is_equal(B)' if op == 'eq' else 'A.is_almost_equal(B, places=7)'
                    rep = PRE + src_of(x, 'A') + src_of(y, 'B') + f'res = {expr}\nprint(res)\nassert res is {want} or res == {want}, res\n'
                    ctx.fail('property', f'CQM.{meth}', ('single change: ' + tag) if not want else 'same model, another order',
                             f'{expr} = {got} for two CQMs that ' + (f'differ in exactly one field ({tag})' if not want else 'differ only in the order of constraints / variables / terms'),
                             repro=rep, detail=dict(a=x.src, b=y.src))

    # the same model realised again: constraint order, variable order and term order are shuffled by `realise_cqm`
    srcB = realise_cqm(r, c); B, _ = build(srcB)
    ctx.tick('sweep: same model, another order')
    compare(Obj('cqm', c['obj'], B, srcB, None, c), 'same', True)
    for name, t in all_field_perturbations(c):
        srcB = realise_cqm(r, t)
        B, _ = build(srcB)
        ctx.tick('sweep single change: ' + name)
        compare(Obj('cqm', t['obj'], B, srcB, None, t), name, False)
    # WHICH variable an expression carries: two models with the same variable set whose objective / one lhs carries, besides the
    # common terms, variable u with bias 0 in one model and variable w (bias 0 or not) in the other — same shapes, both labels
    # known to both models, so only a two-sided comparison of the term maps tells them apart
    fresh = [x for x in FRESH if x not in c['vars']][:2]
    if len(fresh) == 2:
        u, w = fresh
        for where in ['obj'] + list(c['cons']):
            P, Q = ccp(c), ccp(c)
            for X in (P, Q):
                X['vars'][u] = 'BINARY'; X['vars'][w] = 'BINARY'
            eP = P['obj'] if where == 'obj' else P['cons'][where][2]
            eQ = Q['obj'] if where == 'obj' else Q['cons'][where][2]
            eP['vars'] = list(eP['vars']) + [(u, 'BINARY')]; eP['lin'][u] = F(0)
            eQ['vars'] = list(eQ['vars']) + [(w, 'BINARY')]; eQ['lin'][w] = F(r.choice([0, 1, -3]), 4)
            srcP = realise_cqm(r, P); oP, _ = build(srcP)
            srcQ = realise_cqm(r, Q); oQ, _ = build(srcQ)
            xP = Obj('cqm', P['obj'], oP, srcP, None, P); xQ = Obj('cqm', Q['obj'], oQ, srcQ, None, Q)
            ctx.tick('sweep single change: zero-bias variable swapped for another variable of the model (' + ('objective' if where == 'obj' else 'lhs') + ')')
            compare(xQ, 'zero-bias variable swapped for another variable of the model', False, a=xP, wa=wire(xP))
    # fields the comparison does not list (weight, penalty, bounds, discrete mark): what the code answers is recorded
    l = r.choice(list(c['cons']))
    extra = [('soft weight', f'_o.constraints[{l!r}].lhs.set_weight(3.0)\n'),
             ('penalty', f'_o.constraints[{l!r}].lhs.set_weight(3.0, penalty="linear")\n')]
    ints = [v for v, vt in c['vars'].items() if vt == 'INTEGER']
    if ints:
        extra.append(('variable bound', f'_o.set_upper_bound({ints[0]!r}, 5)\n'))
    for tag, more in extra:
        srcB = srcA + more
        try:
            B, _ = build(srcB)
        except Exception:  # noqa
            continue
        compare(Obj('cqm', c['obj'], B, srcB, None, c), tag + ' differs', None)


def realise_cqm(r, c):
    vs = list(c['vars'].items()); r.shuffle(vs)
    src = '_o = CQM()\n'
    un = unused_vars(c)
    behind = [v for v in un if r.random() < .5]
    if behind:
        # these come into the model with a constraint built from a model and stay behind when that constraint is removed
        src += '_q = QM()\n' + ''.join(f'_q.add_variable({c["vars"][v]!r}, {v!r})\n' for v in behind)
        src += '_o.add_constraint(_q, "<=", 1.0, label="_tmp")\n'
    for v, vt in vs:
        if v not in behind:
            src += f'_o.add_variable({vt!r}, {v!r})\n'
    if behind:
        src += '_o.remove_constraint("_tmp")\n'
    order = [v for v, _ in c['obj']['vars']]; r.shuffle(order)
    src += f'_o.set_objective({terms_of(c["obj"], order)!r})\n'
    cl = list(c['cons'].items()); r.shuffle(cl)
    for l, (sn, rhs, s) in cl:
        order = [v for v, _ in s['vars']]; r.shuffle(order)
        w = f', weight={r.choice([1.0, 2.5])!r}' if r.random() < .2 else ''
        src += f'_o.add_constraint({terms_of(s, order)!r}, {sn!r}, {float(rhs)!r}, label={l!r}{w})\n'
    return src


# ------------------------------------------------------------------------------------------------ canonical forms (the predicate)

def canon(s):
    return (frozenset(s['vars']), s['off'], tuple(sorted(((lab(v), b) for v, b in s['lin'].items()))),
            frozenset(s['quad'].items()))


def used_types(c):
    return frozenset((v, c['vars'][v]) for v in c['vars'])


def ccanon(c):
    return (used_types(c), canon(c['obj']), frozenset((l, sn, rhs, canon(s)) for l, (sn, rhs, s) in c['cons'].items()))


def near(p, a, b):
    return abs(a - b) * F(10) ** p <= F(1, 2)


def almost(p, s, t):
    return (frozenset(s['vars']) == frozenset(t['vars']) and set(s['quad']) == set(t['quad']) and near(p, s['off'], t['off'])
            and all(near(p, s['lin'][v], t['lin'][v]) for v in s['lin']) and all(near(p, s['quad'][k], t['quad'][k]) for k in s['quad']))


def calmost(p, c, d):
    return (used_types(c) == used_types(d) and almost(p, c['obj'], d['obj']) and set(c['cons']) == set(d['cons'])
            and all(c['cons'][l][0] == d['cons'][l][0] and near(p, c['cons'][l][1], d['cons'][l][1]) and almost(p, c['cons'][l][2], d['cons'][l][2])
                    for l in c['cons']))


def expected(a, b, places=None):
    """the property's answer for `a.is_equal(b)` (places None) or `a.is_almost_equal(b, places)`"""
    if b.kind == 'other':
        return False
    if a.kind == 'cqm' or b.kind == 'cqm':
        if a.kind != b.kind:
            return False
        return ccanon(a.cspec) == ccanon(b.cspec) if places is None else calmost(places, a.cspec, b.cspec)
    if b.kind == 'num':
        x = b.spec
        return not a.spec['vars'] and (a.spec['off'] == x if places is None else near(places, a.spec['off'], x))
    return canon(a.spec) == canon(b.spec) if places is None else almost(places, a.spec, b.spec)


# ------------------------------------------------------------------------------------------------ wire form of an object (read back from it)

def wire(x):
    if x.kind == 'num':
        return 'num=' + rat(x.spec)
    if x.kind == 'other':
        return 'other'
    if x.kind == 'cqm':
        c = x.obj
        types = ','.join(f'{lab(v)}~{c.vartype(v).name}' for v in c.variables) or '-'

        def wm(e):
            vs = list(e.variables)
            quad = ','.join(f'{lab(u)}&{lab(v)}&{rat(b)}' for u, v, b in e.iter_quadratic()) or '-'
            return '|'.join(['view', ','.join(lab(v) for v in vs) or '-', ','.join(rat(e.get_linear(v)) for v in vs) or '-', quad, rat(e.offset), types])
        cons = '%'.join(f'{lab(l)}^{cm.sense.value}^{rat(cm.rhs)}^{wm(cm.lhs)}' for l, cm in c.constraints.items()) or '-'
        return f'cqm!{types}!{wm(c.objective)}!{cons}'
    o = x.obj
    vs = list(o.variables)
    quad = ','.join(f'{lab(u)}&{lab(v)}&{rat(b)}' for u, v, b in o.iter_quadratic()) or '-'
    if x.kind == 'bqm':
        k, types = f'bqm.{o.vartype.name}', '-'
    elif x.kind == 'qm':
        k, types = 'qm', ','.join(f'{lab(v)}~{o.vartype(v).name}' for v in vs) or '-'
    else:
        k = 'view'
        types = ','.join(f'{lab(v)}~{x.keep.vartype(v).name}' for v in x.keep.variables) or '-'
    return '|'.join([k, ','.join(lab(v) for v in vs) or '-', ','.join(rat(o.get_linear(v)) for v in vs) or '-', quad, rat(o.offset), types])


# ------------------------------------------------------------------------------------------------

PRE = ('import warnings\nwarnings.simplefilter("ignore")\nimport numpy as np\n'
       'from dimod import BinaryQuadraticModel as BQM, ConstrainedQuadraticModel as CQM, QuadraticModel as QM\n')


def src_of(x, name):
    if x.kind == 'num':
        return f'{name} = {float(x.spec)!r}\n'
    if x.kind == 'other':
        return f'{name} = {x.obj!r}\n'
    return x.src + f'{name} = _o; {name}_keep = globals().get("_keep")\n'


def call(f):
    try:
        v = f()
    except Exception as e:  # noqa
        return 'raise:' + type(e).__name__
    if isinstance(v, (bool, np.bool_)):
        return 'T' if v else 'F'
    if isinstance(v, dimod.sym.Eq):
        # `model == number` builds the comparison Eq(model, number); its truth value is what `if model == 3:` sees
        try:
            return 'T' if bool(v) else 'F'
        except Exception as e:  # noqa
            return 'raise:' + type(e).__name__
    return 'nonbool:' + type(v).__name__


EXC = {'raise:ValueError': 'raise:value', 'raise:AttributeError': 'raise:attr'}


def one_round(ctx, r, lines, expect, meta):
    base = rand_spec(r)
    pool = []

    def add(kind, spec, tag, f32ok=True):
        src = realise(r, spec, kind, f32ok)
        if src is None:
            return
        o, keep = build(src)
        pool.append((Obj(kind, spec, o, src, keep), tag))

    for kind in r.sample(KINDS, len(KINDS)):
        add(kind, base, 'same')
    add(r.choice(KINDS), base, 'same')
    perts = perturbations(r, base)
    must = [p for p in perts if p[0].startswith('isolated') or 'moved' in p[0] or 'zero' in p[0]]
    for name, t in r.sample(perts, k=min(4, len(perts))) + must:
        add(r.choice(KINDS), t, name)
    for name, t in must:
        if 'moved' in name or name == 'quadratic bias set to zero':
            add(r.choice(KINDS), t, name)      # a second realisation in another class
    for name, t in perturbations(r, base, tiny=True)[:2]:
        add(r.choice(['qm', 'objview', 'conview', 'bqm']), t, 'tiny ' + name, f32ok=False)
    pool.append((Obj('num', base['off'], float(base['off']), None), 'number'))
    if r.random() < .5:
        pool.append((Obj('num', base['off'] + 1, float(base['off'] + 1), None), 'number'))
    pool.append((Obj('other', None, r.choice([None, 'abc', [1], {}]), None), 'object'))
    cbase = rand_cspec(r, base)
    cperts = cqm_perturbations(r, cbase)
    cmust = [p for p in cperts if 'unused variable' in p[0] or p[0] == 'used variable type']
    crest = [p for p in cperts if p not in cmust]
    for tag, c in [('same', cbase), ('same', cbase)] + r.sample(crest, k=min(4, len(crest))) + cmust:
        ctx.tick('cqm in pool: ' + tag + (' (has unused variables)' if tag == 'same' and unused_vars(c) else ''))
        src = realise_cqm(r, c)
        o, _ = build(src)
        pool.append((Obj('cqm', c['obj'], o, src, None, c), 'cqm ' + tag))
    places = r.choice([7, 7, 3, 2, 1, 0])
    for (a, ta) in pool:
        if a.kind in ('num', 'other'):
            continue
        for (b, tb) in pool:
            same = a is b
            if same and r.random() < .5:
                # reflexivity also on an independent copy
                pass
            ops = [('eq', lambda: a.obj.is_equal(b.obj), expected(a, b)),
                   ('aeq', lambda: a.obj.is_almost_equal(b.obj, places=places), expected(a, b, places))]
            if b.kind not in ('num',):
                if a.kind == 'bqm' or b.kind == 'bqm':
                    e = expected(a, b) if a.kind == 'bqm' else (expected(b, a) if b.kind == 'bqm' else None)
                    ops.append(('opeq', lambda: a.obj == b.obj, e))
                    ops.append(('opne', lambda: a.obj != b.obj, not e))
                else:
                    ops.append(('opeq', lambda: a.obj == b.obj, None))   # identity fall-back: recorded, compared with the model only
                    ops.append(('opne', lambda: a.obj != b.obj, None))
            for op, f, want in ops:
                got = call(f)
                ctx.tick(op + ':' + got[:7])
                wa, wb = wire(a), wire(b)
                if op == 'eq':
                    lines.append(f'eq {wa} {wb}')
                elif op == 'aeq':
                    lines.append(f'aeq {places} {wa} {wb}')
                else:
                    lines.append(f'{op} {int(same)} {wa} {wb}')
                expect.append(EXC.get(got, got))
                meta.append((op, a.cls, b.cls, ta, tb))
                ctx.case((op, places if op == 'aeq' else None, wa, wb), nontrivial=True,
                         sample=dict(op=op, a=a.src, b=b.src) if r.random() < .002 else None)
                if want is None:
                    continue
                meth = {'eq': 'is_equal', 'aeq': 'is_almost_equal', 'opeq': '__eq__', 'opne': '__ne__'}[op]
                expr = {'eq': 'A.is_equal(B)', 'aeq': f'A.is_almost_equal(B, places={places})', 'opeq': '(A == B)', 'opne': '(A != B)'}[op]
                rep = PRE + src_of(a, 'A') + (src_of(b, 'B') if not same else 'B = A\n') + f'res = {expr}\nprint(res)\nassert res is {want} or res == {want}, res\n'
                if got.startswith('raise') or got.startswith('nonbool'):
                    ctx.fail('property', f'{a.cls}.{meth}', f'raises {got.split(":")[1]}' if got.startswith('raise') else 'non-boolean result',
                             f'{expr} with A a {a.cls} [{ta}] and B a {b.cls} [{tb}]: {got}', repro=rep, detail=dict(a=a.src, b=b.src))
                    continue
                if (got == 'T') != want:
                    icls = f'{b.cls} argument'
                    if (op in ('eq', 'aeq') and got == 'T' and a.kind != 'cqm' and b.kind not in ('cqm', 'num', 'other')
                            and frozenset(a.spec['vars']) == frozenset(b.spec['vars']) and set(a.spec['quad']) != set(b.spec['quad'])):
                        icls = 'same variables, different interaction sets'
                    elif op == 'aeq' and a.kind == 'bqm' and b.kind in ('objview', 'conview') and want:
                        icls = 'other is an expression view'
                    elif op == 'aeq' and a.kind == 'bqm' and b.kind == 'bqm' and want and not a.spec['vars']:
                        icls = 'variable-free BQMs of different vartype'
                    elif op == 'aeq' and b.kind in ('objview', 'conview') and not want and got == 'T':
                        icls = 'view lacks a variable of the receiver'
                    elif a.kind == 'cqm' and b.kind == 'cqm' and 'unused variable' in (ta + tb) and got == 'T':
                        icls = 'variable used in no expression'
                    elif a.kind == 'cqm' and b.kind == 'cqm':
                        # a constraint lhs (a view) can hit the view defect inside the CQM comparison
                        if op == 'aeq' and got == 'T':
                            icls = 'view lacks a variable of the receiver'
                    ctx.fail('property', f'{a.cls}.{meth}', icls,
                             f'{expr} = {got} with A a {a.cls} [{ta}] and B a {b.cls} [{tb}]; canonical forms say {want}',
                             repro=rep, detail=dict(a=a.src, b=b.src))
    # symmetry is implied by agreement with the (symmetric) predicate on both orders; nothing else to do
    number_operands(ctx, r, pool, lines, expect, meta)
    mapping_views(ctx, r, pool, lines, expect, meta)


def number_operands(ctx, r, pool, lines, expect, meta):
    """`model == x`, `x == model`, `model != x`, `x != model` for Python and NumPy numbers (truth value where a comparison is built)"""
    nums = [b for b, _ in pool if b.kind == 'num']
    for a, ta in pool:
        if a.kind in ('num', 'other'):
            continue
        for b in nums:
            x = b.spec
            forms = [float(x), np.float64(float(x))] + ([int(x)] if x.denominator == 1 else [])
            n = r.choice(forms)
            nsrc = f'np.float64({float(x)!r})' if isinstance(n, np.floating) else repr(n)
            wa, wb = wire(a), wire(b)
            # a BQM / QM equals a number iff it has no variables and that offset; views and CQMs define no `==`: identity
            e = expected(a, b) if a.kind in ('bqm', 'qm') else None
            for op, f, line, expr, want in (
                    ('opeq', lambda: a.obj == n, f'opeq 0 {wa} {wb}', f'(A == {nsrc})', e),
                    ('opeq', lambda: n == a.obj, f'opeq 0 {wb} {wa}', f'({nsrc} == A)', e),
                    ('opne', lambda: a.obj != n, f'opne 0 {wa} {wb}', f'(A != {nsrc})', None if e is None else not e),
                    ('opne', lambda: n != a.obj, f'opne 0 {wb} {wa}', f'({nsrc} != A)', None if e is None else not e)):
                got = call(f)
                ctx.tick(f'number operand {op}:' + got[:7])
                lines.append(line); expect.append(EXC.get(got, got)); meta.append((op, a.cls, 'number', ta, 'number'))
                ctx.case((line,), nontrivial=True)
                if want is None:
                    continue
                if got not in ('T', 'F') or (got == 'T') != want:
                    meth = '__eq__' if op == 'opeq' else '__ne__'
                    ctx.fail('property', f'{a.cls}.{meth}', 'number operand' + (' on the left' if expr.startswith('(' + nsrc) else ''),
                             f'bool{expr} = {got} with A a {a.cls} [{ta}]; A.is_equal({nsrc}) says {want if op == "opeq" else not want}',
                             repro=PRE + src_of(a, 'A') + f'res = bool({expr})\nprint(res)\nassert res is {want}, res\n', detail=dict(a=a.src))


VIEWS = {'linear': 'Linear', 'adj': 'Adjacency', 'quadratic': 'Quadratic', 'nbh': 'Neighborhood'}


def mapping_views(ctx, r, pool, lines, expect, meta):
    """`==` / `!=` on `m.linear`, `m.adj`, `m.adj[v]`, `m.quadratic` (view vs view, view vs dict, dict vs view) as mapping equality"""
    models = [(a, t) for a, t in pool if a.kind in ('bqm', 'qm', 'objview', 'conview')]
    for a, ta in models:
        for b, tb in models:
            if r.random() < .45:
                continue
            k = r.choice(['linear', 'adj', 'quadratic', 'quadratic', 'nbh'])
            v = None
            if k == 'nbh':
                common = [x for x, _ in a.spec['vars'] if x in dict(b.spec['vars'])]
                if not common:
                    k = 'adj'
                else:
                    v = r.choice(common)
            sa, sb = a.spec, b.spec
            if k == 'linear':
                want = sa['lin'] == sb['lin']
                acc, dct = '.linear', 'dict(B.linear)'
            elif k == 'adj':
                want = {x for x, _ in sa['vars']} == {x for x, _ in sb['vars']} and sa['quad'] == sb['quad']
                acc, dct = '.adj', '{u: dict(n) for u, n in B.adj.items()}'
            elif k == 'quadratic':
                want = sa['quad'] == sb['quad']
                acc, dct = '.quadratic', r.choice(['dict(B.quadratic)', '{(q[1], q[0]): x for q, x in B.quadratic.items()}'])
            else:
                want = {q: x for q, x in sa['quad'].items() if v in q} == {q: x for q, x in sb['quad'].items() if v in q}
                acc, dct = f'.adj[{v!r}]', f'dict(B.adj[{v!r}])'
            form = r.choice(['view == view', 'view == view', 'view == dict', 'dict == view'])
            lhs, rhs = {'view == view': ('A' + acc, 'B' + acc), 'view == dict': ('A' + acc, dct), 'dict == view': (dct, 'A' + acc)}[form]
            env = dict(A=a.obj, B=b.obj)
            kk = k if v is None else f'nbh={lab(v)}'
            wa, wb = wire(a), wire(b)
            icls = form
            if (k in ('adj', 'quadratic') and {x for x, _ in sa['vars']} == {x for x, _ in sb['vars']} and set(sa['quad']) != set(sb['quad'])
                    and len(sa['quad']) == len(sb['quad'])):
                icls = 'same variables, same number of interactions, different interaction sets'
            for op, sym, w in (('veq', '==', want), ('vne', '!=', not want)):
                expr = f'({lhs} {sym} {rhs})'
                got = call(lambda: eval(expr, dict(env)))
                ctx.tick(f'{op} {k} {form}:' + got[:7])
                lines.append(f'{op} {kk} {wa} {wb}'); expect.append(EXC.get(got, got)); meta.append((op, a.cls, b.cls, ta, tb))
                ctx.case((op, kk, form, wa, wb), nontrivial=True)
                if got not in ('T', 'F') or (got == 'T') != w:
                    rep = PRE + src_of(a, 'A') + (src_of(b, 'B') if a is not b else 'B = A\n') + f'res = {expr}\nprint(res)\nassert res is {w} or res == {w}, res\n'
                    ctx.fail('property', f'{VIEWS[k]}.{"__eq__" if op == "veq" else "__ne__"}', icls,
                             f'{expr} = {got} with A a {a.cls} [{ta}] and B a {b.cls} [{tb}]; as mappings they are {"equal" if want else "different"}',
                             repro=rep, detail=dict(a=a.src, b=b.src))


def run(ctx):
    r = ctx.rng
    n = ctx.scale(60, 900)
    ctx.rule = ('rounds of a pool of ~18 objects derived from one random polynomial (class mix BQM/QM/objective view/constraint view/'
                'CQM/number/other object, permuted orders, float64/float32/object dtype, single-field perturbations, same shape with '
                'disjoint labels); every ordered pair x {is_equal, is_almost_equal(places), ==, !=}, numbers on either side of == / !=, and '
                '== / != on the linear / adj / adj[v] / quadratic mapping views (vs views and plain dicts); a case = one call; distinct by (op, wire forms)')
    lines, expect, meta = [], [], []
    # the open question of DESIGN section 5 / C18, answered by the code under test on every run
    a, b = BQM('SPIN'), BQM('BINARY')
    qa, qb = QM(), QM()
    ctx.extra['variable_free_models_of_different_vartype'] = dict(
        is_equal=bool(a.is_equal(b)), eq_operator=bool(a == b), is_almost_equal=bool(a.is_almost_equal(b)),
        bqm_vs_empty_qm=bool(a.is_equal(qa)),
        note='Vartype members are callable, so every is_equal takes the per-variable branch: no variables => equal')
    ctx.extra['qm_eq_operator'] = dict(qm_eq_equal_copy=bool(qa == qb), note='QuadraticModel.__eq__ answers NotImplemented for a model '
                                       '(it only builds comparisons with numbers); Python falls back to identity, so `qm == qm.copy()` is False '
                                       'while `qm.is_equal(qm.copy())` is True; `==` is model equality only where a BQM is involved')
    if not (a.is_equal(b) and a == b and a.is_equal(qa)):
        ctx.fail('property', 'BQM.is_equal', 'variable-free models of different vartype',
                 'two models without variables and with equal offsets do not compare equal', repro=PRE + "assert BQM('SPIN').is_equal(BQM('BINARY'))\n")
    for k_ in range(n):
        one_round(ctx, r, lines, expect, meta)
        if k_ % 3 == 0:
            cqm_field_sweep(ctx, r, rand_spec(r), lines, expect, meta)
        if len([f for f in ctx.failures if f['kind'] == 'property']) >= 40:
            break
    got = run_driver('eqdriver', lines)
    ctx.corr_lines += len(lines)
    explained = {(f['site']) for f in ctx.failures if f['kind'] == 'property'}
    nbad = 0
    for i in range(len(lines)):
        g = got[i] if i < len(got) else 'MISSING'
        if g != expect[i]:
            op, ca, cb, ta, tb = meta[i]
            meth = {'eq': 'is_equal', 'aeq': 'is_almost_equal', 'opeq': '__eq__', 'opne': '__ne__', 'veq': '__eq__', 'vne': '__ne__'}[op]
            sites = {f'{ca}.{meth}', f'{cb}.{meth}', f'{ca}.is_equal', f'{cb}.is_equal', f'{ca}.is_almost_equal', f'{cb}.is_almost_equal'}
            if op in ('veq', 'vne'):
                sites = {f'{x}.{meth}' for x in VIEWS.values()}
            if sites & explained:
                if len(ctx.notes) < 5:
                    ctx.notes.append(f'model/impl differ on {op} {ca} vs {cb} — explained by a reported property failure')
                continue
            nbad += 1
            ctx.fail('correspondence', 'equality vs Lean Eqm', f'{op} {ca} vs {cb}', f'`{lines[i][:300]}`: impl {expect[i]} model {g} [{ta} / {tb}]')
            if nbad >= 5:
                break
